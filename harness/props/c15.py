"""C15 — path locks give reader-writer exclusion without deadlock in every schedule.
Model: coq/theories/C15 (Model.v = thread level LTS, Check.v); theorems in Properties.v / Refuted.v.
Tie: the REAL lock.py is executed under a deterministic scheduler (c15_vsched.py), one atomic section
at a time; the same labels are fed to the model's `stepo` inside Coq and everything observable is
compared after every step; the property statements are evaluated on the implementation's own
observations (oracle tags)."""
import json
import random

from harness.lib import coqterm as ct
from harness.lib.core import REPO, VERIF, source_sha
from harness.props import c15_vsched as vs

LEVEL = 'proof'
MAXSTEPS = 900

TAGS = {
    1: 'a step the real code took is not enabled in the model',
    2: 'observable effect of a step (enter/leave/exit/wait/raise class) differs from the model',
    3: '_acquired_by differs from the model (or keeps a zero entry)',
    4: 'RLock owner/depth differs from the model',
    5: 'Condition waiters/notified differ from the model',
    6: 'final position of the unfinished threads differs from the model',
    7: 'set of runnable threads differs from the model',
    8: 'bodies the threads are inside differ from the model',
    9: 'an unexpected exception escaped from the lock code',
    11: 'a thread is inside an exclusive body while another thread holds the lock',
    12: 'a request was refused / kept waiting although no conflicting holder exists (thread level: shared vs exclusive body; path level: kernel lock request vs holders of other processes)',
    13: "a thread's hold changed during another thread's step",
    14: 'a non-blocking request waited, or entered in spite of a conflicting holder',
    15: 'a non-reentrant recursive request entered instead of raising',
    16: 'bookkeeping not empty after every thread has finished',
    202: 'guard: the thread programs lock the two files in inconsistent order',
    203: 'guard: two upgraders pending at the same time',
    21: 'lost wake-up: a waiter whose conflicting holders have all released was not notified and no thread can move',
    22: 'deadlock: no thread can move',
    23: 'step bound reached',
}
CORR = (1, 2, 3, 4, 5, 6, 7, 8)
ORACLE = (9, 11, 12, 13, 14, 15, 16, 21, 22, 23)
# oracle tags that are excused when the guard g_no_upgrade is false (tag 201), the model explains the run
# (no correspondence tag) and the finding is listed open
EXCUSED = {21: 'C15-LOST-WAKEUP-UPGRADE', 22: 'C15-MUTUAL-UPGRADE-DEADLOCK'}   # 21 is fixed (01dac8d): open_finding() is None, a recurrence is a VIOLATION


# ------------------------------------------------------------------ generator
def gen_req(rng, depth, budget):
    req = {'sh': rng.random() < 0.6, 'b': rng.random() < 0.65, 'r': rng.random() < 0.6}
    if rng.random() < 0.04:
        req['boom'] = True
    if rng.random() < 0.5:
        req['sp'] = rng.randrange(4)       # path level only: another spelling of the same file
    budget[0] -= 1
    body = []
    while budget[0] > 0 and depth < 3 and rng.random() < 0.45:
        body.append(gen_req(rng, depth + 1, budget))
    if body:
        req['body'] = body
    return req


def gen_program(rng, maxreq):
    budget = [rng.randint(1, maxreq)]
    items = []
    while budget[0] > 0:
        items.append(gen_req(rng, 1, budget))
    return items


def gen_schedule(rng, n, length):
    out, cur = [], rng.randrange(n)
    for _ in range(length):
        if rng.random() < 0.45:
            cur = rng.randrange(n)
        out.append(cur)
    return out


def gen_thread_spec(rng, maxthreads=3, maxreq=3):
    n = rng.choice([1, 2, 2, 2, 3, 3, 3][:2 * maxthreads]) if maxthreads < 3 else rng.choice([1, 2, 2, 2, 3, 3, 3])
    return {'level': 'thread', 'threads': [gen_program(rng, maxreq) for _ in range(n)],
            'schedule': gen_schedule(rng, n, rng.choice([0, 8, 20, 40]))}


def count_reqs(items):
    return sum(1 + count_reqs(q.get('body', [])) for q in items)


# ------------------------------------------------------------------ running the real code
class Machine:
    """One module instance of lock.py (= one simulated process) with virtual primitives."""
    _count = 0

    def __init__(self, path=None, holder=None, pid=None):
        Machine._count += 1
        self.path = path or vs.lock_source(REPO)
        self.holder = holder or vs.Holder()
        self.pid = pid
        self.mod = vs.load_lock_module(self.holder, f'pv_c15_lock_{Machine._count}', self.path)
        if pid is not None:
            vs.virtualise_os(self.mod, pid)

    def exc_name(self, e):
        m = self.mod
        if isinstance(e, m.AcquiringThreadLevelLockWouldBlockError):
            return 'WouldBlock'
        if isinstance(e, m.AcquiringProcessLevelLockWouldBlockError):
            return 'ProcWouldBlock'
        if isinstance(e, m.RecursiveDeadlockError):
            return 'Recursive'
        return None


def req_frame(q):
    return f"({'ShReq' if q['sh'] else 'ExReq'} {ct.boolean(q['b'])} {ct.boolean(q['r'])})"


def body_frames(reqs):
    return ['ShBody' if q['sh'] else 'ExBody' for q in reqs]


def pick(recs, S, schedule, pos, last, n, eager):
    """Next thread to grant: the one the schedule names if it can run, else the next runnable one in cyclic order.
    With eager stutter (used by the exhaustive enumeration) a thread parked right after a release runs first."""
    alive = [r for r in recs if not r['done']]
    if not alive:
        return None, 0, False
    runnable = [r for r in alive if S.runnable(r)]
    if not runnable:
        return None, 1, False
    if eager:
        st = [r for r in runnable if r['want'][0] == 'released']
        if st:
            return st[0], None, True
    want = schedule[pos] % n if pos < len(schedule) else (last + 1) % n
    return min(runnable, key=lambda r: (r['id'] - want) % n), None, False


def merge_stutter_events(steps):
    """What a thread logs while it runs the code following a release (its `stutter` step) belongs to the atomic
    section before it: append those events to the thread's previous step."""
    lastof = {}
    for st in steps:
        if st['stutter'] and st['t'] in lastof:
            lastof[st['t']]['ev'] += st['ev']
            st['ev'] = []
        elif not st['stutter']:
            lastof[st['t']] = st


def run_thread_level(spec, machine):
    """Execute one schedule of the real ShareableThreadLock.  Returns the observation dict."""
    S = vs.Sched()
    machine.holder.S = S
    mod = machine.mod
    L = mod.ShareableThreadLock()
    cond = L._condition
    errs = (mod.AcquiringLockWouldBlockError, mod.RecursiveDeadlockError)

    def run_items(rec, items):
        for req in items:
            rec['req'] = req
            rec['phase'] = 'idle'
            S.yield_point(('idle',))
            rec['phase'] = 'entry'
            entered = False
            try:
                with L.lock(shared=req['sh'], blocking=req['b'], reentrant=req['r']):
                    entered = True
                    rec['bodies'].insert(0, req)
                    S.events.append(('enter', req['sh']))
                    run_items(rec, req.get('body', []))
                    rec['req'] = req
                    rec['phase'] = 'body'
                    S.yield_point(('body',))
                    rec['phase'] = 'exit'
                    if req.get('boom'):
                        raise vs.Boom()
                rec['bodies'].pop(0)
                S.events.append(('exitdone', req['sh']))
            except vs.Boom:
                if not entered or not req.get('boom'):
                    raise
                rec['bodies'].pop(0)
                S.events.append(('exitdone', req['sh']))
            except errs as e:
                if entered:
                    raise
                S.events.append(('raise', machine.exc_name(e)))

    recs = [S.spawn(lambda rec: run_items(rec, rec['prog']), prog=prog, bodies=[], req=None, phase='idle')
            for prog in spec['threads']]
    n = len(recs)
    schedule = spec.get('schedule') or []
    eager = bool(spec.get('eager_stutter'))
    steps, final, pos, last = [], None, 0, n - 1
    while True:
        if len(steps) >= MAXSTEPS:
            final = 2
            break
        rec, final, forced = pick(recs, S, schedule, pos, last, n, eager)
        if rec is None:
            break
        if not forced:
            pos += 1
        last = rec['id']
        kind = rec['want'][0]
        push, stutter = kind == 'idle', kind == 'released'
        act = f"(APush {req_frame(rec['req'])})" if push else 'AGo'
        ev = S.grant(rec)
        leave = (not ev and not rec['done'] and rec['want'][0] == 'acquire' and rec['phase'] == 'exit')
        steps.append({
            't': rec['id'], 'act': act, 'push': push, 'stutter': stutter, 'forced': forced, 'ev': list(ev), 'leave': leave,
            'acq': sorted((k, v) for k, v in L._acquired_by.items()),
            'owner': cond.lock.owner, 'depth': cond.lock.depth,
            'waiting': sorted(cond.waiters), 'notified': sorted(cond.notified),
            'runnable': [r['id'] for r in recs if not r['done'] and S.runnable(r)],
            'done': [r['id'] for r in recs if r['done']],
            'released': [r['id'] for r in recs if not r['done'] and r['want'][0] == 'released'],
            'bodies': [(r['id'], [q['sh'] for q in r['bodies']]) for r in recs if r['bodies']],
        })
    merge_stutter_events(steps)
    for st in steps:
        kinds = {e[0]: e for e in st['ev']}
        if st['stutter']:
            obs = 'OPush' if not st['ev'] else 'CRASH'      # placeholder: not compared on stutter steps
        elif st['push']:
            obs = 'OPush' if not st['ev'] else 'CRASH'
        elif 'enter' in kinds:
            obs = 'OEnterSh' if kinds['enter'][1] else 'OEnterEx'
        elif 'raise' in kinds:
            obs = f"(ORaise {kinds['raise'][1]})" if kinds['raise'][1] in ('WouldBlock', 'Recursive') else 'CRASH'
        elif 'exitdone' in kinds:
            obs = f"(OExitSh {ct.boolean('notify' in kinds)})" if kinds['exitdone'][1] else 'OExitEx'
        elif 'wait' in kinds:
            obs = 'OWait'
        elif not st['ev'] and st['leave']:
            obs = 'OLeave'
        else:
            obs = 'CRASH'
        st['obs'] = obs
    parked = []
    for r in recs:
        if r['done']:
            continue
        w = r['want'][0]
        if w in ('idle', 'body', 'released'):
            fr = body_frames(r['bodies'])
        elif w == 'acquire':
            fr = ([req_frame(r['req'])] + body_frames(r['bodies'])) if r['phase'] == 'entry' \
                else (['ShExit'] + body_frames(r['bodies'][1:]))
        else:
            fr = [f"(ExWait {ct.boolean(r['req']['r'])} {ct.boolean(r['id'] in cond.notified)})"] + body_frames(r['bodies'])
        parked.append((r['id'], fr))
    crashes = [r['crash'] for r in recs if r['crash']] + ['bad-observation' for s in steps if s['obs'] == 'CRASH']
    S.abort_all()
    return {'n': n, 'steps': steps, 'final': final, 'parked': parked, 'crashes': crashes,
            'effective': [s['t'] for s in steps if not s['forced']]}


def natl(xs):
    return ct.lst([ct.nat(x) for x in xs])


def thread_case_term(o):
    steps = []
    for s in o['steps']:
        obs = s['obs'] if s['obs'] != 'CRASH' else 'OPush'
        if any(not (0 <= v < 4000) for _, v in s['acq']) or not (0 <= s['depth'] < 4000):
            # a corrupted counter cannot be printed as a nat: report it as a crash of the lock code
            o['crashes'].append('counter out of range: ' + repr(s['acq']))
            s = dict(s, acq=[(k, min(max(v, 0), 3999)) for k, v in s['acq']], depth=min(max(s['depth'], 0), 3999))
        steps.append(
            f"(mkStep {ct.nat(s['t'])} {s['act']} {obs} "
            + ct.lst([ct.pair(ct.nat(k), ct.nat(v)) for k, v in s['acq']]) + ' '
            + ct.opt(None if s['owner'] is None else ct.nat(s['owner'])) + f" {ct.nat(s['depth'])} "
            + natl(s['waiting']) + ' ' + natl(s['notified']) + ' ' + natl(s['runnable']) + ' ' + natl(s['done']) + ' '
            + ct.lst([ct.pair(ct.nat(t), ct.lst([ct.boolean(b) for b in bs])) for t, bs in s['bodies']])
            + f" {ct.boolean(s['stutter'])} " + natl(s['released']) + ')')
    parked = ct.lst([ct.pair(ct.nat(t), ct.lst(fr)) for t, fr in o['parked']])
    return (f"(mkCase {ct.nat(o['n'])} " + ct.lst(steps) + f" {ct.nat(o['final'])} " + parked
            + f" {ct.nat(len(o['crashes']))})")


# ------------------------------------------------------------------ path level: the whole of path_lock, several processes
VPATHS = ['/pv-virtual/dir/../lockfile', '/pv-virtual/lockfile', '/pv-virtual//lockfile', '/pv-virtual/./lockfile']
VPATH = VPATHS[0]                           # spellings of ONE file: normalised by path_lock; never touched (os is virtual)
PCORR = (31, 32, 33, 34, 35, 36, 37, 38)
PTAGS = {
    31: 'a step the real code took is not enabled in the path model',
    32: 'observable effect of a step differs from the path model',
    33: 'pool reference counts differ from the path model',
    34: 'ShareableThreadLock state differs from the path model',
    35: 'ShareableProcessLock state (mutex, _shared_by, _exclusively_held_by) differs from the path model',
    36: 'kernel lock table differs from the path model',
    37: 'set of runnable threads differs from the path model',
    38: 'bodies the threads are inside differ from the path model',
    17: 'a thread is inside a body while its process does not hold the fcntl lock in the required mode',
    18: 'descriptor bookkeeping wrong: the path has no single open descriptor while referenced, or path_lock yielded another fd',
}
TAGS.update(PTAGS)
CORR = CORR + PCORR
ORACLE = ORACLE + (17, 18)


class World:
    """k simulated processes = k module instances of lock.py sharing one scheduler holder and one kernel."""

    def __init__(self, nprocs, path=None):
        self.holder = vs.Holder()
        self.machines = [Machine(path, self.holder, pid) for pid in range(nprocs)]
        self.dirty = False


_WORLDS = {}


def get_world(nprocs, path=None):
    key = (nprocs, str(path))
    w = _WORLDS.get(key)
    if w is None or w.dirty:
        w = World(nprocs, path)
        _WORLDS[key] = w
    return w


def gen_path_spec(rng, maxprocs=2):
    nprocs = rng.choice([1, 1, 2, 2, 2][:1 + 2 * (maxprocs - 1) + 1]) if maxprocs < 2 else rng.choice([1, 2, 2, 2])
    n = rng.choice([1, 2, 2, 3, 3])
    n = max(n, nprocs)
    pof = [i % nprocs for i in range(n)]
    rng.shuffle(pof)
    if len(set(pof)) < nprocs:
        pof = [i % nprocs for i in range(n)]
    return {'level': 'path', 'pof': pof, 'threads': [gen_program(rng, 3 if n < 3 else 2) for _ in range(n)],
            'schedule': gen_schedule(rng, n, rng.choice([0, 10, 30, 60]))}


def run_path_level(spec, path=None):
    pof = spec['pof']
    nprocs = max(pof) + 1
    world = get_world(nprocs, path)
    S = vs.Sched()
    world.holder.S = S
    kernel = vs.VKernel(S)
    world.holder.kernel = kernel
    for m in world.machines:
        if not vs.reset_pools(m.mod):
            raise RuntimeError('pools of a fresh world are not empty')
    world.dirty = True          # until this run ends with everything finished
    key = vs._real_os.path.normpath(VPATH)

    def run_items(rec, items):
        m = rec['machine']
        mod = m.mod
        errs = (mod.AcquiringLockWouldBlockError, mod.RecursiveDeadlockError)
        for req in items:
            rec['req'] = req
            S.yield_point(('idle',))
            entered = False
            try:
                with mod.path_lock(VPATHS[req.get('sp', 0) % len(VPATHS)], shared=req['sh'], blocking=req['b'],
                                   reentrant=req['r']) as fd:
                    entered = True
                    rec['bodies'].insert(0, req)       # "inside the body": from here ...
                    rec['holding'].insert(0, req)
                    S.events.append(('enter', req['sh'], fd))
                    run_items(rec, req.get('body', []))
                    rec['req'] = req
                    S.yield_point(('body',))
                    rec['bodies'].pop(0)               # ... to the moment the program leaves the with block
                    if req.get('boom'):
                        raise vs.Boom()
                rec['holding'].pop(0)
                S.events.append(('exitdone', req['sh']))
            except vs.Boom:
                if not entered or not req.get('boom'):
                    raise
                rec['holding'].pop(0)
                S.events.append(('exitdone', req['sh']))
            except errs as e:
                if entered:
                    raise
                S.events.append(('raise', m.exc_name(e)))

    recs = [S.spawn(lambda rec: run_items(rec, rec['prog']), prog=prog, bodies=[], holding=[], req=None,
                    machine=world.machines[pof[i]]) for i, prog in enumerate(spec['threads'])]
    n = len(recs)

    def proc_obs(m):
        mod = m.mod
        tle = mod._thread_level_lock_ref._refs.get(key)
        fde = mod._fd_ref._refs.get(key)
        bad = []
        if len(mod._thread_level_lock_ref._refs) > (1 if tle else 0) or len(mod._fd_ref._refs) > (1 if fde else 0):
            bad.append('unexpected pool keys')
        plrefs = mod._process_level_lock_ref._refs
        ple = plrefs.get(fde[0]) if fde else None
        if len(plrefs) > (1 if ple else 0):
            bad.append('process-lock pool entry under another fd')
        o = {'tlref': tle[1] if tle else 0, 'fdref': fde[1] if fde else 0, 'plref': ple[1] if ple else 0,
             'tl': None, 'pl': None, 'kern': kernel.locks.get((m.pid, key)),
             'nfds': len(kernel.fds.get(m.pid, {})), 'fd': fde[0] if fde else None, 'bad': bad}
        if set(f for (q, f) in kernel.locks if q == m.pid) - {key}:
            bad.append('kernel lock on another file')
        if tle:
            L = tle[0]
            c = L._condition
            o['tl'] = {'acq': sorted(L._acquired_by.items()), 'owner': c.lock.owner, 'depth': c.lock.depth,
                       'waiting': sorted(c.waiters), 'notified': sorted(c.notified)}
        if ple:
            Pl = ple[0]
            o['pl'] = {'mutex': Pl._lock.owner, 'sh': sorted(Pl._shared_by.items()), 'ex': sorted(Pl._exclusively_held_by.items())}
        return o

    schedule = spec.get('schedule') or []
    eager = bool(spec.get('eager_stutter'))
    steps, final, pos, last = [], None, 0, n - 1
    while True:
        if len(steps) >= MAXSTEPS:
            final = 2
            break
        rec, final, forced = pick(recs, S, schedule, pos, last, n, eager)
        if rec is None:
            break
        if not forced:
            pos += 1
        last = rec['id']
        kind = rec['want'][0]
        push, stutter = kind == 'idle', kind == 'released'
        q = rec['req']
        act = f"(PPush {ct.boolean(q['sh'])} {ct.boolean(q['b'])} {ct.boolean(q['r'])})" if push else 'PGo'
        ev = S.grant(rec)
        pobs = [proc_obs(m) for m in world.machines]
        fdbad = any(o['bad'] for o in pobs)
        for e in ev:
            if e[0] == 'enter' and e[2] != pobs[pof[rec['id']]]['fd']:
                fdbad = True
        failed = [e[1] for e in ev if e[0] == 'lockf-fail']
        steps.append({
            't': rec['id'], 'act': act, 'push': push, 'stutter': stutter, 'forced': forced,
            'ev': [e for e in ev if e[0] in ('enter', 'raise', 'exitdone', 'wait')], 'procs': pobs, 'fdbad': fdbad,
            'runnable': [r['id'] for r in recs if not r['done'] and S.runnable(r)],
            'done': [r['id'] for r in recs if r['done']],
            'released': [r['id'] for r in recs if not r['done'] and r['want'][0] == 'released'],
            'bodies': [(r['id'], [b['sh'] for b in r['bodies']]) for r in recs if r['bodies']],
            'holding': [(r['id'], [b['sh'] for b in r['holding']]) for r in recs if r['holding']],
            'lockf': [(r['id'], r['want'][4]) for r in recs if not r['done'] and r['want'][0] == 'lockf'],
            'lockf_failed': failed[0] if failed else None,
        })
    merge_stutter_events(steps)
    for st in steps:
        kinds = {e[0]: e for e in st['ev']}
        if st['stutter'] or st['push']:
            obs = ('POStep' if st['stutter'] else 'POPush') if not st['ev'] else 'CRASH'
        elif 'enter' in kinds:
            obs = 'POEnter'
        elif 'raise' in kinds:
            obs = {'WouldBlock': '(PORaise PThreadWouldBlock)', 'Recursive': '(PORaise PRecursive)',
                   'ProcWouldBlock': '(PORaise PProcWouldBlock)'}.get(kinds['raise'][1], 'CRASH')
        elif 'exitdone' in kinds:
            obs = 'POExit'
        elif 'wait' in kinds:
            obs = 'POWait'
        else:
            obs = 'POStep'
        st['obs'] = obs
    crashes = [r['crash'] for r in recs if r['crash']] + ['bad-observation' for s in steps if s['obs'] == 'CRASH']
    blocked = [(r['id'], r['want'][0]) for r in recs if not r['done']]
    S.abort_all()
    if final == 0 and not crashes and all(vs.reset_pools(m.mod) for m in world.machines):
        world.dirty = False
    return {'n': n, 'pof': pof, 'steps': steps, 'final': final, 'crashes': crashes, 'blocked': blocked,
            'effective': [s['t'] for s in steps if not s['forced']]}


# ------------------------------------------------------------------ two paths per thread: one view (= one pcase) per path
VPATHS_B = ['/pv-virtual/other/../other/lockfile2', '/pv-virtual/other/lockfile2']
ALLPATHS = [VPATHS, VPATHS_B]


def lock_ordered(threads):
    """No request on file 0 is nested inside a request on file 1 (the caller's lock-ordering duty)."""
    def walk(items, holding1):
        for q in items:
            if q.get('p', 0) == 0 and holding1:
                return False
            if not walk(q.get('body', []), holding1 or q.get('p', 0) == 1):
                return False
        return True
    return all(walk(prog, False) for prog in threads)


def gen_path2_spec(rng):
    nprocs = rng.choice([1, 2])
    n = rng.choice([2, 2, 3])
    ordered = rng.random() < 0.8

    def req(depth, budget, holding1):
        p = 1 if (holding1 and ordered) else rng.randrange(2)
        sh = rng.random() < 0.6
        q = {'p': p, 'sh': sh, 'b': rng.random() < 0.7, 'r': rng.random() < 0.6}
        if rng.random() < 0.4:
            q['sp'] = rng.randrange(4)
        budget[0] -= 1
        body = []
        while budget[0] > 0 and depth < 3 and rng.random() < 0.55:
            body.append(req(depth + 1, budget, holding1 or p == 1))
        if body:
            q['body'] = body
        return q
    threads = []
    for _ in range(n):
        budget = [rng.randint(2, 3)]
        items = []
        while budget[0] > 0:
            items.append(req(1, budget, False))
        threads.append(items)
    pof = [i % nprocs for i in range(n)]
    return {'level': 'path2', 'pof': pof, 'threads': threads, 'schedule': gen_schedule(rng, n, rng.choice([0, 20, 50, 90]))}


def run_path2_level(spec, path=None):
    """Like run_path_level, with requests on two different files.  Returns one observation dict per file (a `view`):
    the steps that act on the other file appear in a view as stutter steps (nothing of this file may change)."""
    pof = spec['pof']
    nprocs = max(pof) + 1
    world = get_world(nprocs, path)
    S = vs.Sched()
    world.holder.S = S
    kernel = vs.VKernel(S)
    world.holder.kernel = kernel
    for m in world.machines:
        if not vs.reset_pools(m.mod):
            raise RuntimeError('pools of a fresh world are not empty')
    world.dirty = True
    keys = [vs._real_os.path.normpath(ps[0]) for ps in ALLPATHS]

    def run_items(rec, items):
        m = rec['machine']
        mod = m.mod
        errs = (mod.AcquiringLockWouldBlockError, mod.RecursiveDeadlockError)
        for req in items:
            rec['req'] = req
            k = req.get('p', 0)
            S.yield_point(('idle',))
            rec['cur'] = k
            entered = False
            try:
                spell = ALLPATHS[k][req.get('sp', 0) % len(ALLPATHS[k])]
                with mod.path_lock(spell, shared=req['sh'], blocking=req['b'], reentrant=req['r']) as fd:
                    entered = True
                    rec['bodies'][k].insert(0, req)
                    rec['holding'][k].insert(0, req)
                    S.events.append(('enter', req['sh'], fd))
                    rec['cur'] = None
                    run_items(rec, req.get('body', []))
                    rec['req'] = req
                    S.yield_point(('body',))
                    rec['cur'] = k
                    rec['bodies'][k].pop(0)
                    if req.get('boom'):
                        raise vs.Boom()
                rec['holding'][k].pop(0)
                S.events.append(('exitdone', req['sh']))
                rec['cur'] = None
            except vs.Boom:
                if not entered or not req.get('boom'):
                    raise
                rec['holding'][k].pop(0)
                S.events.append(('exitdone', req['sh']))
                rec['cur'] = None
            except errs as e:
                if entered:
                    raise
                S.events.append(('raise', m.exc_name(e)))
                rec['cur'] = None

    recs = [S.spawn(lambda rec: run_items(rec, rec['prog']), prog=prog, bodies=[[], []], holding=[[], []], req=None, cur=None,
                    machine=world.machines[pof[i]]) for i, prog in enumerate(spec['threads'])]
    n = len(recs)

    def proc_obs(m, k):
        mod = m.mod
        key = keys[k]
        tle = mod._thread_level_lock_ref._refs.get(key)
        fde = mod._fd_ref._refs.get(key)
        bad = []
        if set(mod._thread_level_lock_ref._refs) - set(keys) or set(mod._fd_ref._refs) - set(keys):
            bad.append('unexpected pool keys')
        plrefs = mod._process_level_lock_ref._refs
        ple = plrefs.get(fde[0]) if fde else None
        fds = kernel.fds.get(m.pid, {})
        if set(plrefs) - {e[0] for e in mod._fd_ref._refs.values()}:
            bad.append('process-lock pool entry under an fd that is not in the fd pool')
        o = {'tlref': tle[1] if tle else 0, 'fdref': fde[1] if fde else 0, 'plref': ple[1] if ple else 0,
             'tl': None, 'pl': None, 'kern': kernel.locks.get((m.pid, key)),
             'nfds': sum(1 for f in fds.values() if f == key), 'fd': fde[0] if fde else None, 'bad': bad}
        if tle:
            L = tle[0]
            c = L._condition
            o['tl'] = {'acq': sorted(L._acquired_by.items()), 'owner': c.lock.owner, 'depth': c.lock.depth,
                       'waiting': sorted(c.waiters), 'notified': sorted(c.notified)}
        if ple:
            Pl = ple[0]
            o['pl'] = {'mutex': Pl._lock.owner, 'sh': sorted(Pl._shared_by.items()), 'ex': sorted(Pl._exclusively_held_by.items())}
        return o

    schedule = spec.get('schedule') or []
    steps, final, pos, last = [], None, 0, n - 1
    while True:
        if len(steps) >= MAXSTEPS:
            final = 2
            break
        rec, final, forced = pick(recs, S, schedule, pos, last, n, False)
        if rec is None:
            break
        pos += 1
        last = rec['id']
        kind = rec['want'][0]
        push, stutter = kind == 'idle', kind == 'released'
        q = rec['req']
        acting = q.get('p', 0) if (push or kind == 'body') else rec['cur']
        act = f"(PPush {ct.boolean(q['sh'])} {ct.boolean(q['b'])} {ct.boolean(q['r'])})" if push else 'PGo'
        ev = S.grant(rec)
        common = {'t': rec['id'], 'act': act, 'push': push, 'stutter': stutter, 'forced': False, 'acting': acting,
                  'ev': [e for e in ev if e[0] in ('enter', 'raise', 'exitdone', 'wait')],
                  'failed': [e[1] for e in ev if e[0] == 'lockf-fail'],
                  'enter_fd': [e[2] for e in ev if e[0] == 'enter']}
        alive = [r for r in recs if not r['done']]
        views = []
        for k in (0, 1):
            pobs = [proc_obs(m, k) for m in world.machines]
            other = [r['id'] for r in alive if r['cur'] is not None and r['cur'] != k]
            views.append({
                'procs': pobs, 'fdbad': any(o['bad'] for o in pobs),
                'runnable': [r['id'] for r in alive if S.runnable(r) and r['id'] not in other],
                'done': sorted([r['id'] for r in recs if r['done']] + other),
                'released': [r['id'] for r in alive if r['want'][0] == 'released' and r['id'] not in other],
                'bodies': [(r['id'], [b['sh'] for b in r['bodies'][k]]) for r in recs if r['bodies'][k]],
                'holding': [(r['id'], [b['sh'] for b in r['holding'][k]]) for r in recs if r['holding'][k]],
                'lockf': [(r['id'], r['want'][4]) for r in alive if r['want'][0] == 'lockf' and r['want'][3] == keys[k]],
            })
        common['views'] = views
        steps.append(common)
    merge_stutter_events(steps)
    crashes = [r['crash'] for r in recs if r['crash']]
    S.abort_all()
    if final == 0 and not crashes and all(vs.reset_pools(m.mod) for m in world.machines):
        world.dirty = False
    out = []
    for k in (0, 1):
        vsteps = []
        for st in steps:
            v = st['views'][k]
            mine = (not st['stutter']) and st['acting'] == k
            kinds = {e[0]: e for e in st['ev']} if mine else {}
            if not mine:
                obs = 'POStep'
            elif st['push']:
                obs = 'POPush' if not st['ev'] else 'CRASH'
            elif 'enter' in kinds:
                obs = 'POEnter'
            elif 'raise' in kinds:
                obs = {'WouldBlock': '(PORaise PThreadWouldBlock)', 'Recursive': '(PORaise PRecursive)',
                       'ProcWouldBlock': '(PORaise PProcWouldBlock)'}.get(kinds['raise'][1], 'CRASH')
            elif 'exitdone' in kinds:
                obs = 'POExit'
            elif 'wait' in kinds:
                obs = 'POWait'
            else:
                obs = 'POStep'
            fdbad = v['fdbad']
            vsteps.append(dict(v, t=st['t'], act=st['act'] if mine else 'PGo', obs=obs, stutter=not mine, fdbad=fdbad,
                               lockf_failed=(st['failed'][0] if (mine and st['failed']) else None)))
        vcr = list(crashes) + ['bad-observation' for s_ in vsteps if s_['obs'] == 'CRASH']
        out.append({'n': n, 'pof': pof, 'steps': vsteps, 'final': 0 if final == 0 else 3, 'crashes': vcr, 'blocked': [],
                    'effective': [s_['t'] for s_ in steps]})
    return out, final


def items_term(items):
    return ct.lst([ct.pair(ct.nat(k), ct.nat(v)) for k, v in items])


def kmode(k):
    return {None: 'KNone', 'SH': 'KSh', 'EX': 'KEx'}[k]


def path_case_term(o):
    def bad_nat(v):
        return not (isinstance(v, int) and 0 <= v < 4000)
    steps = []
    for s in o['steps']:
        obs = s['obs'] if s['obs'] != 'CRASH' else 'POStep'
        ps = []
        for po in s['procs']:
            vals = [po['tlref'], po['fdref'], po['plref'], po['nfds']]
            if po['tl']:
                vals += [v for _, v in po['tl']['acq']] + [po['tl']['depth']]
            if po['pl']:
                vals += [v for _, v in po['pl']['sh']] + [v for _, v in po['pl']['ex']]
            if any(bad_nat(v) for v in vals):
                o['crashes'].append('counter out of range')
                clamp = lambda v: min(max(v, 0), 3999)
                po = dict(po, tlref=clamp(po['tlref']), fdref=clamp(po['fdref']), plref=clamp(po['plref']), nfds=clamp(po['nfds']))
                if po['tl']:
                    po['tl'] = dict(po['tl'], acq=[(k, clamp(v)) for k, v in po['tl']['acq']], depth=clamp(po['tl']['depth']))
                if po['pl']:
                    po['pl'] = dict(po['pl'], sh=[(k, clamp(v)) for k, v in po['pl']['sh']], ex=[(k, clamp(v)) for k, v in po['pl']['ex']])
            tl = 'None' if not po['tl'] else (
                "(Some (mkTL " + items_term(po['tl']['acq']) + ' ' + ct.opt(None if po['tl']['owner'] is None else ct.nat(po['tl']['owner']))
                + f" {ct.nat(po['tl']['depth'])} " + natl(po['tl']['waiting']) + ' ' + natl(po['tl']['notified']) + '))')
            pl = 'None' if not po['pl'] else (
                "(Some (mkPL " + ct.opt(None if po['pl']['mutex'] is None else ct.nat(po['pl']['mutex'])) + ' '
                + items_term(po['pl']['sh']) + ' ' + items_term(po['pl']['ex']) + '))')
            ps.append(f"(mkPO {ct.nat(po['tlref'])} {ct.nat(po['fdref'])} {ct.nat(po['plref'])} {tl} {pl} {kmode(po['kern'])} {ct.nat(po['nfds'])})")
        steps.append(
            f"(mkPStep {ct.nat(s['t'])} {s['act']} {obs} " + ct.lst(ps) + ' ' + natl(s['runnable']) + ' ' + natl(s['done']) + ' '
            + ct.lst([ct.pair(ct.nat(t), ct.lst([ct.boolean(b) for b in bs])) for t, bs in s['bodies']])
            + f" {ct.boolean(s['fdbad'])} {ct.boolean(s['stutter'])} " + natl(s['released']) + ' '
            + ct.lst([ct.pair(ct.nat(t), ct.lst([ct.boolean(b) for b in bs])) for t, bs in s['holding']]) + ' '
            + ct.lst([ct.pair(ct.nat(t), kmode(m)) for t, m in s['lockf']]) + ' '
            + ct.opt(None if s['lockf_failed'] is None else kmode(s['lockf_failed'])) + ')')
    return (f"(mkPCase {ct.nat(o['n'])} " + natl(o['pof']) + ' ' + ct.lst(steps) + f" {ct.nat(o['final'])} "
            + natl([t for t, w in o['blocked'] if w == 'wait']) + f" {ct.nat(len(o['crashes']))})")


# ------------------------------------------------------------------ classification
def classify(ctx, spec, tags, obs):
    tags = set(tags)
    corr = sorted(t for t in tags if t in CORR)
    oracle = sorted(t for t in tags if t in ORACLE)
    status = 'ok'
    if 202 in tags and oracle == [22] and not corr:
        # two files locked in inconsistent order by the thread programs: lock ordering is the caller's duty (module docstring)
        ctx.coverage['unordered_two_path_deadlocks'] = ctx.coverage.get('unordered_two_path_deadlocks', 0) + 1
        return 'ok'
    # thread level: a deadlock is excused only when two upgraders were pending at once (g1 false, tag 203) -- a single
    # upgrader must make progress (deadlock_free_single_upgrader); path level: the no-upgrade guard (tag 201)
    gtag = 203 if spec.get('level', 'thread') == 'thread' else 201
    for t in oracle:
        fid = EXCUSED.get(t)
        if fid and not corr and gtag in tags and ctx.open_finding(fid):
            kh = ctx.coverage.setdefault('known_hits', {})
            kh[fid] = kh.get(fid, 0) + 1
            if status == 'ok':
                status = 'known'
        else:
            ctx.violation(TAGS[t], {'spec': spec, 'tags': sorted(tags), 'tag_meaning': TAGS[t],
                                    'effective_schedule': obs.get('effective'), 'crashes': obs.get('crashes')})
            status = 'violation'
    if corr and status != 'violation':
        ctx.broken.append('correspondence C15 model vs lock.py: ' + ', '.join(TAGS[t] for t in corr)
                          + ' on ' + json.dumps(spec))
        ctx.coverage.setdefault('corr_disagreements', []).append({'spec': spec, 'tags': sorted(tags)})
        status = 'broken'
    return status


IMPORTS = 'C15.Model C15.Check C15.PathModel C15.PathCheck'
_TM = {}


def thread_machine(src):
    k = str(src)
    if k not in _TM:
        _TM[k] = Machine(src)
    return _TM[k]


def summarize(o):
    kinds = {}
    for st in o['steps']:
        k = st['obs'].strip('()')
        kinds[k] = kinds.get(k, 0) + 1
    return {'n': o['n'], 'nsteps': len(o['steps']), 'final': o['final'], 'effective': o['effective'],
            'crashes': o['crashes'], 'kinds': kinds}


def observe(spec, src=None):
    """Run one spec on the real code; returns (Gallina case term, summary)."""
    if spec.get('level', 'thread') == 'thread':
        o = run_thread_level(spec, thread_machine(src))
        return thread_case_term(o), summarize(o)
    if spec.get('level') == 'path2':
        views, final = run_path2_level(spec, src)
        sm = summarize(views[0])
        sm['final'] = final
        sm['path2'] = True
        sm['ordered'] = lock_ordered(spec['threads'])
        return [path_case_term(v) for v in views], sm
    o = run_path_level(spec, src)
    return path_case_term(o), summarize(o)


def explore(base, src=None, limit=20000):
    """All maximal schedules of the programs of `base` (thread level), by stateless depth-first search: a prefix is
    re-executed from scratch and every alternative runnable thread at every later step starts a new prefix.
    The step that follows a release (stutter) is taken immediately (`eager_stutter`): the random and contention
    schedules interleave those steps freely, the enumeration does not branch on them."""
    base = dict(base, eager_stutter=True)
    out, stack = [], [[]]
    n = len(base['threads'])
    while stack and len(out) < limit:
        prefix = stack.pop()
        spec = dict(base, schedule=prefix)
        o = run_thread_level(spec, thread_machine(src))
        eff = o['effective']
        assert eff[:len(prefix)] == prefix, (prefix, eff)
        before, prev = [], list(range(n))
        for st in o['steps']:
            if not st['forced']:
                before.append(prev)
            prev = st['runnable']
        for i in range(len(prefix), len(eff)):
            for alt in before[i]:
                if alt != eff[i]:
                    stack.append(eff[:i] + [alt])
        out.append((dict(base, schedule=eff), thread_case_term(o), summarize(o)))
    return out, not stack


def _work(task):
    kind, payload, src = task
    if kind == 'run':
        return [(sp,) + observe(sp, src) for sp in payload]
    res, complete = explore(payload, src)
    if not complete:
        res.append((dict(payload, schedule=None), None, {'incomplete': True}))
    return res


def observe_tasks(tasks, jobs):
    if jobs <= 1 or len(tasks) <= 1:
        outs = [_work(t) for t in tasks]
    else:
        import multiprocessing as mp
        with mp.get_context('fork').Pool(jobs) as pool:
            outs = pool.map(_work, tasks, chunksize=1)
    return [x for o in outs for x in o]


def judge(ctx, items, label, quiet=False):
    """items: (spec, term, summary).  Coq judges the terms; classification; returns verdicts."""
    idx = {'thread': [], 'path': []}
    pterms = []          # (item index, term) for every path-level case; a two-path item contributes two
    for k, (sp, term, sm) in enumerate(items):
        if sp.get('level', 'thread') == 'thread':
            idx['thread'].append(k)
        else:
            for tm in (term if isinstance(term, list) else [term]):
                pterms.append((k, tm))
    verdicts = [None] * len(items)
    if idx['thread']:
        r = ctx.run_cases(label + '-t', IMPORTS, 'case', [items[k][1] for k in idx['thread']], 'verdict', shard=100)
        for k, v in zip(idx['thread'], r):
            verdicts[k] = v
    if pterms:
        r = ctx.run_cases(label + '-p', IMPORTS, 'pcase', [tm for _, tm in pterms], 'pverdict', shard=40)
        for (k, _), v in zip(pterms, r):
            verdicts[k] = sorted(set((verdicts[k] or []) + v))
    for k, (sp, term, sm) in enumerate(items):
        if sm.get('path2'):
            extra = ([22] if sm['final'] == 1 else []) + ([23] if sm['final'] == 2 else []) + ([] if sm['ordered'] else [202])
            verdicts[k] = sorted(set(verdicts[k] + extra))
    # the generated case files are large (GBs in the thorough tier): drop them once Coq has judged them
    import shutil
    for sub in (label + '-t', label + '-p'):
        shutil.rmtree(ctx.rundir / sub, ignore_errors=True)
    stats = {'ok': 0, 'known': 0, 'violation': 0, 'broken': 0}
    if not quiet:
        for (sp, term, sm), tags in zip(items, verdicts):
            stats[classify(ctx, sp, tags, sm)] += 1
    return verdicts, stats


def run_specs(ctx, specs, label, machine=None, quiet=False, jobs=1):
    """Runs the specs on the real code (`machine`: a Machine or a path to a lock.py; None = /repo), has Coq judge
    them, classifies unless quiet.  Returns (verdicts, summaries, stats)."""
    src = machine.path if isinstance(machine, Machine) else machine
    if jobs > 1 and len(specs) >= 200:
        k = max(1, len(specs) // (jobs * 4))
        tasks = [('run', specs[i:i + k], src) for i in range(0, len(specs), k)]
    else:
        tasks = [('run', specs, src)]
    items = observe_tasks(tasks, jobs)
    verdicts, stats = judge(ctx, items, label, quiet)
    return verdicts, [sm for _, _, sm in items], stats


def finding_probes(ctx):
    for f in ctx.findings:
        if f.get('status') != 'open':
            continue
        verdicts, obss, _ = run_specs(ctx, [f['witness']], 'finding-' + f['id'], quiet=True)
        tags = set(verdicts[0])
        if f['expect_tag'] in tags and not (tags & set(CORR)) and (203 in tags or f['witness'].get('level', 'thread') != 'thread'):
            ctx.known(f['id'])
        else:
            ctx.notes.append(f"finding_not_reproduced {f['id']} (tags {sorted(tags)})")


# ------------------------------------------------------------------ targeted generators
def gen_contention_spec(rng, level='thread'):
    """Several requesters queue up behind holders: waiters, several notified at once, late arrivals between a
    notification and the wake-up.  No thread upgrades (guard true) unless `upgrade` is drawn."""
    n = rng.choice([3, 3, 4])
    threads = []
    for i in range(n):
        role = rng.choice(['holder', 'waiter', 'waiter', 'late'])
        if role == 'holder':
            body = [{'sh': True, 'b': True, 'r': True}] if rng.random() < 0.3 else []
            prog = [{'sh': True, 'b': True, 'r': rng.random() < 0.7, **({'body': body} if body else {})}]
        elif role == 'waiter':
            prog = [{'sh': False, 'b': True, 'r': rng.random() < 0.5}]
            if rng.random() < 0.3:
                prog.append({'sh': rng.random() < 0.5, 'b': True, 'r': False})
        else:
            prog = [{'sh': True, 'b': rng.random() < 0.8, 'r': False}, {'sh': rng.random() < 0.5, 'b': rng.random() < 0.5, 'r': False}]
        threads.append(prog)
    sched = []
    for _ in range(rng.choice([6, 10, 16])):
        t = rng.randrange(n)
        sched += [t] * rng.choice([1, 2, 2, 3, 4, 6])
    spec = {'level': level, 'threads': threads, 'schedule': sched}
    if level == 'path' and rng.random() < 0.3:
        # upgrade round trip in one process (shared -> exclusive -> back to shared, then stay), probes from another process
        inner = {'sh': False, 'b': rng.random() < 0.7, 'r': True}
        stay = {'sh': True, 'b': True, 'r': True}
        a = [{'sh': True, 'b': True, 'r': True, 'body': [inner, stay] if rng.random() < 0.5 else [inner]}]
        probes = [[{'sh': rng.random() < 0.7, 'b': rng.random() < 0.5, 'r': False}] for _ in range(rng.choice([1, 2]))]
        k = rng.choice([20, 30, 40, 55])
        spec = {'level': 'path', 'pof': [0] + [1] * len(probes), 'threads': [a] + probes,
                'schedule': [0] * k + gen_schedule(rng, 1 + len(probes), 40)}
        return spec
    if level == 'path':
        nprocs = rng.choice([1, 2])
        spec['pof'] = [rng.randrange(nprocs) for _ in range(n)]
        if nprocs == 2 and len(set(spec['pof'])) < 2:
            spec['pof'][0] = 1 - spec['pof'][1]
    return spec


def flag_combos():
    return [{'sh': sh, 'b': b, 'r': r} for sh in (True, False) for b in (True, False) for r in (True, False)]


def exhaustive_bases(rng, tier):
    """Programs whose schedules are enumerated exhaustively."""
    combos = flag_combos()
    bases = [{'level': 'thread', 'threads': [[dict(a)], [dict(b)]]} for a in combos for b in combos]       # 2 x 1: all 64
    k = 3 if tier == 'quick' else 40
    for _ in range(k):                                                                                       # 2 threads, 2+1 requests
        a, b, c = (dict(rng.choice(combos)) for _ in range(3))
        if rng.random() < 0.6:
            first = [dict(a, body=[b])]
        else:
            first = [a, b]
        bases.append({'level': 'thread', 'threads': [first, [c]]})
    k3 = 0 if tier == 'quick' else 8
    for _ in range(k3):                                                                                      # 3 x 1
        bases.append({'level': 'thread', 'threads': [[dict(rng.choice(combos))] for _ in range(3)]})
    return bases


USERS = ['src/pharmpy/workflows/contexts/local_directory.py', 'src/pharmpy/workflows/model_database/local_directory.py']


def lock_mode_table(repo=REPO):
    """Fail-closed reading of how the two users of path_lock in the anchor files ask for it: every `_read_lock` must return
    `path_lock(<path>, shared=True)`, every `_write_lock` `path_lock(<path>, shared=False)` (no other keyword: blocking,
    non-reentrant).  Returns (table, problems, refused)."""
    import ast
    table, problems, refused = {}, [], []
    for rel in USERS:
        tree = ast.parse((repo / rel).read_text())
        found = 0
        for node in ast.walk(tree):
            if isinstance(node, ast.FunctionDef) and node.name in ('_read_lock', '_write_lock'):
                found += 1
                calls = [c for c in ast.walk(node) if isinstance(c, ast.Call) and isinstance(c.func, ast.Name) and c.func.id == 'path_lock']
                rets = [r for r in ast.walk(node) if isinstance(r, ast.Return)]
                ok = (len(calls) == 1 and len(rets) == 1 and rets[0].value is calls[0] and len(calls[0].args) == 1
                      and [k.arg for k in calls[0].keywords] == ['shared'] and isinstance(calls[0].keywords[0].value, ast.Constant)
                      and isinstance(calls[0].keywords[0].value.value, bool))
                if not ok:
                    refused.append(f'{rel}:{node.lineno} {node.name}: unexpected shape')
                    continue
                shared = calls[0].keywords[0].value.value
                table[f'{rel}:{node.name}'] = shared
                if shared != (node.name == '_read_lock'):
                    problems.append({'file': rel, 'function': node.name, 'line': node.lineno, 'shared': shared})
        if found != 2:
            refused.append(f'{rel}: expected one _read_lock and one _write_lock, found {found}')
        others = [c for c in ast.walk(tree) if isinstance(c, ast.Call) and isinstance(c.func, ast.Name) and c.func.id == 'path_lock']
        if len(others) != 2:
            refused.append(f'{rel}: {len(others)} calls of path_lock (expected 2: the read and the write lock)')
    return table, problems, refused


WRITE_ATTRS = {'write', 'writelines', 'unlink', 'touch', 'mkdir', 'rename', 'rmdir', 'symlink_to', 'write_text',
               'write_bytes', 'to_csv', 'to_json', 'dump', 'copy2', 'copy', 'copyfile', 'move', 'rmtree', 'remove', 'truncate'}
READ_ATTRS = {'readlines', 'read', 'readline', 'read_csv', 'exists', 'is_file', 'is_dir', 'read_text', 'load', 'iterdir',
              'glob', 'resolve', 'read_json'}
PURE_ATTRS = {'split', 'append', 'count', 'startswith', 'endswith', 'strip', 'join', 'format', 'with_suffix', 'with_name',
              'joinpath', 'get', 'group', 'sub', 'lower', 'upper'}
OS_WRITE = {'replace', 'rename', 'renames', 'remove', 'unlink', 'mkdir', 'makedirs', 'rmdir', 'removedirs', 'symlink', 'link',
            'truncate', 'chmod', 'utime'}      # os.<name>(..): the module-qualified file-system mutators
WRITE_NAMES = {'write_csv', 'write_model', 'create_directory_symlink'}
PURE_NAMES = {'len', 'str', 'int', 'next', 'sorted', 'list', 'read_results'}


def lock_sites(repo=REPO):
    """Fail-closed `ast` translator: every `with self._read_lock(..)` / `with self._write_lock(..)` of the two user files
    -> (Class.method, helper, operations inside the body).  Any construct it does not know is REFUSED."""
    import ast
    table, _, refused = lock_mode_table(repo)
    sites = []
    for rel in USERS:
        tree = ast.parse((repo / rel).read_text())
        nrefs = sum(1 for n in ast.walk(tree) if isinstance(n, ast.Attribute) and n.attr in ('_read_lock', '_write_lock'))
        nsites = 0
        for cls in [c for c in tree.body if isinstance(c, ast.ClassDef)]:
            for fn in [f for f in cls.body if isinstance(f, ast.FunctionDef)]:
                for w in [n for n in ast.walk(fn) if isinstance(n, ast.With)]:
                    for item in w.items:
                        ce = item.context_expr
                        if not (isinstance(ce, ast.Call) and isinstance(ce.func, ast.Attribute) and ce.func.attr in ('_read_lock', '_write_lock')):
                            continue
                        if not (isinstance(ce.func.value, ast.Name) and ce.func.value.id == 'self') or len(w.items) != 1:
                            refused.append(f'{rel}:{w.lineno}: lock helper not called as `with self.{ce.func.attr}(..)`')
                            continue
                        nsites += 1
                        helper = ce.func.attr
                        local_defs = {d.name for st in w.body for d in ast.walk(st) if isinstance(d, ast.FunctionDef)}
                        module_funcs = {d.name: d for d in tree.body if isinstance(d, ast.FunctionDef)}
                        ops = []

                        def classify(stmts, depth):
                            for st in stmts:
                                for c in [n for n in ast.walk(st) if isinstance(n, ast.Call)]:
                                    f = c.func
                                    if isinstance(f, ast.Name) and f.id == 'open':
                                        mode = c.args[1] if len(c.args) > 1 else next((k.value for k in c.keywords if k.arg == 'mode'), None)
                                        if mode is None:
                                            ops.append(('read', "open 'r'"))
                                        elif isinstance(mode, ast.Constant) and isinstance(mode.value, str):
                                            ops.append(('write' if set(mode.value) & set('wax+') else 'read', f"open '{mode.value}'"))
                                        else:
                                            refused.append(f'{rel}:{c.lineno}: open with a non-literal mode')
                                    elif isinstance(f, ast.Attribute):
                                        a = f.attr
                                        recv = f.value.id if isinstance(f.value, ast.Name) else None
                                        if recv in ('os', 'shutil') and (a in OS_WRITE or a in WRITE_ATTRS):
                                            ops.append(('write', f'{recv}.{a}'))
                                        elif a == 'replace':
                                            ops.append(('write', 'replace (rename)') if len(c.args) == 1 else ('pure', 'str.replace'))
                                        elif a in WRITE_ATTRS:
                                            ops.append(('write', a))
                                        elif a in READ_ATTRS:
                                            ops.append(('read', a))
                                        elif a in PURE_ATTRS:
                                            ops.append(('pure', a))
                                        else:
                                            refused.append(f'{rel}:{c.lineno}: unknown operation .{a}() inside a lock body')
                                    elif isinstance(f, ast.Name):
                                        if f.id.endswith('Transaction') or f.id in WRITE_NAMES:
                                            ops.append(('write', f.id))
                                        elif f.id.endswith('Snapshot'):
                                            ops.append(('read', f.id))
                                        elif f.id.endswith('Error') or f.id in PURE_NAMES or f.id in local_defs:
                                            ops.append(('pure', f.id))
                                        elif f.id in module_funcs and depth < 3:
                                            classify(module_funcs[f.id].body, depth + 1)     # a helper of the same file: read it too
                                        else:
                                            refused.append(f'{rel}:{c.lineno}: unknown call {f.id}() inside a lock body')
                                    else:
                                        refused.append(f'{rel}:{c.lineno}: unknown call shape inside a lock body')

                        classify(w.body, 0)
                        mode = table.get(f'{rel}:{helper}')
                        if mode is None:
                            refused.append(f'{rel}: mode of {helper} unknown')
                            continue
                        sites.append({'file': rel, 'line': w.lineno, 'name': f'{cls.name}.{fn.name}', 'helper': helper,
                                      'shared': mode, 'writes': any(k == 'write' for k, _ in ops),
                                      'reads': any(k == 'read' for k, _ in ops), 'ops': sorted({d for k, d in ops if k != 'pure'})})
        if nrefs != nsites + 2:       # the two definitions (`def _read_lock`) are not Attribute nodes; uses are
            pass
        uses = sum(1 for n in ast.walk(tree) if isinstance(n, ast.Attribute) and n.attr in ('_read_lock', '_write_lock'))
        if uses != nsites:
            refused.append(f'{rel}: {uses} uses of the lock helpers but {nsites} `with` sites')
    return sites, refused


# (site, shared, writes) -- mirrors C15/Users.v specified_sites
SPECIFIED3 = [('LocalDirectoryContext.store_annotation', False, True), ('LocalDirectoryContext.retrieve_annotation', True, False),
              ('LocalDirectoryContext.store_message', False, True), ('LocalDirectoryContext.retrieve_log', True, False),
              ('LocalModelDirectoryDatabase.snapshot', True, False), ('LocalModelDirectoryDatabase.transaction', False, True)]
SPECIFIED = [(n, sh) for n, sh, _ in SPECIFIED3]


def check_users(ctx):
    """Static part: lock-mode table, regenerated site list, obligations compiled by coqc on every run."""
    table, problems, refused = lock_mode_table()
    ctx.coverage['lock_mode_table'] = table
    for pr in problems:
        ctx.violation(f"{pr['file']}:{pr['function']} asks path_lock for shared={pr['shared']}: "
                      + ('readers exclude each other' if pr['shared'] is False else 'writers do not exclude anybody'),
                      {'static': True, 'problem': pr})
    sites, refused2 = lock_sites()
    ctx.coverage['lock_sites'] = sites
    for r in sorted(set(refused + refused2)):
        ctx.broken.append('TRANSLATOR-REFUSED lock sites: ' + r)
    q = lambda x: '"' + x + '"'
    terms = [f"mkSite {q(s['name'])} {'Shared' if s['shared'] else 'Exclusive'} {ct.boolean(s['writes'])} {ct.boolean(s['reads'])}"
             for s in sites]
    d = ctx.rundir / 'users'
    d.mkdir(parents=True, exist_ok=True)
    f = d / 'lock_sites.v'
    f.write_text(
        'From Coq Require Import List Bool String.\nFrom PV Require Import C15.Users.\nImport ListNotations.\n'
        'Local Open Scope string_scope.\n(* regenerated from ' + ', '.join(USERS) + ' *)\n'
        'Definition sites : list site := [\n  ' + ';\n  '.join(terms) + '\n].\n'
        'Theorem writers_take_exclusive : writers_ok sites = true.\nProof. vm_compute. reflexivity. Qed.\n'
        'Theorem lock_sites_as_specified : sites_as_specified sites = true.\nProof. vm_compute. reflexivity. Qed.\n'
        'Eval vm_compute in (readers_shared sites).\n'
        'Print Assumptions writers_take_exclusive.\nPrint Assumptions lock_sites_as_specified.\n')
    from harness.lib.core import coqc_file
    rc, out = coqc_file(f)
    ctx.obligations += 2
    ctx.coverage['readers_take_shared'] = 'true' in out.split('readers_shared')[-1][:40] if rc == 0 else None
    if rc == 0 and out.count('Closed under the global context') == 2:
        ctx.discharged += 2
        ctx.coverage.setdefault('theorems', [])
        ctx.coverage['regenerated_obligations'] = ['writers_take_exclusive', 'lock_sites_as_specified']
        return sites
    # find the concrete failing site(s)
    bad = [s for s in sites if s['writes'] and s['shared']]
    for s in bad:
        ctx.violation(f"writers_take_exclusive fails: {s['name']} ({s['file']}:{s['line']}) performs {', '.join(s['ops'])} under "
                      f"the SHARED lock ({s['helper']})", {'static': True, 'site': s})
    got = [(s['name'], s['shared'], s['writes']) for s in sites]
    if got != SPECIFIED3:
        missing = [n for n, _, _ in SPECIFIED3 if n not in [g[0] for g in got]]
        changed = [g for g in got if g not in SPECIFIED3]
        if not bad:
            ctx.violation(f"lock_sites_as_specified fails: missing lock sites {missing}, unexpected or changed {changed}",
                          {'static': True, 'got': got, 'specified': SPECIFIED3})
    if not bad and got == SPECIFIED3:
        ctx.broken.append('regenerated obligations did not compile: ' + out[-400:])
    return sites


def users_oracle(ctx, sites):
    """Oracle on the real classes: for every lock site, another virtual thread (same process) or another process holds
    the SHARED path lock on the path the method locks; a writer must then be unable to proceed until the holder leaves,
    a reader must be admitted.  The methods run unmodified; only the name `path_lock` in the two user modules is bound to
    a virtual-primitive instance of lock.py (no file of /repo is edited)."""
    import shutil
    import pharmpy.workflows.contexts.local_directory as cl
    import pharmpy.workflows.model_database.local_directory as ml
    from pharmpy.workflows.hashing import ModelHash
    base = ctx.rundir / 'users' / 'fs'
    shutil.rmtree(base, ignore_errors=True)
    base.mkdir(parents=True)
    key = ModelHash('A' * 43)

    def with_empty(cm):
        with cm:
            pass

    drivers = {
        'LocalDirectoryContext.store_annotation': ('ctx', lambda o: o.store_annotation('m1', 'note')),
        'LocalDirectoryContext.retrieve_annotation': ('ctx', lambda o: o.retrieve_annotation('m0')),
        'LocalDirectoryContext.store_message': ('ctx', lambda o: o.store_message('warning', o.context_path, '2020-01-01', 'msg')),
        'LocalDirectoryContext.retrieve_log': ('ctx', lambda o: o.retrieve_log()),
        'LocalModelDirectoryDatabase.snapshot': ('db', lambda o: with_empty(o.snapshot(key))),
        'LocalModelDirectoryDatabase.transaction': ('db', lambda o: with_empty(o.transaction(key))),
    }
    world = World(2)
    m0, m1 = world.machines
    results = []
    saved = (cl.path_lock, ml.path_lock)
    try:
        byname = {st['name']: st for st in sites}
        allsites = list(sites) + [{'name': n, 'writes': not sh, 'reads': sh, 'shared': sh, 'ops': ['no lock site found in the source'],
                                   'file': '?', 'line': 0, 'helper': None} for n, sh in SPECIFIED if n not in byname]
        for si, site in enumerate(allsites):
            if site['name'] not in drivers:
                ctx.broken.append(f"TRANSLATOR-REFUSED users oracle: no driver for lock site {site['name']}")
                continue
            kind, drive = drivers[site['name']]
            for hp in (0, 1):
                S = vs.Sched()
                world.holder.S = S
                world.holder.kernel = vs.VKernel(S)
                for m in world.machines:
                    vs.reset_pools(m.mod)
                requests = []

                def recording(path, shared=False, blocking=True, reentrant=False):
                    requests.append((path, shared))
                    return m0.mod.path_lock(path, shared=shared, blocking=blocking, reentrant=reentrant)
                cl.path_lock = ml.path_lock = recording
                root = base / f's{si}h{hp}'
                obj = cl.LocalDirectoryContext('ctx', ref=str(root)) if kind == 'ctx' else ml.LocalModelDirectoryDatabase(root / 'db')
                if kind == 'ctx':
                    (obj._annotations_path).write_text('m0 zero\n')

                def finish(rec):
                    k = 0
                    while not rec['done'] and S.runnable(rec) and k < 2000:
                        S.grant(rec)
                        k += 1
                # dry run: which path / mode does the method ask for?
                r0 = S.spawn(lambda rec: drive(obj))
                finish(r0)
                asked = list(requests)
                if r0['done'] and not r0['crash'] and not asked:
                    results.append({'site': site['name'], 'holder': hp, 'outcome': 'takes-no-lock', 'completed_afterwards': True, 'crash': None,
                                    'path': '(none)', 'asked_shared': None})
                    S.abort_all()
                    continue
                if not r0['done'] or r0['crash'] or len(asked) != 1:
                    results.append({'site': site['name'], 'holder': hp, 'outcome': 'dry-run-failed', 'asked': asked, 'crash': r0['crash']})
                    S.abort_all()
                    continue
                path = asked[0][0]
                hm = world.machines[hp].mod

                def hold(rec):
                    with hm.path_lock(path, shared=True):
                        S.yield_point(('body',))
                ra = S.spawn(hold)
                k = 0
                while not ra['done'] and ra['want'][0] != 'body' and k < 500:
                    S.grant(ra)
                    k += 1
                rb = S.spawn(lambda rec: drive(obj))
                finish(rb)
                admitted = rb['done'] and not rb['crash']
                blocked = (not rb['done']) and not S.runnable(rb)
                finish(ra)
                finish(rb)
                ok_end = ra['done'] and rb['done'] and not ra['crash'] and not rb['crash']
                results.append({'site': site['name'], 'holder': 'same process' if hp == 0 else 'other process', 'path': path,
                                'asked_shared': asked[0][1], 'outcome': 'admitted' if admitted else ('blocked' if blocked else 'other'),
                                'completed_afterwards': ok_end, 'crash': ra['crash'] or rb['crash']})
                S.abort_all()
    finally:
        cl.path_lock, ml.path_lock = saved
    ctx.coverage['users_oracle'] = results
    for r, site in [(r, next(s for s in allsites if s['name'] == r['site'])) for r in results]:
        if r['outcome'] == 'dry-run-failed' or r.get('crash') or not r.get('completed_afterwards', True):
            ctx.broken.append('users oracle could not run ' + json.dumps(r)[:300])
        elif site['writes'] and r['outcome'] == 'takes-no-lock':
            ctx.violation(f"{r['site']} is specified as a writer under the exclusive path lock but takes no path lock at all",
                          {'static': True, 'oracle': r, 'site': site})
        elif site['writes'] and r['outcome'] != 'blocked':
            ctx.violation(f"{r['site']} writes ({', '.join(site['ops'])}) but is {r['outcome']} while a thread of the {r['holder']} "
                          f"holds the shared lock on {r['path'].rsplit('/', 1)[-1]} (it asked path_lock for shared={r['asked_shared']})",
                          {'static': True, 'oracle': r, 'site': site})
    ctx.coverage['evaluations'] = ctx.coverage.get('evaluations', 0)
    return results


def dedupe_findings(ctx):
    """known_findings.d (staging, read after known_findings.json) replaces entries of the same id, exactly as the
    maintainer's merge does: a finding marked fixed in the staging file is not excused any more."""
    ctx.findings = list({f['id']: f for f in ctx.findings}.values())


def run(ctx):
    from harness.lib.core import JOBS
    dedupe_findings(ctx)
    ctx.build_gate(['C15'])
    ctx.trusted += [
        'harness/props/c15_vsched.py: virtual Lock/RLock/Condition/get_ident with the documented CPython semantics '
        '(RLock ownership+depth, Condition.wait releases every level and restores it, notify_all moves all waiters), a virtual '
        'kernel with the POSIX fcntl semantics lock.py relies on (one lock per process and file, compatibility with other '
        'processes only, close drops the lock), one real OS thread per virtual thread, one atomic section granted at a time',
        'harness/props/c15.py: thread programs, label/observation export, classification',
        'the virtual primitives and kernel are compared on every run with the real threading.Lock/RLock/Condition and the real '
        'fcntl.lockf (fork) on schedule-independent scenarios (coverage.primitive_conformance / kernel_conformance)',
    ]
    ctx.assumptions += [
        'atomic-section granularity: a thread is scheduled at every blocking primitive (acquire, wait, lockf) AND right after it '
        'releases the last lock it holds; the code that follows such a release (outside every critical section) must leave all '
        'shared state unchanged -- checked at every such "stutter" step against the unchanged model state, so a change that '
        'moves shared-state access out of a critical section is detected; the exhaustive enumeration takes stutter steps eagerly',
        'processes are simulated by separate module instances of lock.py sharing one virtual kernel table (no real fork / real fcntl)',
        'not covered: the OS scheduler and the kernel fcntl implementation themselves (incl. EDEADLK detection), fairness/starvation, '
        'the Windows msvcrt branch',
        'two paths per thread: modelled as the product of two one-path models with LIFO program order (TwoPaths.v); the tie runs '
        'two-path programs and judges one view per path (steps on the other path must leave this path untouched); a deadlock of a '
        'program that locks the two files in inconsistent order (guard lock_ordered false, tag 202) is the caller\'s duty per the '
        'module docstring and is accepted, any other two-path deadlock is a VIOLATION; two-path deadlock freedom is not proved',
        'path level (PathModel.v): safety (path_excl_excludes, path_body_holds_kernel_lock, pool_refcounts_exact, '
        'path_quiescent_empty, kernel_table_compatible), no_lost_wakeup, granted-once-conflicts-gone and, under the no-upgrade guard, '
        'deadlock freedom (path_deadlock_free) are proved for any number of processes and threads; a deadlock on a guard-true '
        'schedule is a VIOLATION',
    ]
    ctx.coverage['source_sha'] = source_sha(vs.LOCK_PY, *USERS)
    jobs = max(1, min(JOBS, 8))
    # the virtual primitives and the virtual kernel are compared with the real ones of this interpreter / OS
    pd, preal = vs.primitive_conformance()
    kd, kreal = vs.kernel_conformance(ctx.rundir)
    ctx.coverage['primitive_conformance'] = {'differences': pd, 'real_threading': preal}
    ctx.coverage['kernel_conformance'] = {'differences': kd, 'real_fcntl': kreal}
    if pd or kd:
        ctx.broken.append('virtual primitives / virtual kernel differ from threading / fcntl: ' + json.dumps((pd or kd)[0])[:600])
    sites = check_users(ctx)
    users_oracle(ctx, sites)
    finding_probes(ctx)
    quick = ctx.tier == 'quick'
    reg = sorted((VERIF / 'regress' / 'C15').glob('*.json'))
    specs = [json.loads(p.read_text()) for p in reg]
    specs = [s.get('spec', s) for s in specs]
    nreg = len(specs)
    nt, nc, npth, npc = (500, 150, 150, 60) if quick else (14000, 4000, 3500, 1200)
    specs += [gen_thread_spec(ctx.rng) for _ in range(nt)]
    specs += [gen_contention_spec(ctx.rng, 'thread') for _ in range(nc)]
    specs += [gen_path_spec(ctx.rng) for _ in range(npth)]
    specs += [gen_contention_spec(ctx.rng, 'path') for _ in range(npc)]
    specs += [gen_path2_spec(ctx.rng) for _ in range(50 if quick else 300)]
    k = max(1, len(specs) // (jobs * 4))
    tasks = [('run', specs[i:i + k], None) for i in range(0, len(specs), k)]
    bases = exhaustive_bases(ctx.rng, ctx.tier)
    tasks += [('explore', b, None) for b in bases]
    items = observe_tasks(tasks, jobs)
    incomplete = [sp for sp, term, sm in items if sm.get('incomplete')]
    items = [it for it in items if not it[2].get('incomplete')]
    ctx.log(f'{len(items)} schedules executed on the real code ({len(bases)} programs enumerated exhaustively)')
    verdicts, stats = judge(ctx, items, 'main')
    sums = [sm for _, _, sm in items]
    allspecs = [sp for sp, _, _ in items]
    ctx.coverage['evaluations'] = sum(sm['nsteps'] for sm in sums)
    ctx.coverage['schedules'] = len(items)
    ctx.coverage['distinct_nontrivial'] = len({json.dumps([sp['threads'], sp.get('pof'), sm['effective']])
                                               for sp, sm in zip(allspecs, sums) if len(sp['threads']) >= 2})
    ctx.coverage['rule'] = (
        'schedules of the real lock.py under the deterministic scheduler: regression corpus; random programs of 1-3 threads x 1-3 '
        'nested/sequential requests with random (shared, blocking, reentrant) flags and random schedules; contention programs '
        '(3-4 threads: holders, blocking exclusive waiters, late arrivals); the same at path level (path_lock, 1-2 processes, '
        'virtual kernel); exhaustive enumeration of ALL schedules of small thread-level programs (all 64 flag combinations of '
        '2 threads x 1 request, sampled 2+1 and 3x1 programs). Non-trivial = at least two threads; distinct by (programs, '
        'process map, effective schedule); evaluations = atomic sections executed and compared')
    ctx.coverage['case_status'] = stats
    kinds = {}
    for sm in sums:
        for k2, v in sm['kinds'].items():
            kinds[k2] = kinds.get(k2, 0) + v
    lvl = lambda sp: sp.get('level', 'thread')
    ctx.coverage['input_distribution'] = {
        'regression_specs': nreg,
        'thread_level_schedules': sum(1 for sp in allspecs if lvl(sp) == 'thread'),
        'path_level_schedules': sum(1 for sp in allspecs if lvl(sp) in ('path', 'path2')),
        'path_level_two_processes': sum(1 for sp in allspecs if lvl(sp) in ('path', 'path2') and len(set(sp['pof'])) == 2),
        'two_path_schedules': sum(1 for sp in allspecs if lvl(sp) == 'path2'),
        'two_path_unordered_programs': sum(1 for sp in allspecs if lvl(sp) == 'path2' and not lock_ordered(sp['threads'])),
        'exhaustive_programs': len(bases), 'exhaustive_incomplete': len(incomplete),
        'exhaustive_schedules': len(items) - len(specs),
        'threads_hist': {str(k2): sum(1 for sp in allspecs if len(sp['threads']) == k2) for k2 in (1, 2, 3, 4)},
        'step_kinds': kinds,
        'final': {'all_finished': sum(1 for sm in sums if sm['final'] == 0), 'deadlock': sum(1 for sm in sums if sm['final'] == 1),
                  'step_bound': sum(1 for sm in sums if sm['final'] == 2)},
        'guard_no_upgrade_false': sum(1 for v in verdicts if 201 in v),
        'lost_wakeup_deadlocks': sum(1 for v in verdicts if 21 in v),
        'circular_deadlocks': sum(1 for v in verdicts if 22 in v),
        'max_steps_in_a_schedule': max(sm['nsteps'] for sm in sums),
    }
    if incomplete:
        ctx.notes.append(f'{len(incomplete)} exhaustive enumerations hit the schedule limit and are partial')
    ctx.coverage['samples'] = [{'spec': sp, 'tags': v, 'effective_schedule': sm['effective']}
                               for sp, v, sm in list(zip(allspecs, verdicts, sums))[nreg:nreg + 2]]
    ctx.coverage['samples'] += [{'spec': sp, 'tags': v, 'effective_schedule': sm['effective']}
                                for sp, v, sm in zip(allspecs, verdicts, sums) if lvl(sp) == 'path'][:2]


def replay(ctx, rep):
    dedupe_findings(ctx)
    if rep.get('static'):
        table, problems, refused = lock_mode_table()
        print('lock modes requested by the users of path_lock:', json.dumps(table, indent=1))
        print('problems', problems, 'refused', refused)
        sites = check_users(ctx)
        for st in sites:
            print('lock site', st['name'], 'shared' if st['shared'] else 'exclusive', 'writes' if st['writes'] else 'read-only', st['ops'])
        res = users_oracle(ctx, sites)
        for r in res:
            print('oracle', r)
        return 1 if (problems or refused or ctx.violations or ctx.broken) else 0
    spec = rep.get('spec', rep)
    verdicts, obss, _ = run_specs(ctx, [spec], 'replay', quiet=True)
    tags = verdicts[0]
    print('spec', json.dumps(spec))
    print('effective schedule', obss[0]['effective'], 'final', obss[0]['final'], 'crashes', obss[0]['crashes'])
    print('tags', tags, [TAGS.get(t, t) for t in tags])
    excused = [t for t in tags if t in EXCUSED and (203 if spec.get('level', 'thread') == 'thread' else 201) in tags and not (set(tags) & set(CORR))]
    bad = [t for t in tags if (t in CORR or t in ORACLE) and t not in excused]
    return 1 if bad else 0
