"""C17 — workflows execute as their task graph specifies.
Model: coq/theories/C17 (Model.v, Check.v); theorems in Properties.v / Refuted.v.
Tie: random WorkflowBuilder operation sequences over a pure, call-logging task family are run on the
real pharmpy.workflows classes; node order, adjacency orders, as_dask_dict (keys renamed), the value
returned by the real execute_workflow through the threaded local_dask dispatcher and the call log are
exported and compared inside Coq with the model; the property statement itself is evaluated on the
implementation's own outputs (oracle tags)."""
import json
import os
import tempfile
import threading
import time

from harness.lib import coqterm as ct
from harness.lib.core import VERIF, source_sha

LEVEL = 'proof'
IMPORTS = 'Base.PyData C17.Model C17.Check'

TAGS = {
    1: 'operations that raise differ from model', 2: 'builder graph (node order / adjacency order / inputs) differs from model',
    3: 'Workflow(builder) graph differs from model', 4: 'input_tasks / output_tasks / get_upstream_tasks differ from model',
    5: 'workflow prepared by execute_workflow differs from model', 6: 'as_dask_dict differs from model',
    7: 'value returned by execute_workflow differs from model', 8: 'call log differs from model',
    9: 'optimize.py _scatter_computation output differs from model',
    10: 'optimize.py: the optimized dict is not the scattered dict after the inline steps read off it, a step is not a '
        'legal fuse step, or fuse renamed a key',
    11: 'execute_workflow result is not the sequential evaluation of the declared workflow '
        '(static inputs, then predecessor results in the order the predecessors entered the workflow)',
    12: 'a task function was not called exactly once',
    13: 'the executed workflow does not have exactly the declared tasks and edges',
    14: 'Workflow(builder) does not have exactly the builder\'s tasks (in order) and edges',
    15: 'as_dask_dict lists predecessor keys in an order different from the node order',
    16: 'another scheduler (synchronous / 1 worker / 8 workers / the optimized dict / call_workflow with a recording '
        'client) gives a different result or number of calls',
    17: 'as_dask_dict does not have one distinct key per task (with exactly the output task under results)',
    20: 'get_upstream_tasks does not list exactly the strict ancestors',
    19: 'the dict optimized for dask.distributed does not evaluate to the same result with the same calls',
}
CORR = (1, 2, 3, 4, 5, 6, 7, 8, 9, 10)
ORACLE = (11, 12, 13, 14, 15, 16, 17, 19, 20)
# No open finding is left (C17-CONTEXT-REORDERS-PREDECESSORS fixed in /repo 4400919, C17-STATIC-KEY and
# C17-STATIC-CALLABLE-TUPLE in d3e6e19, C17-FUSE-ALIAS-COLLISION in c89db96): every oracle failure is a VIOLATION.
# Tags 201, 202, 203 only describe the input distribution.
GUARD_FINDING = {}
GUARD_EXPLAINS = {}


# ------------------------------------------------------------------ generator
SAFE_STATICS = [
    {'s': 'abc'}, {'s': 'xyz'}, {'i': 0}, {'i': 7}, {'n': None}, {'t': [{'i': 1}, {'i': 2}]}, {'t': []},
    {'l': [{'s': 'abc'}, {'i': 3}]}, {'d': {'k': 'results'}}, {'d': {}}, {'s': 'result'}, {'s': 'Results'},
    {'t': [{'s': 'abc'}, {'f': 1}]}, {'l': [{'t': [{'i': 1}, {'l': [{'s': 'q'}]}]}]}, {'f': 1}, {'f': 2},
    {'t': [{'t': [{'i': 4}]}, {'n': None}]}, {'s': ''}, {'l': []},
    {'D': [[{'s': 'k'}, {'i': 1}], [{'i': 2}, {'l': [{'s': 'abc'}]}]]},
    {'t': [{'n': None}, {'n': None}, {'i': 5}]}, {'l': [{'n': None}, {'t': [{'n': None}, {'l': [{'n': None}]}]}]},
    {'D': [[{'s': 'k'}, {'n': None}]]},
]
UNSAFE_STATICS = [
    {'s': 'results'}, {'t': [{'s': 'results'}]}, {'l': [{'s': 'results'}]}, {'t': [{'f': 1}, {'s': 'xyz'}]},
    {'l': [{'t': [{'f': 2}, {'i': 1}]}]}, {'t': [{'f': 1}]}, {'t': [{'i': 1}, {'t': [{'f': 2}, {'s': 'abc'}, {'i': 2}]}]},
    {'t': [{'f': 1}, {'t': [{'f': 2}, {'s': 'abc'}]}]}, {'l': [{'i': 0}, {'l': [{'s': 'results'}]}]},
    {'D': [[{'s': 'k'}, {'s': 'results'}]]}, {'D': [[{'s': 'results'}, {'i': 1}]]},
    {'D': [[{'s': 'k'}, {'l': [{'D': [[{'i': 1}, {'t': [{'f': 2}, {'s': 'q'}]}]]}]}]]}, {'l': [{'d': {'k': 'results'}}]},
]


def gen_fns(rng, nf, p_ctx):
    ctx_heavy = rng.random() < 0.35
    fns = []
    for _ in range(nf):
        c = (rng.random() < p_ctx) if ctx_heavy else (rng.random() < 0.04)
        fns.append({'ctx': c, 'ctx2': (not c) and rng.random() < 0.08})
    return fns


def gen_tasks(rng, nt, nf, p_unsafe):
    # 'unsafe' = static input that dask would reinterpret if as_dask_dict did not quote it
    unsafe_case = rng.random() < 3 * p_unsafe
    tasks = []
    for i in range(nt):
        k = rng.choice([0, 0, 0, 1, 1, 2])
        inputs = []
        for _ in range(k):
            if unsafe_case and rng.random() < 0.25:
                inputs.append(rng.choice(UNSAFE_STATICS))
            else:
                inputs.append(rng.choice(SAFE_STATICS))
        tasks.append({'fn': (i % nf) + 1 if nf >= nt else rng.randint(1, nf), 'inputs': inputs})
    return tasks


def gen_layered(rng, p_unsafe=0.08, p_ctx=0.3):
    """The way pharmpy tools compose workflows: layers of parallel tasks inserted one after the other
    (n:n, n:1, 1:n, sometimes the refused n:m), each layer a builder of its own."""
    widths = []
    total = 0
    while total < 11 and len(widths) < 5:
        w = rng.choice([1, 1, 2, 2, 3, 4])
        if total + w > 11:
            break
        widths.append(w)
        total += w
        if rng.random() < 0.25:
            break
    nt = total + 1
    nf = max(2, nt)
    nb = len(widths)
    ops = []
    t = 0
    layers = []
    for b, w in enumerate(widths):
        layer = list(range(t, t + w))
        t += w
        for x in layer:
            ops.append(['add', b, x, []])
        if b > 0 and rng.random() < 0.3 and w >= 2:      # a little structure inside the inserted layer
            ops.append(['add', b, layer[-1], [layer[0]]])
        layers.append(layer)
    for b in range(1, nb):
        r = rng.random()
        prev = layers[b - 1]
        if r < 0.55:
            ps = None
        elif r < 0.8:
            ps = list(prev)
            rng.shuffle(ps)
        elif r < 0.9:
            ps = rng.choice(prev)
        else:
            ps = rng.sample(prev, rng.randint(1, len(prev)))
        ops.append(['insert', 0, b, ps, rng.random() < 0.6])
        if rng.random() < 0.1:
            ops.append(['copy', 0])
    ops.append(['sink', 0, nt - 1])
    return {'fns': gen_fns(rng, nf, p_ctx), 'tasks': gen_tasks(rng, nt, nf, p_unsafe), 'nb': max(nb, 1), 'ops': ops}


def make_twins(rng, tasks, k):
    """k times: make task j a twin of task i: a DISTINCT task object with the same name, function and static inputs."""
    n = len(tasks)
    for _ in range(k):
        if n < 3:
            return
        i, j = rng.sample(range(n - 1), 2)
        tasks[j] = {'fn': tasks[i]['fn'], 'inputs': list(tasks[i]['inputs']), 'name': tasks[i].get('name', f't{i}')}


def gen_twins(rng, p_ctx=0.3):
    """a -> fit('foce'), b -> fit('foce'), both -> summary: distinct tasks equal in (name, function, static input),
    with different / identical / no predecessors."""
    k = rng.choice([2, 2, 3])
    nsrc = rng.choice([0, 1, 2, k])
    nf = nsrc + 2
    fns = gen_fns(rng, nf, p_ctx)
    tasks = [{'fn': s + 1, 'inputs': rng.choice([[], [{'i': s}]])} for s in range(nsrc)]
    twin = {'fn': nsrc + 1, 'inputs': rng.choice([[{'s': 'foce'}], [], [{'s': 'foce'}, {'i': 3}]]), 'name': 'fit'}
    first = len(tasks)
    tasks += [dict(twin, inputs=list(twin['inputs'])) for _ in range(k)]
    tasks.append({'fn': nsrc + 2, 'inputs': []})
    ops = [['add', 0, s, []] for s in range(nsrc)]
    mode = rng.choice(['different', 'same', 'mixed'])
    for x in range(k):
        if nsrc == 0:
            ps = []
        elif mode == 'same':
            ps = [0]
        elif mode == 'different':
            ps = [x % nsrc]
        else:
            ps = rng.sample(range(nsrc), rng.randint(0, nsrc))
        ops.append(['add', 0, first + x, ps])
    if rng.random() < 0.3:
        ops.append(['copy', 0])
    sink = len(tasks) - 1
    ops.append(rng.choice([['sink', 0, sink], ['add', 0, sink, [first + x for x in range(k)]],
                           ['add', 0, sink, [first + x for x in reversed(range(k))]]]))
    return {'fns': fns, 'tasks': tasks, 'nb': 1, 'ops': ops}


def gen_spec(rng, max_tasks=12, p_unsafe=0.08, p_ctx=0.3, p_cycle=0.01, p_nosink=0.08):
    r0 = rng.random()
    if r0 < 0.08:
        return gen_twins(rng, p_ctx)
    if r0 < 0.30:
        spec = gen_layered(rng, p_unsafe, p_ctx)
        if rng.random() < 0.25:
            make_twins(rng, spec['tasks'], rng.choice([1, 2]))
        return spec
    nt = rng.choice([1, 2, 3, 3, 4, 4, 5, 5, 6, 6, 7, 8, 9, 10, 11, 12])
    nt = min(nt, max_tasks)
    nf = max(2, nt if rng.random() < 0.7 else rng.randint(2, max(2, nt)))
    fns = gen_fns(rng, nf, p_ctx)
    tasks = gen_tasks(rng, nt, nf, p_unsafe)
    nb = rng.choice([1, 1, 2, 2, 3])
    present = [[] for _ in range(nb)]
    roots = [[] for _ in range(nb)]
    inserted = [False] * nb
    ops = []
    reserve = []
    n_main = nt - 1
    order = list(range(n_main))
    # a few tasks are kept in reserve as replacement targets
    if n_main >= 3 and rng.random() < 0.4:
        for _ in range(rng.choice([1, 1, 2])):
            if len(order) > 2:
                reserve.append(order.pop(rng.randrange(len(order))))

    def pick_preds(b, t):
        pool = list(present[b])
        if rng.random() < p_cycle:
            pool = pool + [t] + list(range(nt))
        k = min(len(pool), rng.choice([0, 1, 1, 2, 2, 3]))
        ps = rng.sample(pool, k)
        if len(ps) == 1 and rng.random() < 0.5:
            return ps[0]            # the non-list form of predecessors
        return ps

    def do_insert(o):
        ops.append(gen_insert(rng, 0, o, present, roots))
        present[0] += present[o]
        inserted[o] = True

    # sometimes the output task enters the workflow early (it is then not the last node)
    early_sink = rng.random() < 0.25 and len(order) >= 2
    early_at = rng.randrange(len(order)) if early_sink else None
    for k, t in enumerate(order):
        if k == early_at:
            ops.append(['add', 0, nt - 1, []])
        b = rng.randrange(nb) if rng.random() < 0.5 else 0
        if inserted[b]:
            b = 0
        ps = pick_preds(b, t)
        ops.append(['add', b, t, ps])
        present[b].append(t)
        if ps == []:
            roots[b].append(t)
        r = rng.random()
        if r < 0.12:
            cand = [o for o in range(1, nb) if present[o] and not inserted[o]]
            if cand:
                do_insert(rng.choice(cand))
        elif r < 0.2:
            if reserve and present[b]:
                old = rng.choice(present[b])
                new = reserve.pop()
                ops.append(['replace', b, old, new])
                present[b] = [new if x == old else x for x in present[b]]
        elif r < 0.21:
            if len(present[b]) >= 2:
                old, new = rng.sample(present[b], 2)      # replacing by a task that is already there merges them
                ops.append(['replace', b, old, new])
                present[b] = [x for x in present[b] if x != old]
        elif r < 0.26:
            ops.append(['copy', b])
        elif r < 0.30:
            cand = [o for o in range(nb) if o != b and present[o]]
            if cand and present[b]:
                o = rng.choice(cand)
                ops.append([rng.choice(['plus', 'plus', 'wplus']), b, o])
                present[b] += [x for x in present[o] if x not in present[b]]
        elif r < 0.32:
            ops.append(['ctx', b])
    for o in range(1, nb):
        if present[o] and not inserted[o] and rng.random() < 0.85:
            do_insert(o)
    if early_sink:
        ops.append(['sinkto', 0, nt - 1])
    elif rng.random() > p_nosink:
        ops.append(['sink', 0, nt - 1])
    else:
        ops.append(['add', 0, nt - 1, pick_preds(0, nt - 1)])
    if rng.random() < 0.2:
        make_twins(rng, tasks, rng.choice([1, 1, 2]))
    return {'fns': fns, 'tasks': tasks, 'nb': nb, 'ops': ops}


def gen_insert(rng, b, o, present, roots):
    r = rng.random()
    if r < 0.4 or not present[b]:
        ps = None
    elif r < 0.65 and len(present[b]) >= len(roots[o]) >= 1:
        ps = rng.sample(present[b], len(roots[o]))       # as many predecessors as the inserted workflow has inputs
    elif r < 0.8:
        ps = rng.choice(present[b])                      # the non-list form
    else:
        ps = rng.sample(present[b], min(rng.choice([1, 2, 2, 3]), len(present[b])))
    return ['insert', b, o, ps, rng.random() < 0.5]


def enum_dag_specs(n, rng):
    """Every DAG on tasks 0..n-1 whose edges go from smaller to larger index (each as one add_task per task)."""
    import itertools
    pairs = [(i, j) for j in range(n) for i in range(j)]
    for mask in range(1 << len(pairs)):
        preds = [[] for _ in range(n)]
        for bit, (i, j) in enumerate(pairs):
            if mask >> bit & 1:
                preds[j].append(i)
        fns = [{'ctx': rng.random() < 0.3, 'ctx2': False} for _ in range(n)]
        tasks = [{'fn': i + 1, 'inputs': [rng.choice(SAFE_STATICS)] if rng.random() < 0.3 else []} for i in range(n)]
        ops = []
        for j in range(n):
            ps = list(preds[j])
            rng.shuffle(ps)
            ops.append(['add', 0, j, ps])
        yield {'fns': fns, 'tasks': tasks, 'nb': 1, 'ops': ops}


# ------------------------------------------------------------------ implementation side
_NA = object()


class Marker:
    """What family function j returns in first position (never callable, never a string)."""
    def __init__(self, j):
        self.j = j


_LOGS = {}          # family id -> (lock, call log); kept out of the function objects so that these stay picklable
_FAM_IDS = iter(range(1, 10 ** 9))


class FamFn:
    """A family function: module-level class, picklable state (family id, index), deterministic under
    dask.base.tokenize - like the module-level functions pharmpy tools put into tasks."""
    def __init__(self, fam_id, j):
        self.fam_id = fam_id
        self.j = j
        self.__name__ = f'fam{j}'

    def _log(self, args):
        lock, log = _LOGS[self.fam_id]
        with lock:
            log.append((self.j, args))
        return (Marker(self.j),) + args


class PlainFn(FamFn):
    def __call__(self, *args):
        return self._log(args)


class CtxFn(FamFn):
    def __call__(self, context=_NA, *args):      # total, so that a static (f,) evaluated by dask does not raise
        return self._log(((context,) if context is not _NA else ()) + args)


class Ctx2Fn(FamFn):
    # 'context' is the SECOND parameter: insert_context must leave this one alone
    def __call__(self, first=_NA, context=_NA, *args):
        return self._log(tuple(a for a in (first, context) if a is not _NA) + args)


class Family:
    def __init__(self, fns):
        self.fam_id = next(_FAM_IDS)
        self.log = []
        self.lock = threading.Lock()
        _LOGS[self.fam_id] = (self.lock, self.log)
        self.funcs = []
        self.index = {}
        for j, f in enumerate(fns, 1):
            cls = CtxFn if f['ctx'] else (Ctx2Fn if f.get('ctx2') else PlainFn)
            fn = cls(self.fam_id, j)
            self.funcs.append(fn)
            self.index[fn] = j

    def close(self):
        _LOGS.pop(self.fam_id, None)


class Exporter:
    def __init__(self, fam, context):
        self.fam = fam
        self.context = context
        self.strings = ct.Names()
        self.strings.get('results')          # PV.C17.Model.results = 1
        self.atoms = ct.Names(start=1000)      # numbers (not scattered by optimize.py)
        self.objs = ct.Names(start=2000)       # None, the context, any other object (scattered)

    def sval(self, v):
        if isinstance(v, str):
            return f'(SStr {self.strings.p(v)})'
        if isinstance(v, Marker):
            return f'(SAtom {ct.pos(v.j)})'
        if v is self.context:
            return f"(SAtom {self.objs.p('<context>')})"
        if type(v) is tuple:
            return '(STuple ' + ct.lst([self.sval(x) for x in v]) + ')'
        if type(v) is list:
            return '(SList ' + ct.lst([self.sval(x) for x in v]) + ')'
        if type(v) is dict:
            return '(SDict ' + ct.lst([self.sval(x) for x in v]) + ' ' + ct.lst([self.sval(x) for x in v.values()]) + ')'
        if type(v).__name__ == 'literal' and type(v).__module__ == 'dask.core':
            return '(SLit ' + self.sval(v.data) + ')'
        try:
            j = self.fam.index.get(v) if callable(v) else None
        except TypeError:
            j = None
        if j is not None:
            return f'(SFun {ct.pos(j)})'
        if isinstance(v, Fut):
            return '(SFut ' + self.sval(v.value) + ')'
        if isinstance(v, (int, float)):
            return f"(SAtom {self.atoms.p(type(v).__name__ + ':' + repr(v))})"
        # None and anything unknown: an opaque object identified by type and repr
        return f"(SAtom {self.objs.p(type(v).__name__ + ':' + repr(v))})"

    def svals(self, vs):
        return ct.lst([self.sval(v) for v in vs])


def static_value(s, fam):
    (k, v), = s.items()
    if k == 's':
        return v
    if k == 'i':
        return v
    if k == 'n':
        return None
    if k == 't':
        return tuple(static_value(x, fam) for x in v)
    if k == 'l':
        return [static_value(x, fam) for x in v]
    if k == 'f':
        return fam.funcs[(v - 1) % len(fam.funcs)]
    if k == 'd':
        return dict(v)
    if k == 'D':
        return {static_value(a, fam): static_value(b, fam) for a, b in v}
    raise ValueError(s)


class Fut:
    """What the recording client's scatter() returns instead of a distributed Future."""
    def __init__(self, value):
        self.value = value


class RecClient:
    def scatter(self, value, hash=True):
        return Fut(value)


def unpack(v):
    """The scheduler side of scatter: futures inside tuples / lists / dict values replaced by their data."""
    if isinstance(v, Fut):
        return v.value
    if type(v) in (tuple, list):
        return type(v)(unpack(x) for x in v)
    if type(v) is dict:
        return {k: unpack(x) for k, x in v.items()}
    return v


class RecDispatcher:
    """Hands the prepared workflow to the real threaded dispatcher and remembers it."""
    def __init__(self, run):
        self.wf = None
        self._run = run

    def run(self, workflow, context):
        self.wf = workflow
        return self._run(workflow, context)


_impl = {}


def impl(modname=None):
    """The pharmpy classes under test (modname: a mutated copy of workflow.py loaded under another name)."""
    key = modname or 'real'
    if key in _impl:
        return _impl[key]
    import pharmpy.workflows.dispatchers as disp
    from pharmpy.config import ConfigurationContext
    from pharmpy.workflows import Task, Workflow, WorkflowBuilder, execute_workflow, local_dask
    from pharmpy.workflows.contexts import NullContext
    from pharmpy.workflows.workflow import insert_context
    d = dict(Task=Task, Workflow=Workflow, WorkflowBuilder=WorkflowBuilder, execute_workflow=execute_workflow,
             local_dask=local_dask, NullContext=NullContext, insert_context=insert_context,
             threaded=lambda: ConfigurationContext(disp.conf, dask_dispatcher='threaded'))
    if modname:
        import importlib
        m = importlib.import_module(modname)
        for n in ('Workflow', 'WorkflowBuilder', 'insert_context', 'execute_workflow', 'Task'):
            if hasattr(m, n):
                d[n] = getattr(m, n)
    _impl[key] = d
    return d


_traced = {}


def trace_replace(Task):
    """Instrument Task.replace from the harness side: a replacement object remembers which of the user's task
    objects it descends from (names cannot do that: two distinct tasks may have the same name, function, inputs)."""
    if Task in _traced:
        return
    orig = Task.replace

    def replace(self, **kwargs):
        new = orig(self, **kwargs)
        new.__dict__['_c17_tid'] = self.__dict__.get('_c17_tid')
        return new
    Task.replace = replace
    _traced[Task] = orig


def tid_of(n):
    return n.__dict__['_c17_tid']


def observe_graph(P, w, table, ex):
    nodes = w.tasks
    position = {id(n): k for k, n in enumerate(nodes)}
    out = []
    for n in nodes:
        i = tid_of(n)
        out.append(ct.tup(ct.pos(i), ct.boolean(n is not table[i - 1]), ex.svals(n.task_input),
                          ct.lst([ct.nat(position[id(s)]) for s in w.get_successors(n)]),
                          ct.lst([ct.nat(position[id(p)]) for p in w.get_predecessors(n)])))
    return ct.lst(out)


def run_impl(spec, modname=None, perturb=None):
    """Run the real code on a spec; returns (coq case term, info)."""
    P = impl(modname)
    Task, Workflow, WorkflowBuilder = P['Task'], P['Workflow'], P['WorkflowBuilder']
    trace_replace(Task)
    fam = Family(spec['fns'])
    context = P['NullContext']('c17')
    ex = Exporter(fam, context)
    table = []
    for i, t in enumerate(spec['tasks']):
        table.append(Task(t.get('name', f't{i}'), fam.funcs[t['fn'] - 1], *[static_value(s, fam) for s in t['inputs']]))
        table[-1].__dict__['_c17_tid'] = i + 1
    builders = [WorkflowBuilder(name='c17') for _ in range(spec['nb'])]
    errs = []
    for i, op in enumerate(spec['ops']):
        kind, b = op[0], op[1]
        wb = builders[b]
        try:
            if kind == 'add':
                ps = op[3]
                wb.add_task(table[op[2]], predecessors=(table[ps] if isinstance(ps, int) else [table[p] for p in ps]))
            elif kind == 'replace':
                wb.replace_task(table[op[2]], table[op[3]])
            elif kind == 'insert':
                other = builders[op[2]]
                if op[4]:
                    other = Workflow(other)
                ps = op[3]
                if ps is not None:
                    ps = table[ps] if isinstance(ps, int) else [table[p] for p in ps]
                wb.insert_workflow(other, predecessors=ps)
            elif kind == 'plus':
                builders[b] = wb + builders[op[2]]
            elif kind == 'sink':
                wb.add_task(table[op[2]], predecessors=wb.output_tasks)
            elif kind == 'copy':
                builders[b] = WorkflowBuilder(Workflow(wb))
            elif kind == 'ctx':
                P['insert_context'](wb, context)
            elif kind == 'sinkto':
                wb.add_task(table[op[2]], predecessors=[x for x in wb.output_tasks if x is not table[op[2]]])
            elif kind == 'wplus':
                builders[b] = WorkflowBuilder(Workflow(wb) + Workflow(builders[op[2]]))
            else:
                raise KeyError(kind)
        except ValueError:
            errs.append(i)
    wb = builders[0]
    o_builder = observe_graph(P, wb, table, ex)
    wf = Workflow(wb)
    o_wf = observe_graph(P, wf, table, ex)
    ins = [tid_of(t) for t in wf.input_tasks]
    outs = [tid_of(t) for t in wf.output_tasks]
    wpos = {id(t): k for k, t in enumerate(wf.tasks)}
    ups_t = ct.lst([ct.lst([ct.nat(wpos[id(u)]) for u in wf.get_upstream_tasks(t)]) for t in wf.tasks])
    disp = RecDispatcher(P['local_dask'].run)
    fam.log.clear()
    with P['threaded']():
        try:
            res = P['execute_workflow'](wf, dispatcher=disp, context=context)
            if perturb:
                res = perturb(res)
            result = f'(ROk {ex.sval(res)})'
            rkind = 'ok'
        except ValueError as e:
            rkind = 'nosink' if 'one output task' in str(e) else 'other:ValueError'
            result = 'RNoSingleSink' if rkind == 'nosink' else 'ROther'
        except RuntimeError as e:
            rkind = 'cycle' if 'Cycle detected' in str(e) else 'other:RuntimeError'
            result = 'RCycle' if rkind == 'cycle' else 'ROther'
        except Exception as e:      # anything else never agrees with the model
            rkind = 'other:' + type(e).__name__
            result = 'ROther'
    log = list(fam.log)
    prep = disp.wf if disp.wf is not None else wf
    o_prep = observe_graph(P, prep, table, ex)
    try:
        d = prep.as_dask_dict()
    except ValueError:
        d = None
    if d is None:
        keys, dterm = '[]', 'None'
    else:
        keys = ct.lst([ex.strings.p(k) for k in d])
        dterm = '(Some ' + ct.lst([ct.pair(ex.strings.p(k), ex.sval(v)) for k, v in d.items()]) + ')'
    alts = []
    if d is not None:
        import dask
        import dask.threaded
        from concurrent.futures import ThreadPoolExecutor
        for how in ('sync', 'one', 'eight'):
            fam.log.clear()
            d2 = prep.as_dask_dict()
            try:
                if how == 'sync':
                    r2 = dask.get(d2, 'results')
                elif how == 'one':
                    r2 = dask.threaded.get(d2, 'results', num_workers=1)
                else:
                    with ThreadPoolExecutor(8) as pool:
                        r2 = dask.threaded.get(d2, 'results', pool=pool)
                rt = f'(ROk {ex.sval(r2)})'
            except RuntimeError as e:
                rt = 'RCycle' if 'Cycle detected' in str(e) else 'ROther'
            except Exception:
                rt = 'ROther'
            alts.append(ct.pair(rt, ct.nat(len(fam.log))))
    scat_t, opt_t, steps_t = 'None', 'None', '[]'
    if d is not None and rkind == 'ok':      # (dask.optimization.fuse does not terminate on a cyclic graph)
        from pharmpy.workflows.dispatchers.local_dask import optimize as opt_mod
        client = RecClient()
        scat = {k: opt_mod._scatter_computation(Fut, client, v) for k, v in d.items()}
        import unittest.mock
        with unittest.mock.patch('dask.distributed.Future', Fut):
            od = opt_mod.optimize_task_graph_for_dask_distributed(client, d)
        dterm2 = lambda dd: '(Some ' + ct.lst([ct.pair(ex.strings.p(k), ex.sval(v)) for k, v in dd.items()]) + ')'
        scat_t, opt_t = dterm2(scat), dterm2(od)
        steps = [f'(FInline {ex.strings.p(k)})' for k in d if k not in od]
        steps += [f'(FAlias {ex.strings.p(k)} {ex.strings.p(v)})' for k, v in od.items()
                  if isinstance(v, str) and k in d and v not in d]
        steps_t = ct.lst(steps)
        info_fused = sum(1 for k in d if k not in od)
        # the optimized dict on real dask, futures unpacked as the distributed scheduler would
        fam.log.clear()
        try:
            r2 = dask.get({k: unpack(v) for k, v in od.items()}, 'results')
            rt = f'(ROk {ex.sval(r2)})'
        except RuntimeError as e:
            rt = 'RCycle' if 'Cycle detected' in str(e) else 'ROther'
        except Exception:
            rt = 'ROther'
        alts.append(ct.pair(rt, ct.nat(len(fam.log))))
        # dispatchers/local_dask/call.py: the real call_workflow on the original workflow with a recording client
        # (get_client / secede / rejoin of dask.distributed replaced; client.get = synchronous dask.get on the
        # optimized dict it is given, futures unpacked)
        from pharmpy.workflows.dispatchers.local_dask import call as call_mod

        class CallClient(RecClient):
            def get(self, dsk, key, sync=False):
                self.key = key
                return dask.get({k: unpack(v) for k, v in dsk.items()}, key)

            def gather(self, x):
                return x
        cc = CallClient()
        fam.log.clear()
        try:
            with unittest.mock.patch('dask.distributed.Future', Fut), \
                    unittest.mock.patch('dask.distributed.get_client', lambda: cc), \
                    unittest.mock.patch('dask.distributed.secede', lambda: None), \
                    unittest.mock.patch('dask.distributed.rejoin', lambda: None):
                r3 = call_mod.call_workflow(wf, 'c17-unique-name', context)
            rt = f'(ROk {ex.sval(r3)})' if cc.key == 'c17-unique-name' else 'ROther'
        except RuntimeError as e:
            rt = 'RCycle' if 'Cycle detected' in str(e) else 'ROther'
        except Exception:
            rt = 'ROther'
        alts.append(ct.pair(rt, ct.nat(len(fam.log))))
    else:
        info_fused = 0
    alt_t = ct.lst(alts)
    tasks_t = ct.lst([f"(mkTask {ct.pos(i + 1)} {ct.pos(i + 1)} {ct.pos(t['fn'])} {ex.svals(table[i].task_input)} "
                      f"{ct.boolean(spec['fns'][t['fn'] - 1]['ctx'])})" for i, t in enumerate(spec['tasks'])])
    ops_t = ct.lst([op_term(op) for op in spec['ops']])
    log_t = ct.lst([ct.pair(ct.pos(j), ex.svals(args)) for j, args in log])
    term = ('(mkCase ' + tasks_t + ' ' + ct.nat(spec['nb']) + '\n ' + ops_t + '\n ' + ex.sval(context) + ' '
            + ct.lst([ct.nat(i) for i in errs]) + '\n ' + o_builder + '\n ' + o_wf + '\n '
            + ct.lst([ct.pos(i) for i in ins]) + ' ' + ct.lst([ct.pos(i) for i in outs]) + ' ' + ups_t + '\n ' + o_prep + '\n '
            + keys + '\n ' + dterm + '\n ' + result + '\n ' + log_t + '\n ' + alt_t
            + '\n ' + scat_t + '\n ' + opt_t + '\n ' + steps_t + ')')
    info = {'n': len(wf), 'edges': sum(len(wf.get_successors(t)) for t in wf.tasks), 'result': rkind,
            'errs': len(errs), 'ncalls': len(log),
            'maxpreds': max([len(wf.get_predecessors(t)) for t in wf.tasks] or [0]),
            'ctx_tasks': sum(1 for t in wf.tasks if spec['fns'][spec['tasks'][tid_of(t) - 1]['fn'] - 1]['ctx']),
            'fused': info_fused,
            'twins': len(spec['tasks']) - len({(t.get('name', i), t['fn'], json.dumps(t['inputs'])) for i, t in enumerate(spec['tasks'])})}
    fam.close()
    return term, info


def nat_list(ps):
    return ct.lst([ct.nat(p) for p in ps])


def op_term(op):
    kind = op[0]
    if kind == 'add':
        ps = op[3]
        return f"(OpAdd {ct.nat(op[1])} {ct.nat(op[2])} {nat_list([ps] if isinstance(ps, int) else ps)})"
    if kind == 'replace':
        return f"(OpReplace {ct.nat(op[1])} {ct.nat(op[2])} {ct.nat(op[3])})"
    if kind == 'insert':
        ps = op[3]
        pst = 'None' if ps is None else f"(Some {nat_list([ps] if isinstance(ps, int) else ps)})"
        return f"(OpInsert {ct.nat(op[1])} {ct.nat(op[2])} {pst} {ct.boolean(op[4])})"
    if kind == 'plus':
        return f"(OpPlus {ct.nat(op[1])} {ct.nat(op[2])})"
    if kind == 'sink':
        return f"(OpSink {ct.nat(op[1])} {ct.nat(op[2])})"
    if kind == 'copy':
        return f"(OpCopy {ct.nat(op[1])})"
    if kind == 'ctx':
        return f"(OpCtx {ct.nat(op[1])})"
    if kind == 'wplus':
        return f"(OpWPlus {ct.nat(op[1])} {ct.nat(op[2])})"
    if kind == 'sinkto':
        return f"(OpSinkTo {ct.nat(op[1])} {ct.nat(op[2])})"
    raise KeyError(kind)


# ------------------------------------------------------------------ classification
def classify(ctx, spec, tags):
    tags = set(tags)
    corr = sorted(t for t in tags if t in CORR)
    oracle = sorted(t for t in tags if t in ORACLE)
    status = 'ok'
    if oracle:
        false_guards = [g for g in GUARD_FINDING if g in tags]
        explained = {t for g in false_guards for t in GUARD_EXPLAINS[g]}
        excusable = all(t in explained for t in oracle) and not corr and false_guards \
            and all(ctx.open_finding(GUARD_FINDING[g]) for g in false_guards)
        if excusable:
            for g in false_guards:
                kh = ctx.coverage.setdefault('known_hits', {})
                kh[GUARD_FINDING[g]] = kh.get(GUARD_FINDING[g], 0) + 1
            status = 'known'
        else:
            for t in oracle:
                ctx.violation(TAGS[t], {'spec': spec, 'tags': sorted(tags), 'tag_meaning': TAGS[t]})
            status = 'violation'
    if corr and status != 'violation':
        ctx.broken.append('correspondence C17 model vs implementation: ' + ', '.join(TAGS[t] for t in corr)
                          + ' on ' + json.dumps(spec))
        ctx.coverage.setdefault('corr_disagreements', []).append({'spec': spec, 'tags': sorted(tags)})
        status = 'broken'
    return status


def setup_tmp(ctx):
    d = ctx.rundir / 'tmp'
    d.mkdir(parents=True, exist_ok=True)
    os.environ['TMPDIR'] = str(d)
    tempfile.tempdir = str(d)


def run_specs(ctx, specs, label, modname=None, perturb=None):
    terms, infos = [], []
    t0 = time.time()
    for spec in specs:
        term, info = run_impl(spec, modname=modname, perturb=perturb)
        terms.append(term)
        infos.append(info)
    t_impl = time.time() - t0
    verdicts = ctx.run_cases(label, IMPORTS, 'case', terms, 'verdict', shard=60)
    ctx.coverage['impl_seconds'] = round(ctx.coverage.get('impl_seconds', 0) + t_impl, 1)
    return verdicts, infos


def finding_probes(ctx):
    """Replay the stored witness of every open finding on the real code."""
    for f in ctx.findings:
        if f.get('status') != 'open':
            continue
        verdicts, _ = run_specs(ctx, [f['witness']], 'finding-' + f['id'])
        tags = set(verdicts[0])
        guard = {v: k for k, v in GUARD_FINDING.items()}.get(f['id'])
        if f['expect_tag'] in tags and guard in tags and not (tags & set(CORR)):
            ctx.known(f['id'])
        else:
            ctx.notes.append(f"finding_not_reproduced {f['id']} (tags {sorted(tags)})")


def nontrivial(info):
    return info['n'] >= 3 and info['edges'] >= 2


def run(ctx):
    setup_tmp(ctx)
    ctx.build_gate(['C17'])
    ctx.trusted += [
        'harness/props/c17.py: generator, export of the real Task / Workflow objects, dask dict (uuid keys renamed in '
        'dict order), result values and call log to Gallina terms; classification',
        'coq/theories/C17/Model.v: hand-written model of workflow.py / task.py / execute.py, of the insertion-ordered '
        'networkx DiGraph (add_node/add_edge/remove_node/copy/compose/relabel_nodes(copy=False)) and of dask graph-spec '
        'evaluation (convert_legacy_task + Task.__call__), validated by the correspondence only on generated cases',
        'the scheduler model: a schedule is any sequence in which every key runs once, after its dependencies; real '
        'thread interleavings of dask.threaded are assumed to be such sequences for pure task functions',
    ]
    ctx.assumptions += [
        'task functions are pure (the theorems quantify over an arbitrary pure interpretation of the callables)',
        'not covered: the dask.distributed dispatcher path (LocalCluster, optimize.py scatter/fuse, call_workflow); '
        'real OS thread scheduling; uuid4 collisions (keys are assumed fresh: guard g_keys_fresh)',
        'not covered: static inputs that are sets / frozensets / named tuples / dask futures (as_dask_dict quotes sets '
        'with key strings; the value universe of the model has no sets)',
        'dask (2026.x graph spec) and networkx 3.x are engines: modelled as executable functions, validated by the correspondence',
    ]
    ctx.coverage['source_sha'] = source_sha(
        'src/pharmpy/workflows/workflow.py', 'src/pharmpy/workflows/task.py', 'src/pharmpy/workflows/execute.py',
        'src/pharmpy/workflows/dispatchers/local_dask/run.py')
    finding_probes(ctx)
    reg = sorted((VERIF / 'regress' / 'C17').glob('*.json'))
    specs = [json.loads(p.read_text()) for p in reg]
    nreg = len(specs)
    n = 1500 if ctx.tier == 'quick' else 12000
    specs += [gen_spec(ctx.rng) for _ in range(n)]
    if ctx.tier == 'thorough':
        for k in (1, 2, 3, 4, 5):
            specs += list(enum_dag_specs(k, ctx.rng))
    verdicts, infos = run_specs(ctx, specs, 'gen')
    stats = {'ok': 0, 'known': 0, 'violation': 0, 'broken': 0}
    for spec, tags in zip(specs, verdicts):
        stats[classify(ctx, spec, tags)] += 1
    ctx.coverage['evaluations'] = len(specs)
    ctx.coverage['programs'] = len(specs)
    ctx.coverage['distinct_nontrivial'] = len({json.dumps(s, sort_keys=True) for s, i in zip(specs, infos) if nontrivial(i)})
    ctx.coverage['rule'] = (
        'random WorkflowBuilder operation sequences (add_task with list / single / no predecessors, replace_task by a '
        'new or an existing task, insert_workflow of builders and Workflows with and without predecessors, builder + and Workflow +, '
        'WorkflowBuilder(Workflow(.)), insert_context, closing add_task on output_tasks, output task entered early or last) over 1-12 tasks of a pure '
        'call-logging function family with and without a context parameter, twin tasks (distinct objects equal in name, '
        'function and static inputs, with different or identical predecessors) and static inputs (strings, ints, None, '
        'tuples, lists, dicts, callables; a stream with key strings and callable-headed tuples also nested in tuples / lists / '
        'dict values, which as_dask_dict must quote; cycles and '
        'multi-sink graphs), executed with the real execute_workflow + threaded local_dask dispatcher; from VERIF_SEED; '
        'thorough adds every forward-edge DAG on <= 5 tasks; non-trivial = at least 3 tasks and 2 edges; distinct by spec text')
    ctx.coverage['case_status'] = stats
    ctx.coverage['regress_cases'] = nreg
    hist = lambda key: {str(k): sum(1 for i in infos if i[key] == k) for k in sorted({i[key] for i in infos})}
    ctx.coverage['input_distribution'] = {
        'tasks_hist': hist('n'), 'max_predecessors_hist': hist('maxpreds'), 'result_kind': hist('result'),
        'ops_raising_ValueError': sum(i['errs'] for i in infos),
        'with_context_tasks': sum(1 for i in infos if i['ctx_tasks'] > 0),
        'with_twin_tasks': sum(1 for i in infos if i['twins'] > 0),
        'with_fused_tasks': sum(1 for i in infos if i['fused'] > 0), 'tasks_fused': sum(i['fused'] for i in infos),
        'static_input_with_key_string_quoted': sum(1 for v in verdicts if 201 in v),
        'static_input_with_callable_tuple_quoted': sum(1 for v in verdicts if 202 in v),
        'context_predecessor_before_plain_one': sum(1 for v in verdicts if 203 in v),
        'not_single_sink': sum(1 for v in verdicts if 204 in v),
        'cyclic': sum(1 for v in verdicts if 205 in v),
        'ops_hist': {k: sum(1 for s in specs for o in s['ops'] if o[0] == k)
                     for k in ('add', 'replace', 'insert', 'plus', 'wplus', 'sink', 'sinkto', 'copy', 'ctx')},
    }
    ctx.coverage['samples'] = [{'spec': s, 'tags': v} for s, v in list(zip(specs, verdicts))[nreg:nreg + 4]]


def replay(ctx, rep):
    setup_tmp(ctx)
    spec = rep['spec']
    verdicts, infos = run_specs(ctx, [spec], 'replay')
    tags = verdicts[0]
    print('spec', json.dumps(spec))
    print('info', infos[0])
    print('tags', tags, [TAGS.get(t, t) for t in tags])
    return 1 if any(t in ORACLE or t in CORR for t in tags) else 0
