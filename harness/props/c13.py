"""C13 — datasets are read by NM-TRAN's rules and survive a write/read cycle.
Model: coq/theories/C13/Model.v (the reader as implemented, defects included), Spec.v (reference reader
written from docs/NONMEM.rst), Check.v (in-Coq comparison); theorems in Properties.v / Refuted.v.
Tie: data-file texts built from the documented lexical forms x $INPUT lists x $DATA option lists are read
through a real control stream (read_model_from_string -> Model.dataset); the DataFrame is exported cell by
cell as exact rationals / strings and compared inside Coq with the model (correspondence, tags 1-4) and with
the reference reader (oracle, tag 11).  Write/read cycle: write_model of a model with a new numeric dataset,
read back through the generated control stream, compared inside Coq (tags 21-24)."""
import json
import math
import os
import random
import warnings
from fractions import Fraction as F
from pathlib import Path

from harness.lib import coqterm as ct
from harness.lib.core import VERIF, source_sha

LEVEL = 'proof'
IMPORTS = 'Base.PyData C13.Model C13.Spec C13.Check'

TAGS = {
    1: 'outcome (DataFrame / error class) differs from the model', 2: 'column names differ from the model',
    3: 'number of rows differs from the model', 4: 'a cell differs from the model',
    5: 'convert_fortran_number differs from the model', 6: 're.split of the stripped row differs from the model',
    11: 'dataset read by pharmpy differs from the reference reader of docs/NONMEM.rst',
    12: 'a row is split differently from the documented delimiter rules',
    21: 'write/read cycle: column names changed', 22: 'write/read cycle: number of rows changed',
    23: 'write/read cycle: a value changed', 24: 'write/read cycle: writing or re-reading failed',
    25: 'update_input ($INPUT generated for the new dataset) differs from the model',
    26: 'the written $DATA record re-applies an IGNORE/ACCEPT list to data written from the already filtered dataset',
    27: 'the written $DATA record differs from the model of update_source',
    28: 'the file named by the written $DATA record differs from the model of write_files',
}
CYCLE_GUARDS = {218: ('g_no_anon', 'finding', 'C13-CYCLE-ANON-DROP'), 219: ('g_no_same_dropped', 'class', None),
                220: ('g_renamed', 'finding', 'C13-CYCLE-STALE-PATH')}
CYCLE_CORR = (25, 27, 28)
CORR = (1, 2, 3, 4)
# guard tag -> (conjunct name, kind, finding id); the conjuncts of the fixed findings are gone
GUARDS = {
    201: ('g_alphabet', 'class', None),
    202: ('g_edge_tab', 'class', None),
    203: ('g_rows_within', 'finding', 'C13-SHORT-FIRST-ROW'),
    204: ('g_items_charset', 'finding', 'C13-NUM-UNDERSCORE'),
    205: ('g_id_drop', 'finding', 'C13-ID-DROP-TEXT'),
    206: ('g_id_choice', 'class', None),
    207: ('g_names_unique', 'class', None),     # (round 4: the class conjunct g_no_date is gone, DATE columns are in the theorem)
    208: ('g_filters_valid', 'class', None),
    224: ('g_pk_id_kept', 'class', None),
}

CODE_TAIL = "$PRED\nY=THETA(1)+ETA(1)+EPS(1)\n$THETA 1\n$OMEGA 1\n$SIGMA 1\n$ESTIMATION METHOD=1\n"


# ------------------------------------------------------------------ generator
def num_token(rng):
    k = rng.random()
    ip = str(rng.choice([0, 1, 2, 3, 5, 7, 10, 12, 25, 100, 314, 1234]))
    fp = rng.choice(['', '', '5', '25', '125', '1', '75', '001'])
    if k < 0.30:
        return ip
    if k < 0.50:
        return rng.choice([ip + '.' + fp, ip + '.', '.' + (fp or '5')])
    mant = rng.choice([ip, ip + '.' + fp, '.' + (fp or '5'), ip + '.'])
    sg = rng.choice(['', '', '', '-', '+'])
    ex = str(rng.choice([0, 1, 2, 3, 5, 10, 12]))
    es = rng.choice(['', '-', '+'])
    if k < 0.62:
        return sg + mant + rng.choice('eE') + es + ex
    if k < 0.74:
        return mant + rng.choice('dD') + es + ex           # unsigned mantissa
    if k < 0.84:
        return sg + mant + rng.choice('+-') + ex            # short form 2-1
    if k < 0.90:
        return rng.choice(['-', '+']) + ip
    if k < 0.93:
        return rng.choice(['+', '-'])
    if k < 0.96:
        return '.'
    if k < 0.985:
        return '-99'
    if k < 0.99:
        return rng.choice(['0.1', '0.10000000000000000555', '0.3', '0.30000000000000004', '9007199254740992', '9007199254740993',
                           '2.0000000000000002', '1.0000000000000001', '0.5', '2147483647'])
    return rng.choice(['123456789012345678901234', '1234567890123456789012345', '0.00000000000000000000001',
                       '000000000000000000000001.5', '12345678901234567890.123', '1.5e-12', '00012.50'])


BAD_TOKENS = ['abc', '1..2', '2-1-1', '-5d1', '+1.5D2', '1_0', '1e', '--1', '1-', 'x1', '1e5-2', '1,5'.replace(',', ';'),
              '2-1d1', '1.5-2.5', 'e1', '1d', '-d1', '1_5.0', '1__0', '2:30', '1/2', '-1.5d-2', '3+2+1', '"1"']


def id_tokens(rng, nrows):
    style = rng.random()
    if style < 0.5:                      # contiguous blocks
        out, cur = [], 1
        for _ in range(nrows):
            out.append(cur)
            if rng.random() < 0.5:
                cur += rng.choice([1, 1, 2])
        return [str(x) for x in out]
    if style < 0.8:                      # re-used ids
        return [str(rng.choice([1, 2, 3])) for _ in range(nrows)]
    return [rng.choice(['1', '1.0', '1e0', '2', '2.5', '-1.5', '3', '1d1', '2-1', '-', '.', '1', '2', '3', '+2', '2.0']) for _ in range(nrows)]


PLAIN_NAMES = ['ID', 'TIME', 'DV', 'AMT', 'WGT', 'APGR', 'L1', 'DVID', 'X1', 'BLQ', 'CRCL', 'MDV', 'EVID']
SYN_NONRES = ['CONC', 'TAD', 'DOSE', 'SUBJ', 'W8']
DATE_NAMES = ['DATE', 'DATE', 'DAT1', 'DAT2', 'DAT3']
DATE_TOKENS = ['1/1/2020', '10-3-99', '2020-01-02', '3', '1.5', '12/31/1999', '10/3', '.', '', '1', '2020.2.3', '0']
DELIMS = [',', ',', ',', ' ', ' ', '\t', ' , ', ', ', ' ,', '  ', '\t ', '   ', ',  ']
FILTER_OPS = ['.EQN.', '.EQ.', '==', '=', '.NEN.', '.NE.', '/=', '.LT.', '<', '.GT.', '>', '.LE.', '<=', '.GE.', '>=', None]


def gen_columns(rng):
    k = rng.choice([1, 2, 3, 3, 4, 4, 5, 6])
    pool = list(PLAIN_NAMES)
    rng.shuffle(pool)
    if rng.random() < 0.7:                # usually start with an id column
        pool.remove('ID')
        pool.insert(0, 'ID')
    syn = list(SYN_NONRES)
    rng.shuffle(syn)
    cols = []                             # (text in $INPUT, name in the frame or None, dropped)
    for j in range(k):
        nm = pool[j]
        r = rng.random()
        if nm == 'TIME' and r >= 0.62:    # a dropped TIME column is outside the model
            r = 0.0
        if r < 0.62:
            cols.append((nm, nm, False))
        elif r < 0.72:
            cols.append((f'{nm}=DROP' if rng.random() < 0.6 else f'DROP={nm}', nm, True))
        elif r < 0.76:
            cols.append((f'{nm}=SKIP', nm, True))
        elif r < 0.84:
            cols.append((rng.choice(['DROP', 'SKIP']), None, True))
        elif r < 0.97 and nm in ('ID', 'DV', 'TIME', 'AMT', 'L1', 'MDV', 'EVID'):
            s = syn.pop()
            cols.append((f'{nm}={s}' if rng.random() < 0.5 else f'{s}={nm}', s, False))
        elif r < 0.985:
            cols.append((f'{nm}={syn.pop()}' if nm not in ('ID', 'DV', 'TIME', 'AMT', 'L1', 'MDV', 'EVID') else nm, nm, False))
        else:
            cols.append((nm, nm, False))
    if rng.random() < 0.18 and len(cols) >= 2:      # a DATE / DAT1-3 column (round 4), usually dropped as NM-TRAN asks; it stays text
        j = rng.randrange(1, len(cols))
        d = rng.choice(DATE_NAMES)
        r = rng.random()
        cols[j] = ((f'{d}=DROP' if r < 0.45 else f'DROP={d}', d, True) if r < 0.65 else (d, d, False))
    if rng.random() < 0.02 and len(cols) >= 2 and not cols[0][2]:     # duplicate kept name: KeyError 'not unique'
        cols.append((cols[0][0], cols[0][1], cols[0][2]))     # (duplicate DROPPED names make pandas erratic: not generated)
    return cols


def gen_spec(rng, malformed=False):
    cols = gen_columns(rng)
    k = len(cols)
    nrows = rng.choice([1, 2, 2, 3, 3, 4, 5, 6, 8])
    wmode = rng.random()
    base_w = k if wmode < 0.62 else (rng.randrange(1, k + 1) if wmode < 0.8 else k + rng.choice([1, 2]))
    if not malformed and wmode >= 0.8 and rng.random() < 0.8:
        base_w = k                                        # keep surplus-first-row files rare
    ignc = rng.choice([None, None, None, '#', '@', '@', 'C', 'I', '"', '!', ';x'[1:]])
    if malformed and rng.random() < 0.05:
        ignc = rng.choice(['^', '\\'])
    nullc = rng.choice([None, None, None, None, '0', '7', '1', '-', '+', '9'])
    idcols = [j for j, c in enumerate(cols) if c[1] in ('ID', 'L1', 'SUBJ')]
    ids = id_tokens(rng, nrows)
    dropped = [c[2] for c in cols]
    lines = []
    colvals = [[] for _ in range(k + 3)]
    for i in range(nrows):
        w = base_w
        u = rng.random()
        if u < 0.08 and w > 1:
            w -= 1
        elif (u < 0.11 and (i > 0 or malformed)) or (u < 0.2 and base_w > k):
            w += 1                                        # surplus items (rarely on the first row)
        elif u < 0.13 and (i > 0 or malformed):
            w = rng.randrange(1, k + 3)
        items = []
        for j in range(w):
            if j < k and dropped[j] and rng.random() < 0.5:
                tok = rng.choice(['abc', 'x', 'a1', 'N/A', '12:30', 'male', '#', '1.5.2', '12345678901234567890123456789',
                                  '1', '2', '', '.'])
                if cols[j][1] in ('ID', 'L1') and rng.random() < 0.7:
                    tok = str(rng.choice([1, 2, 3, 10]))
            elif j < k and cols[j][1] in DATE_NAMES:
                tok = rng.choice(DATE_TOKENS)
            elif j in idcols and idcols.index(j) == 0:
                tok = ids[i]
            elif j < k and cols[j][1] in ('ID', 'L1', 'DVID'):          # int32 columns: keep |value| < 2**31
                tok = rng.choice(['1', '2', '3', '2.5', '1e1', '10', '.', '-1', '2-1', '1d2', '+', '0'])
            elif j < k and cols[j][1] == 'TIME' and rng.random() < (0.12 if any(c[1] in DATE_NAMES for c in cols) else 0.08):
                tok = rng.choice(['2:30', '12:00', '0:15'])
            elif malformed and rng.random() < 0.12:
                tok = rng.choice(BAD_TOKENS)
            elif rng.random() < 0.04:
                tok = ''
            else:
                tok = num_token(rng)
            items.append(tok)
            colvals[j].append(tok)
        line = ''
        for j, tok in enumerate(items):
            if j:
                d = rng.choice(DELIMS)
                if tok == '' or items[j - 1] == '':
                    d = rng.choice([',', ', ', ' ,', ',', ' , ', ',', ', ', '\t', '\t  '] if 0 < j < len(items) - 1 or tok
                                   else [',', ', ', ' ,', ' , '])
                line += d
            line += tok
        if items and items[0] == '' and len(items) > 1 and not line.lstrip(' ').startswith((',', '\t')):
            line = ',' + line
        if len(items) == 1 and items[0] == '':
            line = rng.choice([',', '.', ', '])
        if rng.random() < 0.15:
            line = rng.choice([' ', '  ', '   ']) + line
        if rng.random() < 0.12:
            line += rng.choice([' ', '  '])
        if rng.random() < (0.03 if i > 0 or malformed else 0.005):
            line += rng.choice([',', ' ,', '\t'])
        if malformed and rng.random() < 0.03:
            line = line.replace(',', ' \t', 1)
        if malformed and rng.random() < 0.03:
            line = '\t' + line
        lines.append(line)
    # comment lines
    cchar = ignc if ignc and ignc != '@' else ('#' if ignc is None else None)
    out = []
    header = ' '.join(c[1] or 'X' for c in cols)
    if ignc == '@' and rng.random() < 0.7:
        out.append(rng.choice([header, header.replace(' ', ','), '  ' + header, '#' + header, '@x', '\t' + header]))
    elif cchar and rng.random() < 0.4:
        out.append(cchar + header)
    for ln in lines:
        out.append(ln)
        r = rng.random()
        if r < 0.05:
            out.append((cchar or 'Comment') + rng.choice([' note', '', ',1,2', ' 1 2 3']))
        elif r < (0.065 if malformed else 0.055):
            out.append(rng.choice(['', ' ', '\t', '  ']))                       # blank line
        elif r < 0.08 and ignc not in (None, '#', '@'):
            out.append('#1,2,3')                                                 # '#' is not a comment then
    final_newline = rng.random() < 0.8
    if rng.random() < (0.06 if malformed else 0.025):
        out.append((cchar or 'c') + ' last')                                     # comment as last line
        final_newline = rng.random() < 0.5
    text = '\n'.join(out) + ('\n' if final_newline else '')
    if rng.random() < 0.02:
        text += rng.choice(['\n', ' \n', ' '])
    # filters
    filters, kind = [], None
    if rng.random() < 0.45:
        kind = rng.choice(['IGNORE', 'IGNORE', 'ACCEPT'])
        for _ in range(rng.choice([1, 1, 2, 3])):
            j = rng.randrange(k)
            nm = cols[j][1]
            if nm is None:
                nm = '_DROP1'
            itext = cols[j][0]
            if '=' in itext and not cols[j][2] and rng.random() < 0.5:         # the other name of a synonym pair
                a, b = itext.split('=')
                nm = a if nm == b else b
            if rng.random() < 0.03:
                nm = 'NOCOL'
            op = rng.choice(FILTER_OPS)
            numeric = op in ('.EQN.', '.NEN.', '.LT.', '<', '.GT.', '>', '.LE.', '<=', '.GE.', '>=')
            pool = [v for v in colvals[j] if v not in ('', '.')] or ['1']
            if numeric:
                e = rng.choice(['0', '1', '2', '3', '10', '2.5', '0.5', '100', '1e1', '7', '12', '.5', '3.'])
                if rng.random() < 0.12:     # boundary of binary64: decimals that differ but round to the same double (or not)
                    e = rng.choice(['0.5000000000000000001', '0.1000000000000000055', '2.00000000000000001', '9007199254740993',
                                    '0.30000000000000004', '0.1', '2.0000000000000004', '1.0000000000000002', '1.00000000000000011'])
                if rng.random() < 0.3:
                    v = rng.choice(pool)
                    try:
                        float(v)
                        if not (v.startswith('0') and len(v) > 1 and v[1].isdigit()) and '_' not in v and v[0] not in '+-':
                            e = v
                    except ValueError:
                        pass
            else:
                e = rng.choice(pool) if rng.random() < 0.7 else rng.choice(['0', '1', '2', 'abc', '7.0', '3'])
                e = e.replace('"', '').replace("'", '') or '1'      # a quote inside the expression breaks DataFrame.query
                if e[0] in '.=<>/' or any(ch in e for ch in '"\',;()= \t') or not e:
                    e = "'" + e.replace("'", '') + "'" if '"' in e or rng.random() < 0.5 else '"' + e.replace('"', '') + '"'
                elif rng.random() < 0.15:
                    e = rng.choice(["'%s'", '"%s"']) % e
            if e.startswith('.'):
                e = rng.choice(['0' + e, "'" + e + "'"])
            if op is None:
                f = f'{nm} {e}'
            else:
                f = f'{nm}{op}{e}'
            filters.append(f)
    dataopts = []
    if ignc is not None:
        q = "'" if ignc == '"' else rng.choice(['', '', '', "'", '"'])
        dataopts.append(f'IGNORE={q}{ignc}{q}')
    if nullc is not None:
        dataopts.append(f'NULL={nullc}')
    if filters:
        if rng.random() < 0.5 or len(filters) == 1:
            dataopts.append(f'{kind}=(' + ','.join(filters) + ')')
        else:
            dataopts += [f'{kind}=({f})' for f in filters]
        if malformed and rng.random() < 0.05:
            dataopts.append(('ACCEPT' if kind == 'IGNORE' else 'IGNORE') + '=(' + filters[0] + ')')
    rng.shuffle(dataopts)
    return {'text': text, 'input': ' '.join(c[0] for c in cols), 'dataopts': ' '.join(dataopts)}


# ------------------------------------------------------------------ implementation side
class Skip(Exception):
    pass


def s_term(s):
    return ct.string_codes(s)


def cell_term(v):
    if isinstance(v, str):
        return f'(CStr {s_term(v)})'
    if v is None:
        return 'CNaN'
    if isinstance(v, bool):
        raise Skip('bool cell')
    x = float(v)
    if math.isnan(x):
        return 'CNaN'
    if math.isinf(x):
        raise Skip('infinite cell')
    return f'(CNum {ct.q(F(x))})'


def table_term(df):
    cols = []
    for j, name in enumerate(df.columns):
        if not isinstance(name, str):
            raise Skip('non-string column label')
        vals = df.iloc[:, j].tolist()
        cols.append(ct.pair(s_term(name), ct.lst([cell_term(v) for v in vals])))
    return f'(Ok {ct.lst(cols)})'


ERRCLASS = {'DatasetError': 'DatasetError', 'KeyError': 'KeyErr', 'EmptyDataError': 'EmptyData',
            'ValueError': 'ValueErr', 'IntCastingNaNError': 'ValueErr'}


def err_term(e):
    return f'(Err {ERRCLASS.get(type(e).__name__, "OtherErr")})'


def control_stream(spec, path):
    return f"$PROBLEM c13\n$INPUT {spec['input']}\n$DATA {path} {spec['dataopts']}\n" + CODE_TAIL


def input_term(spec, path, mod=None):
    """Export the REAL parsed records of the control stream (not the generator's view of them)."""
    code = control_stream(spec, path)
    term, info = input_term_from_code(code, spec['text'])
    return term, code, info


def parse_records(code):
    """The REAL parsed $INPUT options and $DATA tokens (IGNORE=c token, NULL char, filter tokens) of a control stream."""
    from pharmpy.model.external.nonmem.nmtran_parser import NMTranParser
    try:
        cs = NMTranParser().parse(code)
        inp = cs.get_records('INPUT')
        opts = [(k, v) for r in inp for (k, v) in r.all_options]
        dr = cs.get_records('DATA')[0]
        igntree = dr.root.first_branch('ignchar', 'char')       # the raw CHAR token, not the derived property
        ignc = str(igntree) if igntree else None
        nulltree = dr.root.first_branch('null', 'char')
        nullc = str(nulltree) if nulltree else None
        filts = {}
        for which in ('ignore', 'accept'):
            out = []
            for f in getattr(dr, which):
                col = op = ex = None
                for c in f.children:
                    if c.rule == 'COLUMN':
                        col = str(c)
                    elif c.rule.startswith('OP_'):
                        op = str(c)
                    elif c.rule in ('EXPR', 'QEXPR'):
                        ex = str(c)
                if col is None or ex is None:
                    raise Skip('filter shape')
                out.append((col, op, ex))
            filts[which] = out
        filename = dr.filename
    except Skip:
        raise
    except Exception as e:
        raise Skip('control stream does not parse: ' + type(e).__name__)
    if ignc is not None and len(list(dr.root.subtrees('ignchar'))) != 1:
        raise Skip('several IGNORE=c options')
    if nullc is not None and len(nullc) != 1:
        raise Skip('null character of length != 1')
    return opts, ignc, nullc, filts, filename


def filt_term(f):
    return f"(mkFilt {s_term(f[0])} {ct.opt(None if f[1] is None else s_term(f[1]))} {s_term(f[2])})"


def data_term(code):
    """$DATA of a control stream as a Check.data_opts term."""
    _, ignc, nullc, filts, _ = parse_records(code)
    return ("(mkData " + ct.opt(None if ignc is None else s_term(ignc)) + " "
            + ct.opt(None if nullc is None else f'{ord(nullc)}%N') + " "
            + ct.lst([filt_term(f) for f in filts['ignore']]) + " " + ct.lst([filt_term(f) for f in filts['accept']]) + ")")


def input_term_from_code(code, text):
    import pharmpy
    opts, ignc, nullc, filts, _ = parse_records(code)
    mdt = str(pharmpy.conf.missing_data_token)
    term = ("(mkInput " + s_term(text) + "\n  "
            + ct.lst([ct.pair(s_term(k), ct.opt(None if v is None else s_term(v))) for k, v in opts]) + "\n  "
            + ct.opt(None if ignc is None else s_term(ignc)) + " "
            + ct.opt(None if nullc is None else f'{ord(nullc)}%N') + "\n  "
            + ct.lst([filt_term(f) for f in filts['ignore']]) + " " + ct.lst([filt_term(f) for f in filts['accept']]) + " "
            + s_term(mdt) + ")")
    info = {'ncols': len(opts), 'nfilters': len(filts['ignore']) + len(filts['accept']), 'ignc': ignc, 'nullc': nullc}
    return term, info


def read_dataset(code, mutate=None):
    from pharmpy.modeling import read_model_from_string
    with warnings.catch_warnings():
        warnings.simplefilter('ignore')
        try:
            m = read_model_from_string(code)
            df = m.dataset
        except Exception as e:          # every error class is an observation
            return None, e
    if mutate:
        df = mutate(df)
    return df, None


def observe(spec, datadir, idx, mutate=None):
    p = Path(datadir) / f'd{idx}.csv'
    for ch in spec['text']:
        if ord(ch) > 255:
            raise Skip('non latin-1 text')
    p.write_bytes(spec['text'].encode('latin-1'))
    in_term, code, info = input_term(spec, p)
    df, e = read_dataset(code, mutate)
    if e is not None:
        obs = err_term(e)
        info['outcome'] = type(e).__name__
    else:
        obs = table_term(df)
        info['outcome'] = 'ok'
        info['rows'] = len(df)
    return f'(mkCase {in_term}\n  {obs})', info


def opts_term(code):
    """$INPUT record.all_options of a control stream, as parsed by pharmpy."""
    from pharmpy.model.external.nonmem.nmtran_parser import NMTranParser
    cs = NMTranParser().parse(code)
    opts = [(k, v) for r in cs.get_records('INPUT') for (k, v) in r.all_options]
    return ct.lst([ct.pair(s_term(k), ct.opt(None if v is None else s_term(v))) for k, v in opts])


def newcols_term(model):
    return ct.lst([ct.pair(s_term(c.name), ct.boolean(bool(c.drop))) for c in model.datainfo])


# ------------------------------------------------------------------ write/read cycle
def gen_cycle_spec(rng):
    k = rng.choice([2, 3, 4, 5])
    names = ['ID', 'TIME', 'DV'] + rng.sample(['AMT', 'WGT', 'APGR', 'X1', 'CRCL', 'DVID', 'BLQ'], k - 2)
    names = names[:k + 1]
    nid = rng.choice([1, 2, 3])
    rows = []
    for i in range(1, nid + 1):
        for t in range(rng.choice([1, 2, 3])):
            row = []
            for nm in names:
                if nm == 'ID':
                    row.append(i)
                elif nm == 'DVID':
                    row.append(rng.choice([1, 2]))
                else:
                    num = rng.choice([0, 1, 3, 5, 7, 12, 25, 100, 1023, -3, -1])
                    den = rng.choice([1, 1, 2, 4, 8, 16, 1024])
                    e = rng.choice([0, 0, 0, 10, -10, 40, -40])
                    if rng.random() < 0.3:                                       # an arbitrary double
                        num = rng.getrandbits(53) * rng.choice([1, -1])
                        den = 1
                        e = rng.randint(-1100, 960) if rng.random() < 0.3 else rng.randint(-80, 20)
                    row.append([num, den, e] if rng.random() > 0.04 else None)      # None = missing value
            rows.append(row)
    first = rng.choice(['ID', 'ID', 'ID', 'SUBJ', 'Id', 'L1'])
    spec = {'names': names, 'rows': rows, 'start': rng.choice(['plain', 'plain', 'wide', 'filters', 'drop', 'anon']),
            'first_label': first, 'route': 'replace'}
    if rng.random() < 0.6:               # a start model WITH IGNORE/ACCEPT lists, written without replacing the dataset
        spec = dict(gen_filtered_start(rng), route=rng.choice(['write_csv', 'write_csv', 'plain', 'write_csv_noforce', 'replace_same']))
    return spec


FLAG_TOKENS = ['1', '1', '1.0', '01', '0', '2', '1e0', '.', '1.5', '+1']
TEXT_OPS = ['.EQ.', '==', '=', '.NE.', '/=', None]
NUM_OPS = ['.EQN.', '.NEN.', '.LT.', '<', '.GT.', '>', '.LE.', '<=', '.GE.', '>=']


def gen_filtered_start(rng):
    """A start model with text and numeric IGNORE/ACCEPT statements on values that print differently as floats."""
    cols = ['ID', 'TIME', 'DV', 'FLAG']
    inp = ['ID', 'TIME', 'DV', 'FLAG']
    grp = rng.random() < 0.4
    if grp:
        cols.append('GRP')
        inp.append(rng.choice(['GRP=DROP', 'DROP=GRP']))
    if rng.random() < 0.25:
        inp[2] = rng.choice(['DV=CONC', 'CONC=DV'])
    lines = []
    ident = 1
    for _ in range(rng.choice([2, 3, 4, 5, 6])):
        row = [str(ident), rng.choice(['0', '1', '2.5', '10']), rng.choice(['1', '2.5', '0.5', '3', '1d1', '.']), rng.choice(FLAG_TOKENS)]
        if grp:
            row.append(rng.choice(['a', 'b', '1', '1.0']))
        lines.append(rng.choice([',', ',', ' ', '\t']).join(row))
        if rng.random() < 0.5:
            ident += 1
    ignc = rng.choice([None, None, '#', '@', 'C'])
    text = ''
    if ignc == '@':
        text += 'ID TIME DV FLAG\n'
    elif ignc:
        text += ignc + ' header\n'
    elif rng.random() < 0.3:
        text += '#comment\n'
    text += '\n'.join(lines) + '\n'
    kind = rng.choice(['IGNORE', 'IGNORE', 'ACCEPT'])
    filters = []
    for _ in range(rng.choice([1, 1, 2])):
        col = rng.choice(['FLAG', 'FLAG', 'FLAG', 'ID', 'DV'] + (['GRP'] if grp else []))
        if col == 'DV' and inp[2] != 'DV' and rng.random() < 0.5:
            col = 'CONC'
        if col == 'GRP' or rng.random() < 0.55:
            op = rng.choice(TEXT_OPS)
            e = rng.choice(['1', '1', '1.0', '01', '0', '2', 'a'])
            if rng.random() < 0.2:
                e = rng.choice(["'%s'", '"%s"']) % e
            f = f'{col} {e}' if op is None else f'{col}{op}{e}'
        else:
            f = f"{col}{rng.choice(NUM_OPS)}{rng.choice(['1', '0', '2', '1.5', '0.5', '3'])}"
        filters.append(f)
    opts = []
    if ignc:
        opts.append(f'IGNORE={ignc}')
    if rng.random() < 0.25:
        opts.append('NULL=' + rng.choice('179'))
    opts.append(f'{kind}=(' + ','.join(filters) + ')' if rng.random() < 0.6 else ' '.join(f'{kind}=({f})' for f in filters))
    rng.shuffle(opts)
    return {'start_input': ' '.join(inp), 'start_text': text, 'start_opts': ' '.join(opts)}


def cycle_observe(spec, workdir, idx):
    import pandas as pd
    from pharmpy.modeling import read_model, read_model_from_string, set_dataset, write_csv, write_model
    d = Path(workdir) / f'cyc{idx}'
    d.mkdir(parents=True, exist_ok=True)
    for f in d.glob('*'):
        if f.is_file():
            f.unlink()
    route = spec.get('route', 'replace')
    start = d / 'start.csv'
    df = None
    if 'start_input' in spec:              # generated start model with IGNORE/ACCEPT lists
        kind = 'generated'
        start.write_bytes(spec['start_text'].encode('latin-1'))
        code = f"$PROBLEM c13\n$INPUT {spec['start_input']}\n$DATA {start} {spec['start_opts']}\n" + CODE_TAIL
    else:
        names = list(spec['names'])
        names[0] = spec.get('first_label', names[0])

        def val(x):
            if x is None:
                return float('nan')
            if isinstance(x, int):
                return float(x)
            num, den, e = x
            return float(F(num, den) * F(2) ** e)
        data = {nm: [val(r[j]) for r in spec['rows']] for j, nm in enumerate(names)}
        df = pd.DataFrame(data)
        if 'ID' in df.columns:
            df['ID'] = df['ID'].astype('int32')
        if 'DVID' in df.columns:
            df['DVID'] = df['DVID'].astype('int32')
        kind = spec.get('start', 'plain')
        if kind == 'wide':                     # the original $INPUT has more columns than the new dataset
            start.write_text('1,0,1,70,5,2\n1,1,2,70,5,3\n')
            code = f"$PROBLEM c13\n$INPUT ID TIME DV WGT APGR X1\n$DATA {start}\n" + CODE_TAIL
        elif kind == 'filters':                # IGNORE=c, filters and a synonym to be replaced
            start.write_text('#h\n1,0,1\n1,1,2\n7,1,2\n')
            code = f"$PROBLEM c13\n$INPUT ID TIME DV=CONC\n$DATA {start} IGNORE=# IGNORE=(ID.EQ.1)\n" + CODE_TAIL
        elif kind == 'drop':                   # dropped and anonymous columns in the original $INPUT
            start.write_text('1,x,1,9\n1,y,2,9\n')
            code = f"$PROBLEM c13\n$INPUT ID SEX=DROP DV DROP\n$DATA {start}\n" + CODE_TAIL
        elif kind == 'anon':                   # an anonymous DROP where the new dataset has a column
            start.write_text('1,0,1\n1,1,2\n')
            code = f"$PROBLEM c13\n$INPUT ID DROP DV\n$DATA {start}\n" + CODE_TAIL
        else:
            start.write_text('1,0,1\n1,1,2\n')
            code = f"$PROBLEM c13\n$INPUT ID TIME DV\n$DATA {start}\n" + CODE_TAIL
    with warnings.catch_warnings():
        warnings.simplefilter('ignore')
        try:
            m = read_model_from_string(code)
        except Exception as e:
            raise Skip('start model does not read: ' + type(e).__name__)
        if m.dataset is None or len(m.dataset) == 0:
            raise Skip('empty in-memory dataset')
        target = d / 'out.mod'
        changed, updated, force = True, False, True
        try:
            if route == 'replace':                 # a new dataset
                m2 = set_dataset(m, df, datatype='nonmem')
                updated = True
            elif route == 'replace_same':          # the in-memory dataset set again (content route)
                m2 = set_dataset(m, m.dataset.copy(), datatype='nonmem')
                updated = True
            elif route == 'write_csv':             # write_csv to a new path, then write_model
                m2 = write_csv(m, path=d / 'new.csv', force=True)
            elif route == 'write_csv_noforce':
                m2 = write_csv(m, path=d / 'new.csv', force=True)
                force = False
            else:                                  # plain write_model
                m2 = m
                changed = False
            mem = m2.dataset
            write_model(m2, target, force=force)
            written = target.read_text()
            m3 = read_model(target)
            df3 = m3.dataset
            before = table_term(mem)
            after = table_term(df3)
            # the files pharmpy wrote, as an ordinary read case for the model / reference reader
            in_term, _ = input_term_from_code(written, m3.datainfo.path.read_bytes().decode('latin-1'))
            readcase = f'(mkCase {in_term}\n  {after})'
            renamed_obs = Path(m3.datainfo.path).resolve() != start.resolve()
            extra = ' '.join([opts_term(code), newcols_term(m2), opts_term(written), ct.boolean(changed), ct.boolean(updated),
                              ct.boolean(force), ct.boolean(renamed_obs), data_term(code), data_term(written)])
        except Skip:
            raise
        except Exception as e:
            return (f'(mkCycle (Ok []) {err_term(e)} [] [] [] true true true true (mkData None None [] []) (mkData None None [] []))',
                    None, {'error': type(e).__name__ + ': ' + str(e)[:200], 'route': route, 'start': kind})
    return f'(mkCycle {before} {after} {extra})', readcase, {'rows': len(mem), 'cols': len(mem.columns), 'start': kind, 'route': route}


# ------------------------------------------------------------------ classification
def classify(ctx, spec, tags):
    tags = set(tags)
    corr = sorted(t for t in tags if t in CORR)
    gfalse = sorted(t for t in tags if t in GUARDS)
    status = 'ok'
    if 11 in tags:
        open_f = [GUARDS[t][2] for t in gfalse if GUARDS[t][1] == 'finding' and ctx.open_finding(GUARDS[t][2])]
        if not corr and open_f:
            for fid in open_f:
                ctx.coverage.setdefault('known_hits', {}).setdefault(fid, 0)
                ctx.coverage['known_hits'][fid] += 1
            status = 'known'
        elif not corr and gfalse and all(GUARDS[t][1] == 'class' for t in gfalse):
            status = 'outside_class'       # documentation silent there: the reference reader is not defined
        else:
            ctx.violation(TAGS[11], {'spec': spec, 'tags': sorted(tags), 'tag_meaning': TAGS[11],
                                     'guard_false': [GUARDS[t][0] for t in gfalse]})
            status = 'violation'
    if corr and status != 'violation':
        ctx.broken.append('correspondence C13 model vs implementation: ' + ', '.join(TAGS[t] for t in corr)
                          + ' on ' + json.dumps(spec)[:600])
        ctx.coverage.setdefault('corr_disagreements', []).append({'spec': spec, 'tags': sorted(tags)})
        status = 'broken'
    return status


def classify_cycle(ctx, spec, tags, info):
    tags = set(tags)
    prop = sorted(t for t in tags if t in (21, 22, 23, 24, 26))
    gfalse = [t for t in tags if t in CYCLE_GUARDS]
    corr = [t for t in tags if t in CYCLE_CORR]
    if prop:
        open_f = [CYCLE_GUARDS[t][2] for t in gfalse if CYCLE_GUARDS[t][1] == 'finding' and ctx.open_finding(CYCLE_GUARDS[t][2])]
        if not corr and open_f:
            for fid in open_f:
                ctx.coverage.setdefault('known_hits', {}).setdefault(fid, 0)
                ctx.coverage['known_hits'][fid] += 1
            return 'known'
        if not corr and gfalse and all(CYCLE_GUARDS[t][1] == 'class' for t in gfalse):
            return 'outside_class'
        ctx.violation(TAGS[prop[0]], {'cycle_spec': spec, 'tags': sorted(tags), 'info': info})
        return 'violation'
    if corr:
        ctx.broken.append('correspondence C13 update_source/update_input model vs implementation (' +
                          ', '.join(TAGS[t] for t in corr) + ') on ' + json.dumps(spec)[:400])
        return 'broken'
    return 'ok'


def run_specs(ctx, specs, label, mutate=None):
    datadir = ctx.rundir / 'data'
    datadir.mkdir(exist_ok=True)
    terms, kept, infos, skipped = [], [], [], {}
    for k, spec in enumerate(specs):
        try:
            term, info = observe(spec, datadir, f'{label}{k}', mutate)
        except Skip as e:
            skipped[str(e)] = skipped.get(str(e), 0) + 1
            continue
        terms.append(term)
        kept.append(spec)
        infos.append(info)
    verdicts = ctx.run_cases(label, IMPORTS, 'case', terms, 'verdict', shard=80) if terms else []
    return kept, verdicts, infos, skipped


def finding_probes(ctx):
    for f in ctx.findings:
        if f.get('status') != 'open':
            continue
        if 'time_spec' in f['witness']:
            term, _ = time_observe(f['witness']['time_spec'], ctx.rundir / 'time-finding', 0)
            tags = set(ctx.run_cases('finding-' + f['id'], IMPORTS + ' C13.Time', 'tcase', [term], 'time_verdict')[0])
            if {f['expect_tag'], f['guard_tag']} <= tags and not (tags & set(TIME_CORR)):
                ctx.known(f['id'])
            else:
                ctx.notes.append(f"finding_not_reproduced {f['id']} (tags {sorted(tags)})")
            continue
        if 'cycle_spec' in f['witness']:
            term, _, _ = cycle_observe(f['witness']['cycle_spec'], ctx.rundir / 'cycle-finding', 0)
            tags = set(ctx.run_cases('finding-' + f['id'], IMPORTS, 'cycle_case', [term], 'cycle_verdict')[0])
            if {f['expect_tag'], f['guard_tag']} <= tags and not (tags & set(CYCLE_CORR)):
                ctx.known(f['id'])
            else:
                ctx.notes.append(f"finding_not_reproduced {f['id']} (tags {sorted(tags)})")
            continue
        kept, verdicts, _, _ = run_specs(ctx, [f['witness']], 'finding-' + f['id'])
        tags = set(verdicts[0]) if verdicts else set()
        need = {f['expect_tag'], f.get('guard_tag', f['expect_tag'])}
        if need <= tags and not (tags & set(CORR)):
            ctx.known(f['id'])
        else:
            ctx.notes.append(f"finding_not_reproduced {f['id']} (tags {sorted(tags)})")


def run_cycles(ctx, n):
    specs = [gen_cycle_spec(ctx.rng) for _ in range(n)]
    terms, kept, infos, readcases = [], [], [], []
    for k, spec in enumerate(specs):
        try:
            term, readcase, info = cycle_observe(spec, ctx.rundir / 'cycle', k)
        except Skip:
            continue
        terms.append(term)
        kept.append(spec)
        infos.append(info)
        readcases.append(readcase)
    verdicts = ctx.run_cases('cycle', IMPORTS, 'cycle_case', terms, 'cycle_verdict', shard=100) if terms else []
    bad = 0
    cstats = {}
    for spec, tags, info in zip(kept, verdicts, infos):
        st = classify_cycle(ctx, spec, tags, info)
        cstats[st] = cstats.get(st, 0) + 1
        bad += st == 'violation'
    ctx.coverage['cycle_status'] = cstats
    routes = {}
    for i in infos:
        key = f"{i.get('route')}/{i.get('start')}"
        routes[key] = routes.get(key, 0) + 1
    ctx.coverage['cycle_routes'] = routes
    # the written csv + generated $INPUT/$DATA through the model and the reference reader: ties the printer
    # hypothesis of write_read_cycle (clean tokens that read back) to the real to_csv output
    rc = [(s, t) for s, t in zip(kept, readcases) if t is not None]
    rverdicts = ctx.run_cases('cycle-read', IMPORTS, 'case', [t for _, t in rc], 'verdict', shard=100) if rc else []
    rbad = 0
    for (spec, _), tags in zip(rc, rverdicts):
        if any(t in CORR or t == 11 for t in tags):
            rbad += 1
            ctx.violation('written dataset: ' + TAGS[[t for t in tags if t in CORR or t == 11][0]],
                          {'cycle_spec': spec, 'tags': tags})
    ctx.coverage['cycle_read_cases'] = {'cases': len(rc), 'failed': rbad,
                                        'guard_true': sum(1 for v in rverdicts if not any(t in GUARDS for t in v))}
    ctx.coverage['cycle'] = {'cases': len(kept), 'failed': bad,
                             'rule': 'start models without and WITH text/numeric IGNORE/ACCEPT lists (all operators; values 1, 1.0, 01, 1e0), routes '
                                     'set_dataset(new df | same df) + write_model, write_csv + write_model(force=True|False), plain write_model; '
                                     're-read of the written files == in-memory dataset, compared exactly inside Coq'}
    return len(kept)


# ------------------------------------------------------------------ TIME / DATE translation
TIME_TAGS = {31: 'translate_nmtran_time differs from the binary64 model (exact comparison of the doubles)',
             36: 'translate_nmtran_time differs from the exact-rational model by more than 1e-9 h',
             34: 'translated TIME differs from hours since the first record by the calendar',
             35: 'translated TIME is not within 4 ulp of the calendar difference'}
TIME_GUARDS = {221: ('g_three_parts', 'finding', 'C13-DATE-TWO-PART'), 222: ('g_has_date', 'finding', 'C13-TIME-CLOCK-NO-DATE'),
               223: ('g_no_daynum', 'finding', 'C13-DATE-DAYNUM-ABSOLUTE')}
TIME_CORR = (31, 36)


def gen_time_spec(rng, malformed=False):
    col = rng.choice(['DATE', 'DATE', 'DAT1', 'DAT2', 'DAT3', None])
    kind = rng.choice(['full', 'full', 'full', 'full', 'daynum', 'two'] if col else ['none'])
    if kind == 'two' and not malformed and rng.random() < 0.5:
        kind = 'full'
    sep = rng.choice(['/', '-', '.', '/'])
    rows = []
    ident = 1
    y, m, d = rng.choice([1999, 2000, 2001, 2019, 2020, 2023, 1951, 2049]), rng.choice([1, 2, 2, 3, 6, 12, 12]), rng.choice([1, 15, 27, 28])
    dn = rng.choice([0, 1, 5])
    import datetime
    cur = datetime.date(y, m, d)
    two_digit = rng.random() < 0.3
    for i in range(rng.choice([2, 3, 4, 5, 6])):
        if i and rng.random() < 0.3:
            ident += 1
        cur = cur + datetime.timedelta(days=rng.choice([0, 0, 1, 1, 2, 30, 365]))
        dn += rng.choice([0, 1, 2])
        yy = str(cur.year % 100).zfill(rng.choice([1, 2])) if two_digit and 1951 <= cur.year <= 2050 else str(cur.year)
        mm = str(cur.month).zfill(rng.choice([1, 2]))
        dd = str(cur.day).zfill(rng.choice([1, 2]))
        if kind == 'daynum':
            date = str(dn) if rng.random() < 0.9 else '-1'
        elif kind == 'two':
            date = sep.join([mm, dd] if col in ('DATE', 'DAT2') else [dd, mm])
        else:
            order = {'DATE': [mm, dd, yy], 'DAT1': [dd, mm, yy], 'DAT2': [yy, mm, dd], 'DAT3': [yy, dd, mm]}[col or 'DATE']
            date = sep.join(order)
            if malformed and rng.random() < 0.15:
                date = rng.choice(['2/30/2020', '13/1/2020', '1/2/3/4', '1//2020', 'x/1/2020', '0/1/2020'])
        h = rng.choice([0, 1, 7, 12, 12, 23])
        mi = rng.choice([0, 10, 20, 30, 40, 45, 59, 7])
        tm = rng.choice([f'{h}:{mi:02d}', f'{h:02d}:{mi:02d}', f'{h}:{mi}', str(h), f'{h}.5', f'{h}.25'])
        if malformed and rng.random() < 0.1:
            tm = rng.choice([f'{h}:{mi:02d}:30', '25:00', 'abc', '-1', '24:00'])
        if col is None and i == 0:
            tm = f'{h}:{mi:02d}'                       # at least one clock time: TIME stays text
        rows.append([str(ident), tm, date, str(rng.choice([1, 2, 3]))])
    drop = rng.random() < 0.7
    return {'datecol': col, 'drop': drop, 'rows': rows}


def time_observe(spec, workdir, idx):
    from pharmpy.modeling import read_model_from_string, translate_nmtran_time
    d = Path(workdir)
    d.mkdir(parents=True, exist_ok=True)
    col = spec['datecol']
    p = d / f't{idx}.csv'
    if col:
        p.write_text(''.join(','.join([r[0], r[2], r[1], r[3]]) + '\n' for r in spec['rows']))
        inp = f"ID {col}{'=DROP' if spec['drop'] else ''} TIME DV"
    else:
        p.write_text(''.join(','.join([r[0], r[1], r[3]]) + '\n' for r in spec['rows']))
        inp = 'ID TIME DV'
    code = f"$PROBLEM c13\n$INPUT {inp}\n$DATA {p}\n" + CODE_TAIL
    with warnings.catch_warnings():
        warnings.simplefilter('ignore')
        try:
            m = read_model_from_string(code)
            df = m.dataset
        except Exception as e:
            raise Skip('time start model does not read: ' + type(e).__name__)
        ids = [F(float(x)) for x in df['ID'].tolist()]
        times = [x if isinstance(x, str) else None for x in df['TIME'].tolist()]
        if any(t is None for t in times):
            raise Skip('TIME column already numeric')
        dates = [str(x) for x in df[col].tolist()] if col else ['' for _ in times]
        try:
            m2 = translate_nmtran_time(m)
            obs = '(Ok ' + ct.lst([cell_term(v) for v in m2.dataset['TIME'].tolist()]) + ')'
            outcome = 'ok'
        except Exception as e:
            obs = err_term(e)
            outcome = type(e).__name__
    term = ('(mkT ' + ct.opt(None if col is None else s_term(col)) + ' ' + ct.lst([ct.q(i) for i in ids]) + ' '
            + ct.lst([s_term(t) for t in times]) + ' ' + ct.lst([s_term(x) for x in dates]) + ' ' + obs + ')')
    return term, {'outcome': outcome, 'col': col}


def run_times(ctx, n, nm):
    regs = [json.loads(p.read_text()) for p in sorted((VERIF / 'regress' / 'C13').glob('*.json'))]
    specs = [r['time_spec'] for r in regs if 'time_spec' in r] + [gen_time_spec(ctx.rng) for _ in range(n)] + [gen_time_spec(ctx.rng, malformed=True) for _ in range(nm)]
    terms, kept, infos, skipped = [], [], [], 0
    for k, spec in enumerate(specs):
        try:
            term, info = time_observe(spec, ctx.rundir / 'time', k)
        except Skip:
            skipped += 1
            continue
        terms.append(term)
        kept.append(spec)
        infos.append(info)
    verdicts = ctx.run_cases('time', IMPORTS + ' C13.Time', 'tcase', terms, 'time_verdict', shard=200) if terms else []
    stats = {}
    for spec, tags in zip(kept, verdicts):
        st = classify_time(ctx, spec, tags)
        stats[st] = stats.get(st, 0) + 1
    outcomes = {}
    for i in infos:
        outcomes[i['outcome']] = outcomes.get(i['outcome'], 0) + 1
    ctx.coverage['time'] = {'cases': len(kept), 'skipped': skipped, 'status': stats, 'outcomes': outcomes,
                            'rule': 'ID/TIME/DATE files: DATE, DAT1, DAT2, DAT3 (dropped or not) with 3-part dates (/, -, . separators, '
                                    '2- and 4-digit years, leap days, year ends), day numbers, two-part dates, no date column; hh:mm, h:m, '
                                    'decimal hours; malformed stream (invalid dates, hh:mm:ss, 24:00); translate_nmtran_time compared with '
                                    'the binary64 model (exact equality of the doubles), the exact-rational model (1e-9 h) and the calendar specification'}
    return len(kept)


def classify_time(ctx, spec, tags):
    tags = set(tags)
    corr = [t for t in tags if t in TIME_CORR]
    status = 'ok'
    for prop, guards in ((34, (221, 222, 223)), (35, ())):
        if prop not in tags:
            continue
        open_f = [TIME_GUARDS[t][2] for t in guards if t in tags and ctx.open_finding(TIME_GUARDS[t][2])]
        if not corr and open_f:
            for fid in open_f:
                ctx.coverage.setdefault('known_hits', {}).setdefault(fid, 0)
                ctx.coverage['known_hits'][fid] += 1
            status = 'known'
        else:
            ctx.violation(TIME_TAGS[prop], {'time_spec': spec, 'tags': sorted(tags)})
            return 'violation'
    if corr:
        ctx.broken.append('correspondence C13 translate_nmtran_time model vs implementation (' + ', '.join(TIME_TAGS[t] for t in corr)
                          + ') on ' + json.dumps(spec)[:400])
        return 'broken'
    return status


# ------------------------------------------------------------------ $PK control streams: filter_observations
PK_TAIL = "$SUBROUTINE ADVAN1 TRANS2\n$PK\nCL=THETA(1)*EXP(ETA(1))\nV=THETA(2)\nS1=V\n$ERROR\nY=F+EPS(1)\n$THETA 1\n$THETA 1\n$OMEGA 1\n$SIGMA 1\n"


def gen_pk_spec(rng):
    cols = ['ID', 'TIME', rng.choice(['AMT', 'AMT', 'DOSE=AMT', 'AMT=DOSE']), 'DV']
    extra = rng.choice([['MDV'], ['EVID'], ['MDV', 'EVID'], ['EVID', 'MDV'], [], ['MDV=DROP'], ['MDV=DROP', 'EVID']])
    cols += extra
    if rng.random() < 0.3:
        cols.insert(rng.randrange(1, len(cols)), rng.choice(['WGT', 'SEX=DROP']))
    if rng.random() < 0.05:
        cols = [c for c in cols if 'AMT' not in c]
    if rng.random() < 0.05:
        cols[0] = rng.choice(['ID=DROP', 'SUBJ'])
    lines = []
    ident = 1
    for _ in range(rng.choice([2, 3, 4, 5, 6, 8])):
        row = []
        for c in cols:
            nm = c.split('=')[0]
            if nm in ('ID', 'SUBJ'):
                row.append(str(ident))
            elif nm in ('MDV', 'EVID'):
                row.append(rng.choice(['0', '1', '0', '1', '1', '.', '2']) if nm == 'EVID' else rng.choice(['0', '1', '1', '1', '.']))
            elif 'AMT' in c:
                row.append(rng.choice(['0', '100', '0', '.', '50.5']))
            elif nm == 'SEX':
                row.append(rng.choice(['m', 'f']))
            else:
                row.append(rng.choice(['0', '1', '2.5', '10', '1d1', '.']))
        lines.append(rng.choice([',', ',', ' ']).join(row))
        if rng.random() < 0.5:
            ident += 1
    opts = rng.choice(['', '', 'IGNORE=(DV.EQN.10)', 'NULL=1', 'IGNORE=@'])
    return {'text': '\n'.join(lines) + '\n', 'input': ' '.join(cols), 'dataopts': opts, 'pk': True}


def observe_pk(spec, datadir, idx):
    from pharmpy.model.external.nonmem.nmtran_parser import NMTranParser
    from pharmpy.model.external.nonmem.parsing import parse_datainfo, parse_dataset
    p = Path(datadir) / f'pk{idx}.csv'
    p.write_bytes(spec['text'].encode('latin-1'))
    code = f"$PROBLEM c13\n$INPUT {spec['input']}\n$DATA {p} {spec['dataopts']}\n" + PK_TAIL
    in_term, info = input_term_from_code(code, spec['text'])
    with warnings.catch_warnings():
        warnings.simplefilter('ignore')
        try:
            cs = NMTranParser().parse(code)
            di = parse_datainfo(cs, None)
            df = parse_dataset(di, cs)
            obs = table_term(df)
            info['outcome'] = 'ok'
            info['rows'] = len(df)
        except Skip:
            raise
        except Exception as e:
            obs = err_term(e)
            info['outcome'] = type(e).__name__
    return f'(mkCase {in_term}\n  {obs})', info


def run_pk(ctx, n):
    datadir = ctx.rundir / 'pk'
    datadir.mkdir(exist_ok=True)
    specs = [gen_pk_spec(ctx.rng) for _ in range(n)]
    terms, kept, infos = [], [], []
    for k, spec in enumerate(specs):
        try:
            term, info = observe_pk(spec, datadir, k)
        except Skip:
            continue
        terms.append(term)
        kept.append(spec)
        infos.append(info)
    verdicts = ctx.run_cases('pk', IMPORTS + ' C13.Pk', 'case', terms, 'pk_verdict', shard=100) if terms else []
    stats = {}
    for spec, tags in zip(kept, verdicts):
        st = classify(ctx, spec, tags)
        stats[st] = stats.get(st, 0) + 1
    outcomes = {}
    for i in infos:
        outcomes[i['outcome']] = outcomes.get(i['outcome'], 0) + 1
    ctx.coverage['pk'] = {'cases': len(kept), 'status': stats, 'outcomes': outcomes,
                          'rule': '$PK control streams read through parse_datainfo + parse_dataset (read_nonmem_dataset + filter_observations): '
                                  'MDV / EVID / AMT (synonym) label columns present, absent or dropped; compared with read_model_pk and spec_read_pk'}
    return len(kept)


# ------------------------------------------------------------------ raw mode (Model.read_raw_dataset)
def raw_table_term(df):
    cols = []
    for j, name in enumerate(df.columns):
        label = name if isinstance(name, str) else ''            # surplus columns have no name
        cols.append(ct.pair(s_term(label), ct.lst([cell_term(v) for v in df.iloc[:, j].tolist()])))
    return f'(Ok {ct.lst(cols)})'


def observe_raw(spec, datadir, idx):
    from pharmpy.model.external.nonmem.nmtran_parser import NMTranParser
    from pharmpy.model.external.nonmem.parsing import parse_datainfo, parse_dataset
    p = Path(datadir) / f'raw{idx}.csv'
    for ch in spec['text']:
        if ord(ch) > 255:
            raise Skip('non latin-1 text')
    p.write_bytes(spec['text'].encode('latin-1'))
    code = control_stream(spec, p)
    in_term, info = input_term_from_code(code, spec['text'])
    with warnings.catch_warnings():
        warnings.simplefilter('ignore')
        try:
            cs = NMTranParser().parse(code)
            di = parse_datainfo(cs, None)
            df = parse_dataset(di, cs, raw=True)
            obs = raw_table_term(df)
            info['outcome'] = 'ok'
        except Skip:
            raise
        except Exception as e:
            obs = err_term(e)
            info['outcome'] = type(e).__name__
    return f'(mkCase {in_term}\n  {obs})', info


def run_raw(ctx, n, nm):
    datadir = ctx.rundir / 'raw'
    datadir.mkdir(exist_ok=True)
    specs = [gen_spec(ctx.rng) for _ in range(n)] + [gen_spec(ctx.rng, malformed=True) for _ in range(nm)]
    terms, kept, infos = [], [], []
    for k, spec in enumerate(specs):
        try:
            term, info = observe_raw(spec, datadir, k)
        except Skip:
            continue
        terms.append(term)
        kept.append(spec)
        infos.append(info)
    verdicts = ctx.run_cases('raw', IMPORTS + ' C13.Raw', 'case', terms, 'raw_verdict', shard=100) if terms else []
    stats = {}
    for spec, tags in zip(kept, verdicts):
        st = classify(ctx, spec, tags)
        stats[st] = stats.get(st, 0) + 1
    outcomes = {}
    for i in infos:
        outcomes[i['outcome']] = outcomes.get(i['outcome'], 0) + 1
    ctx.coverage['raw'] = {'cases': len(kept), 'status': stats, 'outcomes': outcomes,
                           'rule': 'the generated data files of the main tie read with parse_dataset(raw=True) (Model.read_raw_dataset), '
                                   'compared with read_raw and spec_raw'}
    return len(kept)


def run_enumerations(ctx):
    """Exhaustive small-scope ties: every string over a small alphabet up to a length bound."""
    import itertools
    import re as _re
    from pharmpy.model.external.nonmem.dataset import convert_fortran_number
    quick = ctx.tier == 'quick'
    alpha = '12.+-ed_' if quick else '01.+-eDd_'
    maxlen = 4 if quick else 5
    terms, strs = [], []
    for L in range(0, maxlen + 1):
        for tup in itertools.product(alpha, repeat=L):
            st = ''.join(tup)
            try:
                v = float(convert_fortran_number(st))
                if math.isnan(v) or math.isinf(v):
                    continue
                obs = ct.opt(ct.q(F(v)))
            except ValueError:
                obs = 'None'
            terms.append(ct.pair(s_term(st), obs))
            strs.append(st)
    verdicts = ctx.run_cases('enum-convert', IMPORTS, 'str * option Q', terms, 'conv_verdict', shard=3000)
    bad = [st for st, v in zip(strs, verdicts) if v]
    for st in bad[:3]:
        ctx.broken.append(f'convert_fortran_number({st!r}) differs from the model')
    nconv = len(strs)
    sep = _re.compile(r' *, *| *[\t] *| +')
    alpha2 = ' ,\ta' if quick else ' ,\tab'
    maxlen2 = 6 if quick else 7
    terms, strs = [], []
    for L in range(1, maxlen2 + 1):
        for tup in itertools.product(alpha2, repeat=L):
            st = ''.join(tup)
            items = sep.split(st.strip())
            terms.append(ct.pair(s_term(st), ct.lst([s_term(x) for x in items])))
            strs.append(st)
    verdicts = ctx.run_cases('enum-split', IMPORTS, 'str * list str', terms, 'split_verdict', shard=3000)
    for st, v in zip(strs, verdicts):
        if 6 in v:
            ctx.broken.append(f're.split of {st!r} differs from the model')
            break
    for st, v in zip(strs, verdicts):
        if 12 in v:
            ctx.violation('a row is split differently from the documented delimiter rules', {'row': st, 'tags': v})
            break
    ctx.coverage['enumerations'] = {
        'convert': {'alphabet': alpha, 'max_length': maxlen, 'strings': nconv, 'disagreements': len(bad)},
        'split': {'alphabet': repr(alpha2), 'max_length': maxlen2, 'strings': len(strs),
                  'disagreements': sum(1 for v in verdicts if v)}}
    return nconv + len(strs)


def dedupe_findings(ctx):
    """known_findings.d/C13.json holds UPDATED entries (same ids): the later entry of an id wins, as in the maintainer's merge."""
    byid = {}
    for f in ctx.findings:
        byid[f['id']] = f
    ctx.findings = list(byid.values())


def run(ctx):
    dedupe_findings(ctx)
    ctx.build_gate(['C13'])
    ctx.trusted += [
        'harness/props/c13.py: generator, export of the real parsed $INPUT/$DATA records and of DataFrame cells '
        '(Fraction(float)) to Gallina terms; harness/lib/coqterm.py',
        'C13/Spec.v: the reference reader written from docs/NONMEM.rst (must be audited)',
        'C13/Check.v double_ok: a double d matches an exact decimal q iff |q-d| <= ulp(d)/2',
        'engine contracts modelled in C13/Model.v and validated by the correspondence: re.sub/re.search/re.split/re.match '
        'on the four fixed patterns, float() of decimal literals, pandas read_table python engine (strip, blank rows, '
        'width of first row), DataFrame.query comparisons, astype(int32) truncation, lark parse of the filter strings',
    ]
    ctx.assumptions += [
        'items containing letters other than eEdD that Python float() accepts (nan, inf, infinity), non-ASCII digits and '
        'non-ASCII whitespace are outside the modelled alphabet (not generated)',
        'filter expressions containing a quote character, a sign or a leading zero (DataFrame.query parses them as Python '
        'source), int32 overflow of ID/L1/DVID and duplicate dropped column names are outside the model (not generated)',
        'numeric IGNORE/ACCEPT comparisons: the model rounds both sides to binary64 (round_double, nearest-even) as DataFrame.query '
        'does; overflow to inf and subnormals are outside; int32 columns (ID, L1, DVID) are modelled for |value| < 2**31',
        'TIME/DATE translation: the float arithmetic of the code (h + m/60, one rounding to whole nanoseconds, total_seconds()/3600) '
        'is modelled in binary64 (every operation = round_double of the exact result) and tied by exact equality of the doubles; '
        'the calendar theorems read the result as an exact rational (tolerance 1e-9 h in that reading only); overflow, subnormals '
        'and years outside 1678-2261 (pandas Timestamp range) are outside the model',
        'a dropped TIME column is not covered; DATE/DAT1-3 columns (dropped or kept) are inside reader_refines: they stay text and '
        'keep TIME as text; the write/read cycle is stated without DATE columns; translate_nmtran_time is modelled separately (Time.v)',
        'float printing of DataFrame.to_csv (repr of a double) is an engine: the write/read cycle is an oracle, its theorem '
        'is stated for any printer whose output float() reads back exactly',
    ]
    ctx.coverage['source_sha'] = source_sha('src/pharmpy/model/external/nonmem/dataset.py',
                                            'src/pharmpy/model/external/nonmem/parsing.py',
                                            'src/pharmpy/model/external/nonmem/records/data_record.py',
                                            'src/pharmpy/modeling/write_csv.py')
    finding_probes(ctx)
    reg = sorted((VERIF / 'regress' / 'C13').glob('*.json'))
    specs = [json.loads(p.read_text()) for p in reg]
    specs = [s['spec'] if 'spec' in s else s for s in specs if 'time_spec' not in s]
    nreg = len(specs)
    n = 700 if ctx.tier == 'quick' else 6000
    nm = 150 if ctx.tier == 'quick' else 1500
    specs += [gen_spec(ctx.rng) for _ in range(n)]
    specs += [gen_spec(ctx.rng, malformed=True) for _ in range(nm)]
    kept, verdicts, infos, skipped = run_specs(ctx, specs, 'gen')
    stats = {}
    for spec, tags in zip(kept, verdicts):
        st = classify(ctx, spec, tags)
        stats[st] = stats.get(st, 0) + 1
    ncyc = run_cycles(ctx, 90 if ctx.tier == 'quick' else 500)
    nenum = run_enumerations(ctx)
    nraw = run_raw(ctx, 100 if ctx.tier == 'quick' else 1200, 30 if ctx.tier == 'quick' else 300)
    npk = run_pk(ctx, 100 if ctx.tier == 'quick' else 1000)
    ntime = run_times(ctx, 110 if ctx.tier == 'quick' else 1200, 40 if ctx.tier == 'quick' else 400)
    ctx.coverage['evaluations'] = len(kept) + ncyc + nenum + ntime + npk + nraw
    distinct = {json.dumps(s, sort_keys=True) for s, i in zip(kept, infos) if i.get('rows', 0) >= 1 and i['ncols'] >= 2}
    ctx.coverage['distinct_nontrivial'] = len(distinct)
    ctx.coverage['rule'] = ('data files generated from the documented lexical forms (number forms, delimiters, NULL items, '
                            'comment / blank lines) x $INPUT lists (DROP/SKIP, synonyms, fewer/more columns) x $DATA options '
                            '(IGNORE=c, NULL=c, IGNORE/ACCEPT lists) from VERIF_SEED, plus a malformed stream; non-trivial = read '
                            'succeeded with >= 1 row and >= 2 columns; distinct by spec text')
    ctx.coverage['case_status'] = stats
    outcomes = {}
    for i in infos:
        outcomes[i['outcome']] = outcomes.get(i['outcome'], 0) + 1
    gf = {}
    for v in verdicts:
        for t in v:
            if t in GUARDS:
                gf[GUARDS[t][0]] = gf.get(GUARDS[t][0], 0) + 1
    ctx.coverage['input_distribution'] = {
        'regression_cases': nreg, 'generated': n, 'malformed_stream': nm, 'skipped': skipped,
        'outcomes': outcomes, 'guard_conjunct_false': gf,
        'guard_true': sum(1 for v in verdicts if not any(t in GUARDS for t in v)),
        'with_filters': sum(1 for i in infos if i['nfilters']),
        'rows_hist': {str(k): sum(1 for i in infos if i.get('rows') == k) for k in sorted({i.get('rows', -1) for i in infos})},
        'ncols_hist': {str(k): sum(1 for i in infos if i['ncols'] == k) for k in sorted({i['ncols'] for i in infos})},
        'oracle_disagreements': sum(1 for v in verdicts if 11 in v),
    }
    ctx.coverage['samples'] = [{'spec': s, 'tags': v} for s, v in list(zip(kept, verdicts))[:4]]


def replay(ctx, rep):
    dedupe_findings(ctx)
    if 'time_spec' in rep:
        term, info = time_observe(rep['time_spec'], ctx.rundir / 'time', 0)
        tags = ctx.run_cases('replay', IMPORTS + ' C13.Time', 'tcase', [term], 'time_verdict')[0]
        print('time spec', json.dumps(rep['time_spec']), info)
        print('tags', tags)
        corr = set(tags) & set(TIME_CORR)
        excused = not corr and any(t in TIME_GUARDS and ctx.open_finding(TIME_GUARDS[t][2]) for t in tags)
        return 1 if (corr or ((34 in tags or 35 in tags) and not excused)) else 0
    if 'cycle_spec' in rep:
        term, readcase, info = cycle_observe(rep['cycle_spec'], ctx.rundir / 'cycle', 0)
        tags = ctx.run_cases('replay', IMPORTS, 'cycle_case', [term], 'cycle_verdict')[0]
        excused = (not (set(tags) & set(CYCLE_CORR)) and any(t in CYCLE_GUARDS and CYCLE_GUARDS[t][1] == 'finding' and
                                                              ctx.open_finding(CYCLE_GUARDS[t][2]) for t in tags))
        tags = [t for t in tags if t in (21, 22, 23, 24, 25, 26, 27, 28)]
        if excused:
            print('explained by an open finding', tags)
            tags = []
        if readcase is not None:
            rt = ctx.run_cases('replay-read', IMPORTS, 'case', [readcase], 'verdict')[0]
            print('read-case tags', rt)
            tags = tags + [t for t in rt if t in CORR or t == 11]
        print('cycle spec', json.dumps(rep['cycle_spec']))
        print('info', info)
        print('tags', tags, [TAGS.get(t, t) for t in tags])
        return 1 if tags else 0
    spec = rep['spec']
    kept, verdicts, infos, skipped = run_specs(ctx, [spec], 'replay')
    if not verdicts:
        print('skipped', skipped)
        return 0
    tags = verdicts[0]
    print('spec', json.dumps(spec))
    print('outcome', infos[0])
    print('tags', tags, [TAGS.get(t) or GUARDS.get(t, (t,))[0] for t in tags])
    bad = any(t in CORR for t in tags)
    if 11 in tags:
        gfalse = [t for t in tags if t in GUARDS]
        if not any(GUARDS[t][1] == 'finding' and ctx.open_finding(GUARDS[t][2]) for t in gfalse) and \
                not (gfalse and all(GUARDS[t][1] == 'class' for t in gfalse)):
            bad = True
    return 1 if bad else 0
