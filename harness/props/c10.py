"""C10 — statement dataflow analyses are sound.
Model: coq/theories/C10 (Model.v, Check.v); theorems in Properties.v / Refuted.v.
Tie: correspondence of the hand-written model with pharmpy.model.statements.Statements on generated
straight-line programs, plus the property statements evaluated on the implementation's own answers."""
import json
from fractions import Fraction as F

import sympy

from harness.lib import coqterm as ct
from harness.lib import sym2coq as sc
from harness.lib.core import VERIF, source_sha
from harness.props import c10_unused as cu

LEVEL = 'proof'
LEAVES = ['T', 'U', 'V', 'W']
VARS = ['A', 'B', 'C', 'D', 'X', 'Y']
VALUES = [F(1), F(2), F(4), F(1, 2), F(-1), F(-2), F(3), F(8)]

TAGS = {
    1: 'find_assignment_index differs from model', 2: 'dependencies differs from model',
    3: 'full_expression differs from model', 4: 'reassign differs from model',
    5: 'remove_symbol_definitions differs from model', 6: 'subs differs from model',
    17: 'subs of never-assigned symbols is not the environment update',
    11: 'full_expression does not evaluate like sequential execution',
    12: 'dependencies omits a symbol the value depends on',
    13: 'dependencies not exact on a single-assignment program',
    14: 'dependencies raises an internal error',
    15: 'remove_symbol_definitions changes the value of a remaining output',
    16: 'remove_symbol_definitions removes a definition a remaining statement uses',
    27: 'reassign changes the value of a symbol that does not depend on the reassigned symbol',
    28: 'after reassign the symbol does not get the value of the new expression',
    29: 'subs renaming an assigned symbol to a fresh one is not a consistent renaming',
}
# oracle tag -> (correspondence tag that must be absent for the model to explain it, finding id)
ORACLE = {11: (3, None), 12: (2, 'C10-DEP-STALE'), 13: (2, 'C10-DEP-INEXACT'), 14: (2, 'C10-DEP-NXERROR'),
          15: (5, 'C10-RSD-EARLIER-USER'), 16: (5, 'C10-RSD-EARLIER-USER'), 17: (6, None),
          27: (4, None), 28: (4, None), 29: (6, None)}
# (all four findings are fixed in /repo: open_finding() is None for them, so any recurrence is a VIOLATION)


# ------------------------------------------------------------------ generator
def rexpr(rng, syms, depth, family='pw', incond=False):
    """Two disjoint families (see CONVENTIONS.md, "sympy folds numeric relationals with real arithmetic"):
    'tr' = transcendental functions allowed, no Piecewise; 'pw' = Piecewise with conditions, rational
    arithmetic only.  So a relational that sympy may fold to True/False is always exact rational."""
    if depth == 0 or rng.random() < 0.3:
        if rng.random() < 0.2:
            return str(rng.choice([1, 2, 3]))
        return rng.choice(syms)
    kinds = ['add', 'add', 'mul', 'mul', 'div', 'pow', 'neg']
    if family == 'tr':
        kinds += ['exp', 'log', 'sqrt']
    elif not incond:
        kinds += ['pw', 'pw']
    k = rng.choice(kinds)
    a, b = rexpr(rng, syms, depth - 1, family, incond), rexpr(rng, syms, depth - 1, family, incond)
    if k == 'add':
        return f'({a} + {b})'
    if k == 'mul':
        return f'({a})*({b})'
    if k == 'div':
        return f'({a})/({b})'
    if k == 'pow':
        return f'({a})**{rng.choice([2, 3, -1])}'
    if k == 'exp':
        return f'exp({a})'
    if k == 'log':
        return f'log({a})'
    if k == 'neg':
        return f'-({a})'
    if k == 'sqrt':
        return f'sqrt({a})'
    c, d = rexpr(rng, syms, depth - 1, family, True), rexpr(rng, syms, depth - 1, family, True)
    op = rng.choice(['<', '<=', '>', '>=', 'Eq', 'Ne'])
    cond = f'{op}({c}, {d})' if op in ('Eq', 'Ne') else f'({c}) {op} ({d})'
    return f'Piecewise(({a}, {cond}), ({b}, True))'


def gen_chain_spec(rng):
    """Structured family for remove_symbol_definitions: a definition chain of depth 1-3 whose head was
    dropped from the edited statement, with other users of chain members before and/or after it."""
    fam = 'pw'
    depth = rng.choice([1, 2, 2, 3])
    chain = rng.sample(VARS[:5], depth)            # chain[0] defined from leaves, chain[k] from chain[k-1]
    stmts = [[chain[0], rexpr(rng, LEAVES, 1, fam)]]
    for k in range(1, depth):
        stmts.append([chain[k], f'({chain[k - 1]})*({rng.choice(LEAVES)}) + {rng.choice([1, 2])}'])
    head = chain[-1]
    users_before = [[f'{x}', f'({rng.choice(chain)}) + {rng.choice(LEAVES)}'] for x in rng.sample(['X', 'Y'], rng.choice([0, 0, 1]))]
    edited = ['Y' if not users_before or users_before[0][0] != 'Y' else 'X', rexpr(rng, LEAVES, 1, fam)]
    users_after = [['D' if 'D' not in chain else 'X', f'({rng.choice(chain)}) + ({edited[0]})']] if rng.random() < 0.6 else []
    extra_redef = [[chain[0], rexpr(rng, LEAVES, 1, fam)]] if rng.random() < 0.2 else []
    body = stmts + users_before + extra_redef + [edited] + users_after
    ri = len(stmts) + len(users_before) + len(extra_redef)
    q = {'full': [edited[0]], 'reassign': [], 'rsd': [[[head], ri], [list(chain), ri]], 'subs': [], 'family': 'chain'}
    return {'stmts': body, 'queries': q}


def gen_ode_spec(rng):
    """Structured family for dependencies through the ODE system: definitions before the system that its
    rate reads, statements after it that read the amount, shadowing of an earlier symbol after the system."""
    fam = rng.choice(['pw', 'tr'])
    pre_vars = rng.sample(VARS[:4], rng.choice([1, 2, 2]))
    stmts, defined = [], []
    for v in pre_vars:
        stmts.append([v, rexpr(rng, LEAVES + defined, rng.choice([1, 2]), fam)])
        defined.append(v)
    stmts.append(['ODE', f'({rexpr(rng, LEAVES + defined, 1, fam)}) + {rng.choice(defined)}*{rng.choice(LEAVES)}'])
    amt = 'A_CENTRAL(t)'
    post = [['X', f'({amt})/({rexpr(rng, LEAVES, 1, fam)})']]
    if rng.random() < 0.6:
        v = rng.choice(pre_vars)
        post.append([v, rng.choice([f'{v} + 1', rexpr(rng, LEAVES, 1, fam), f'({amt})*{rng.choice(LEAVES)}'])])
    post.append(['Y', f'X + {rng.choice(pre_vars + LEAVES)}'])
    if rng.random() < 0.3:
        post.append(['X', rexpr(rng, LEAVES + ['Y'], 1, fam)])
    stmts += post
    q = {'full': ['Y'], 'reassign': [[rng.choice(pre_vars + ['X']), rexpr(rng, LEAVES + pre_vars, 1, fam)]],
         'rsd': [gen_rsd_query(rng, stmts)], 'subs': [], 'family': 'ode'}
    return {'stmts': stmts, 'queries': q}


def ode_uses_before_and_after(spec):
    st = spec['stmts']
    idx = [i for i, (l, _) in enumerate(st) if l == 'ODE']
    if not idx:
        return False
    i = idx[0]
    before = {l for l, _ in st[:i]}
    reads_def = any(sympy.Symbol(b) in sympy.sympify(st[i][1]).free_symbols for b in before)
    return reads_def and any('A_CENTRAL' in r for l, r in st[i + 1:] if l != 'ODE')


def gen_spec(rng):
    if rng.random() < 0.25:
        return gen_chain_spec(rng)
    if rng.random() < 0.12:
        return gen_ode_spec(rng)
    n = rng.choice([1, 2, 3, 3, 4, 5, 6, 7, 8, 10, 12])
    style = rng.choice(['ssa', 'free', 'free', 'redefine'])
    fam = rng.choice(['pw', 'tr'])
    stmts = []
    ode_at = rng.randrange(n) if rng.random() < 0.3 and n >= 3 else None
    defined = []
    pool = list(VARS)
    for i in range(n):
        if i == ode_at:
            stmts.append(['ODE', rexpr(rng, (defined or LEAVES) + LEAVES, 1, fam)])
            defined.append('A_CENTRAL(t)')
            continue
        if style == 'ssa':
            cand = [v for v in pool if v not in defined]
            if not cand:
                break
            lhs = rng.choice(cand)
            syms = LEAVES + defined
        elif style == 'redefine':
            lhs = rng.choice(pool[:4])
            syms = LEAVES + defined + ([lhs] if lhs in defined else [])
        else:
            lhs = rng.choice(pool)
            syms = LEAVES + pool + [d for d in defined if '(' in d]
        stmts.append([lhs, rexpr(rng, syms, rng.choice([1, 2, 2, 3]), fam)])
        if lhs not in defined:
            defined.append(lhs)
    allsyms = LEAVES + VARS + (['A_CENTRAL(t)'] if ode_at is not None and ode_at < len(stmts) else [])
    q = {
        'full': [rexpr(rng, allsyms, 1, fam) for _ in range(2)] + [s for s in VARS[:3]],
        'reassign': [[rng.choice(VARS), rexpr(rng, allsyms, 2, fam)] for _ in range(2)],
        'rsd': [gen_rsd_query(rng, stmts) for _ in range(3)],
        'subs': gen_subs(rng, fam),
        'family': fam,
    }
    return {'stmts': stmts, 'queries': q}


def gen_rsd_query(rng, stmts):
    ri = rng.randrange(len(stmts))
    before = sorted({l for l, _ in stmts[:ri] if l != 'ODE'})
    if before and rng.random() < 0.8:
        return [rng.sample(before, min(len(before), rng.choice([1, 1, 2]))), ri]
    return [rng.sample(VARS, rng.choice([1, 1, 2])), ri]


def gen_subs(rng, fam):
    keys = rng.sample(LEAVES, rng.choice([1, 2]))
    others = [x for x in LEAVES if x not in keys]
    leafmap = [[k, rexpr(rng, others + VARS[-2:], 1, fam)] for k in keys]     # non-recursive by construction
    rename = [[rng.choice(VARS), 'Z9']]                                   # renaming an assigned symbol
    return [leafmap, rename]


def enum_specs(maxlen=3):
    """Exhaustive small scope: every program of <= maxlen statements over lhs {A,B,X} and a 6-expression
    alphabet (use-before-def, self reference, redefinition, piecewise all occur)."""
    import itertools
    lhs = ['A', 'B', 'X']
    rhs = ['T', 'A', 'X + B', 'A*T', 'X', 'Piecewise((A, T > 1), (B, True))']
    out = []
    for n in range(1, maxlen + 1):
        for prog in itertools.product(itertools.product(lhs, rhs), repeat=n):
            stmts = [list(p) for p in prog]
            out.append({'stmts': stmts, 'queries': {
                'full': ['A + X'], 'reassign': [['A', 'B + 1']],
                'rsd': [[['A'], n - 1], [['X', 'B'], n - 1]],
                'subs': [[['T', 'U + 1']], [['A', 'Z9']]]}})
    return out


def gen_points(rng, names_list):
    pts = []
    for _ in range(6):
        pts.append({n: rng.choice(VALUES) for n in names_list})
    return pts


# ------------------------------------------------------------------ implementation side
def build(spec):
    from pharmpy.basic import Expr
    from pharmpy.model import (Assignment, Bolus, Compartment, CompartmentalSystem,
                               CompartmentalSystemBuilder, Statements, output)
    out = []
    for lhs, rhs in spec['stmts']:
        if lhs == 'ODE':
            cb = CompartmentalSystemBuilder()
            c = Compartment.create('CENTRAL', doses=(Bolus.create('AMT'),))
            cb.add_compartment(c)
            cb.add_flow(c, output, Expr(sympy.sympify(rhs)))
            out.append(CompartmentalSystem(cb))
        else:
            out.append(Assignment.create(lhs, Expr(sympy.sympify(rhs))))
    return Statements(out)


def stmt_term(st, names):
    from pharmpy.model import Assignment
    if isinstance(st, Assignment):
        return f"(Assign {names.p(str(sc.to_sympy(st.symbol)))} {sc.expr(st.expression, names)})"
    return f"(Ode {sc.symset(list(st.amounts), names)} {sc.symset(st.rhs_symbols, names)})"


def observe(spec, points_rng):
    """Run the implementation on a spec; returns (coq case term, info) or raises Unconvertible."""
    from pharmpy.basic import Expr
    from pharmpy.model import Assignment
    names = ct.Names()
    for n in LEAVES + VARS + ['t', 'AMT', 'A_CENTRAL(t)', 'Z9']:
        names.get(n)
    try:
        stmts = build(spec)
    except (TypeError, sympy.SympifyError) as e:   # input construction refused by Expr(): not a query failure
        raise sc.Unconvertible('build: ' + str(e)[:80])
    stmt_terms = [stmt_term(s, names) for s in stmts]
    info = {'n': len(stmts), 'errors': []}
    symbols = LEAVES + VARS + (['A_CENTRAL(t)'] if any(l == 'ODE' for l, _ in spec['stmts']) else [])
    finds, deps = [], []
    for s in symbols:
        if '(' not in s:
            finds.append(ct.pair(names.p(s), ct.opt(None if (i := stmts.find_assignment_index(s)) is None else ct.nat(i))))
        try:
            d = stmts.dependencies(s)
            deps.append(ct.pair(names.p(s), f"(Ok {sc.symset(d, names)})"))
        except KeyError:
            deps.append(ct.pair(names.p(s), "(Err KeyError)"))
        except Exception as e:  # internal error class
            info['errors'].append(type(e).__name__)
            deps.append(ct.pair(names.p(s), "(Err InternalError)"))
    fulls = []
    for e in spec['queries']['full']:
        ee = Expr(sympy.sympify(e))
        try:
            r = stmts.full_expression(ee)
            fulls.append(ct.pair(sc.expr(ee, names), ct.opt(sc.expr(r, names))))
        except ValueError:
            fulls.append(ct.pair(sc.expr(ee, names), "None"))
    reas = []
    for s, e in spec['queries']['reassign']:
        ee = Expr(sympy.sympify(e))
        r = stmts.reassign(s, ee)
        reas.append(ct.tup(names.p(s), sc.expr(ee, names), ct.lst([stmt_term(x, names) for x in r])))
    rsds = []
    for syms, ri in spec['queries']['rsd']:
        st = stmts[ri]
        ri = list(stmts).index(st)
        syms = [s for s in syms if Expr.symbol(s) not in st.rhs_symbols]
        if not syms:
            continue
        r = stmts.remove_symbol_definitions([Expr.symbol(s) for s in syms], st)
        removed, j = [], 0
        for i in range(len(stmts)):
            if j < len(r) and r[j] is stmts[i]:
                j += 1
            else:
                removed.append(i)
        assert j == len(r)
        rsds.append(ct.tup(ct.lst([names.p(s) for s in syms]), ct.nat(ri), ct.lst([ct.nat(i) for i in removed])))
        info.setdefault('rsd_removed', []).append(len(removed))
    subsq = []
    for pairs in spec['queries'].get('subs', []):
        if any(l == 'ODE' for l, _ in spec['stmts']):
            break    # CompartmentalSystem.subs belongs to C05
        m = {Expr.symbol(k): Expr(sympy.sympify(v)) for k, v in pairs}
        r = stmts.subs(m)
        subsq.append(ct.pair(ct.lst([ct.pair(names.p(k), sc.expr(v, names)) for k, v in m.items()]),
                             ct.lst([stmt_term(x, names) for x in r])))
    pts = gen_points(points_rng, LEAVES + VARS + ['t', 'AMT', 'A_CENTRAL(t)', 'Z9'])
    envs = ct.lst([sc.env(p, names) for p in pts])
    term = ("(mkCase " + ct.lst(stmt_terms) + "\n  " + ct.lst(finds) + "\n  " + ct.lst(deps) + "\n  " + ct.lst(fulls)
            + "\n  " + ct.lst(reas) + "\n  " + ct.lst(rsds) + "\n  " + ct.lst(subsq) + "\n  " + envs + ")")
    info['nqueries'] = len(finds) + len(deps) + len(fulls) + len(reas) + len(rsds) + len(subsq)
    return term, info


# ------------------------------------------------------------------ classification
def classify(ctx, spec, tags, info):
    """Returns 'ok' | 'known' | 'violation' | 'broken' and reports."""
    tags = set(tags)
    corr = sorted(t for t in tags if t in (1, 2, 3, 4, 5, 6))
    oracle = sorted(t for t in tags if t in ORACLE)
    status = 'ok'
    for t in oracle:
        need_absent, fid = ORACLE[t]
        explained = need_absent not in tags
        guard_ok = True
        if t == 12:
            guard_ok = 201 in tags          # only excused when g_def_before_use is false
        if explained and guard_ok and fid and ctx.open_finding(fid):
            ctx.coverage.setdefault('known_hits', {}).setdefault(fid, 0)
            ctx.coverage['known_hits'][fid] += 1
            if status == 'ok':
                status = 'known'
        else:
            ctx.violation(TAGS[t], {'spec': spec, 'tags': sorted(tags), 'tag_meaning': TAGS[t]})
            status = 'violation'
    if corr and status != 'violation':
        ctx.broken.append('correspondence C10 model vs implementation: ' + ', '.join(TAGS[t] for t in corr)
                          + ' on ' + json.dumps(spec['stmts']))
        ctx.coverage.setdefault('corr_disagreements', []).append({'spec': spec, 'tags': sorted(tags)})
        status = 'broken'
    return status


def run_specs(ctx, specs, label):
    terms, kept, infos = [], [], []
    skipped = 0
    prng = __import__('random').Random(f'{ctx.seed}-{label}-pts')
    for spec in specs:
        try:
            term, info = observe(spec, prng)
        except (sc.Unconvertible, ZeroDivisionError) as e:
            # sympy produced zoo/nan or a node outside the modelled fragment: skipped and counted
            skipped += 1
            continue
        except TypeError as e:
            # sympy refuses to order complex constants (log of a negative literal inside a condition): engine
            if 'Invalid comparison' not in str(e) and 'Cannot convert input to Expr' not in str(e):
                raise
            ctx.coverage['skipped_sympy_complex'] = ctx.coverage.get('skipped_sympy_complex', 0) + 1
            skipped += 1
            continue
        terms.append(term)
        kept.append(spec)
        infos.append(info)
    ctx.coverage['skipped_unconvertible'] = ctx.coverage.get('skipped_unconvertible', 0) + skipped
    if len(specs) >= 20 and skipped > 0.3 * len(specs):
        ctx.broken.append(f'correspondence C10: {skipped} of {len(specs)} generated programs could not be exported')
    verdicts = ctx.run_cases(label, 'Base.PyData Base.Expr Base.Interp Base.Stmts C10.Model C10.Check',
                             'case', terms, 'verdict', shard=120)
    stats = {'ok': 0, 'known': 0, 'violation': 0, 'broken': 0}
    for spec, tags, info in zip(kept, verdicts, infos):
        stats[classify(ctx, spec, tags, info)] += 1
    inconcl = sum(1 for v in verdicts for t in v if t >= 1000)
    ctx.coverage['inconclusive_subchecks'] = ctx.coverage.get('inconclusive_subchecks', 0) + inconcl
    return kept, verdicts, infos, stats


def finding_probes(ctx):
    """Replay the stored witness of every open finding on the real code."""
    for f in ctx.findings:
        if f.get('status') != 'open':
            continue
        spec = f['witness']
        kept, verdicts, _, _ = run_specs_quiet(ctx, [spec], 'finding-' + f['id'])
        tags = set(verdicts[0]) if verdicts else set()
        if f['expect_tag'] in tags:
            ctx.known(f['id'])
        else:
            ctx.notes.append(f"finding_not_reproduced {f['id']} (tags {sorted(tags)})")


def run_specs_quiet(ctx, specs, label):
    terms, kept = [], []
    prng = __import__('random').Random(f'{ctx.seed}-{label}-pts')
    for spec in specs:
        term, info = observe(spec, prng)
        terms.append(term)
        kept.append(spec)
    verdicts = ctx.run_cases(label, 'Base.PyData Base.Expr Base.Interp Base.Stmts C10.Model C10.Check',
                             'case', terms, 'verdict', shard=120)
    return kept, verdicts, None, None


def run(ctx):
    ctx.build_gate(['C10'])
    ctx.trusted += [
        'harness/lib/sym2coq.py + coqterm.py (conversion of real sympy trees / sets to Gallina terms)',
        'harness/props/c10.py generator and classification; networkx bfs_predecessors/dfs semantics as modelled in C10/Model.v (validated by the correspondence)',
        'Base/Interp.v exact interpretation of exp/log/sqrt/pow used only for comparing expressions by evaluation',
    ]
    ctx.assumptions += [
        'sympy canonicalisation is an engine: expressions are exported after construction and compared by exact evaluation over Q',
        'the ODE solver is an oracle: amounts are an arbitrary function of the values of the system\'s rhs symbols',
    ]
    ctx.coverage['source_sha'] = source_sha('src/pharmpy/model/statements.py')
    ctx.assumptions += [
        'remove_unused_parameters_and_rvs: matrix entries and means are modelled by their free-symbol sets (the code '
        'only reads free symbols and moves entries); applied functions A_X(t) are symbols of the IR but not of '
        'Expr.free_symbols (never parameter or rv names; checked per case); Model.replace/update_source after the '
        'selection are outside C10 (C04/C11), their effect on names is compared for generic and example models',
    ]
    finding_probes(ctx)
    # regression corpus first
    reg = sorted((VERIF / 'regress' / 'C10').glob('*.json'))
    specs = [json.loads(p.read_text()) for p in reg]
    uspecs = [x for x in specs if x.get('kind') == 'unused']
    specs = [x for x in specs if x.get('kind') != 'unused']
    n = 400 if ctx.tier == 'quick' else 6000
    specs += [gen_spec(ctx.rng) for _ in range(n)]
    if ctx.tier == 'thorough':
        ex = enum_specs(3)
        ctx.coverage['exhaustive_small_scope'] = {'programs': len(ex), 'scope': '<=3 statements, 3 lhs x 6 rhs'}
        specs += ex
    kept, verdicts, infos, stats = run_specs(ctx, specs, 'gen')
    ctx.coverage['evaluations'] = sum(i['nqueries'] for i in infos)
    distinct = {json.dumps(s['stmts']) for s, i in zip(kept, infos) if i['n'] >= 2}
    ctx.coverage['distinct_nontrivial'] = len(distinct)
    ctx.coverage['programs'] = len(kept)
    ctx.coverage['rule'] = ('random straight-line programs (1-12 statements, styles ssa/free/redefine, optional '
                            'compartmental system) from VERIF_SEED; non-trivial = at least two statements; distinct by statement text')
    ctx.coverage['case_status'] = stats
    ctx.coverage['input_distribution'] = {
        'length_hist': {str(k): sum(1 for i in infos if i['n'] == k) for k in sorted({i['n'] for i in infos})},
        'with_ode': sum(1 for s in kept if any(l == 'ODE' for l, _ in s['stmts'])),
        'ode_read_before_and_amount_used_after': sum(1 for s in kept if ode_uses_before_and_after(s)),
        'rsd_nonempty_removals': sum(1 for i in infos for r in i.get('rsd_removed', []) if r > 0),
        'impl_internal_errors': sum(len(i['errors']) for i in infos),
        'guard_def_before_use_false': sum(1 for v in verdicts if 201 in v),
        'not_ssa': sum(1 for v in verdicts if 202 in v),
        'subs_queries_outside_leaf_guard': sum(v.count(203) for v in verdicts),
    }
    ctx.coverage['samples'] = [{'spec': s, 'tags': v} for s, v in list(zip(kept, verdicts))[:4]]
    run_unused(ctx, uspecs)


UIMPORTS = 'Base.PyData Base.Expr Base.Interp Base.Stmts C10.Model C10.Check C10.ModelUnused C10.CheckUnused'


def observe_unused_all(ctx, specs, label):
    terms, kept, infos, skipped = [], [], [], 0
    prng = __import__('random').Random(f'{ctx.seed}-{label}-pts')
    for spec in specs:
        try:
            term, info = cu.observe_unused(spec, prng, stmt_term)
        except (sc.Unconvertible, ZeroDivisionError):
            skipped += 1
            continue
        except TypeError as e:
            if 'Invalid comparison' not in str(e) and 'Cannot convert input to Expr' not in str(e):
                raise
            skipped += 1
            continue
        terms.append(term)
        kept.append(spec)
        infos.append(info)
    verdicts = ctx.run_cases(label, UIMPORTS, 'ucase', terms, 'verdict_u', shard=60)
    return kept, verdicts, infos, skipped


def classify_unused(ctx, spec, tags):
    tags = set(tags)
    corr = sorted(t for t in tags if t in cu.UCORR)
    oracle = sorted(t for t in tags if t in cu.UORACLE)
    for t in oracle:      # no open finding concerns this stream: every oracle failure is a violation
        ctx.violation(cu.UTAGS[t], {'spec': spec, 'tags': sorted(tags), 'tag_meaning': cu.UTAGS[t]})
    if oracle:
        return 'violation'
    if corr:
        ctx.broken.append('correspondence C10 model vs implementation (remove_unused_parameters_and_rvs): '
                          + ', '.join(cu.UTAGS[t] for t in corr) + ' on ' + json.dumps(spec))
        ctx.coverage.setdefault('corr_disagreements', []).append({'spec': spec, 'tags': sorted(tags)})
        return 'broken'
    return 'ok'


def run_unused(ctx, regress_specs):
    """Stream 2: _get_unused_parameters_and_rvs / remove_unused_parameters_and_rvs on generated triples
    (statements, parameters, random variables with joint distributions, fixed-zero parameters) and on the
    shipped example models pheno and moxo after small edits."""
    ctx.coverage['source_sha_common'] = source_sha('src/pharmpy/modeling/common.py')
    n = 250 if ctx.tier == 'quick' else 3000
    specs = list(regress_specs) + cu.example_specs() + [cu.gen_unused_spec(ctx.rng, rexpr) for _ in range(n)]
    kept, verdicts, infos, skipped = observe_unused_all(ctx, specs, 'unused')
    if skipped > 0.3 * len(specs):
        ctx.broken.append(f'correspondence C10 (unused): {skipped} of {len(specs)} generated inputs could not be exported')
    stats = {'ok': 0, 'violation': 0, 'broken': 0}
    for spec, tags in zip(kept, verdicts):
        stats[classify_unused(ctx, spec, tags)] += 1
    ex = [i for s, i in zip(kept, infos) if 'example' in s]
    ctx.coverage['evaluations'] += sum(i['nqueries'] for i in infos)
    ctx.coverage['distinct_nontrivial'] += len({json.dumps(s) for s, i in zip(kept, infos)
                                                if i['removed_params'] + i['removed_rvs'] > 0})
    ctx.coverage['unused_stream'] = {
        'cases': len(kept), 'skipped_unconvertible': skipped, 'case_status': stats,
        'example_model_cases': len(ex), 'example_model_level_calls': sum(1 for i in ex if i['model']),
        'example_model_errors': sorted({i['model_error'] for i in ex if i['model_error']}),
        'model_level_calls': sum(1 for i in infos if i['model']),
        'with_joint_distribution': sum(1 for i in infos if i['joint']),
        'with_ode': sum(1 for s in kept if any(l == 'ODE' for l, _ in s.get('stmts', []))),
        'removed_something': sum(1 for i in infos if i['removed_params'] + i['removed_rvs'] > 0),
        'removed_rv': sum(1 for i in infos if i['removed_rvs'] > 0),
        'nothing_removed': sum(1 for i in infos if i['removed_params'] + i['removed_rvs'] == 0),
        'kept_only_because_fixed_to_zero': sum(i['fixed_zero_kept'] for i in infos),
        'rvs_not_wellformed(204)': sum(v.count(204) for v in verdicts),
        'rule': 'non-trivial = the call removes at least one parameter or random variable; distinct by spec text',
    }
    ctx.coverage['samples'] += [{'spec': s, 'tags': v} for s, v in list(zip(kept, verdicts))[13:15]]


def replay(ctx, rep):
    spec = rep['spec']
    if spec.get('kind') == 'unused':
        kept, verdicts, _, _ = observe_unused_all(ctx, [spec], 'replay-unused')
        tags = verdicts[0] if verdicts else []
        print('spec', json.dumps(spec))
        print('tags', tags, [cu.UTAGS.get(t, t) for t in tags])
        return 1 if any(t in cu.UORACLE or t in cu.UCORR for t in tags) else 0
    kept, verdicts, _, _ = run_specs_quiet(ctx, [spec], 'replay')
    tags = verdicts[0]
    print('spec', json.dumps(spec))
    print('tags', tags, [TAGS.get(t, t) for t in tags])
    return 1 if any(t in ORACLE or t in (1, 2, 3, 4, 5, 6) for t in tags) else 0
