"""C05 — compartmental system graph and its differential equations always agree.
Model: coq/theories/C05 (Model.v, Check.v); theorems in Properties.v / Refuted.v.
Tie: random builder-operation sequences are run on the real CompartmentalSystemBuilder /
CompartmentalSystem; the real objects (graph in node / adjacency order, compartment order, names,
amounts, inputs, matrix, eqs, to_dict, from_dict round trip, ==, subs, to_compartmental_system) are
exported and compared inside Coq with the model run on the same operations; the property statements
are evaluated on the implementation's own outputs (oracle tags)."""
import importlib
import json
import os
import random
from fractions import Fraction as F

import sympy

from harness.lib import coqterm as ct
from harness.lib import sym2coq as sc
from harness.lib.core import JOBS, VERIF, source_sha

LEVEL = 'proof'
IMPORTS = 'Base.PyData Base.Expr Base.Interp Base.Stmts C05.Model C05.ToCs C05.Access C05.Check'

TAGS = {
    1: 'builder result (node order / adjacency order / errors / predecessors of output) differs from model',
    2: 'central_compartment / dosing_compartments differ from model',
    3: '_order_compartments / compartment_names / amounts / zero_order_inputs differ from model',
    4: 'compartmental_matrix differs from model',
    5: 'eqs differ from model',
    6: 'to_dict differs from model',
    7: 'from_dict / == differ from model',
    8: 'subs differs from model',
    9: 'to_compartmental_system differs from model (C05/ToCs.v)',
    10: 'get_compartment_outflows / _inflows / get_bidirectionals / get_n_connected / len differ from model (C05/Access.v)',
    11: 'compartment order is not a permutation of the compartments',
    12: 'names / amounts / inputs / eqs / matrix do not share one compartment order',
    13: 'eqs are not M*A + u entrywise',
    14: 'matrix is not (rate i->j off the diagonal, minus total outflow on the diagonal)',
    15: 'mass balance broken: sum of the right-hand sides is not inputs minus output flows',
    16: 'from_dict(to_dict(cs)) is not the same graph',
    17: 'from_dict(to_dict(cs)) == cs is not True',
    18: 'to_compartmental_system(names, eqs) does not give equivalent equations',
    19: 'subs changed the structure or the value of a flow / input / lag time / bioavailability',
    21: 'subs changed the compartment order (compartment_names)',
    20: 'to_compartmental_system(names, eqs) of a linear system with distinct rates lost or changed a flow / input',
}
CORR = (1, 2, 3, 4, 5, 6, 7, 8, 9, 10)
# oracle tag -> (correspondence tags that must be absent for the model to explain the failure,
#                guard tag that must be present, finding id)
# C05-SELF-FLOW (34eef54) and C05-EQ-RAISES-NO-DOSE (876afb2) are fixed in /repo: open_finding() is None for them,
# so tags 14 / 15 / 17 are a VIOLATION again.
ORACLE = {
    11: ((1, 3), None, None), 12: ((3, 5), None, None), 13: ((3, 4, 5), None, None),
    14: ((1, 3, 4), 201, 'C05-SELF-FLOW'), 15: ((1, 3, 5), 201, 'C05-SELF-FLOW'),
    16: ((6, 7), None, None), 17: ((7,), 202, 'C05-EQ-RAISES-NO-DOSE'),
    18: ((), None, None), 19: ((8,), None, None), 20: ((9,), None, None),
    21: ((8,), 207, 'C05-SUBS-REORDERS'),
}

COMP_NAMES = ['CENTRAL', 'PERIPHERAL1', 'PERIPHERAL2', 'DEPOT', 'TRANSIT1', 'METABOLITE', 'EFFECT', 'COMPLEX',
              'RESPONSE', 'A', 'B', 'AB', 'Z', 'a', 'LUNG']
VALUES = [F(1), F(2), F(3), F(4), F(5), F(1, 2), F(3, 2), F(7), F(1, 4), F(5, 2), F(8), F(1, 3)]
AMOUNT_VALUES = [F(11), F(13), F(17), F(19), F(23), F(29), F(31), F(37), F(41), F(43), F(47), F(53), F(59), F(61),
                 F(67), F(71)]
OUT = '@OUT'
SHARD = 30
STATEMENTS_MODULE = os.environ.get('C05_STATEMENTS_MODULE', 'pharmpy.model.statements')


class Skip(Exception):
    pass


def impl():
    """The module under check (pharmpy.model.statements, or a mutated copy for sensitivity tests)."""
    return importlib.import_module(STATEMENTS_MODULE)


# ------------------------------------------------------------------ generator
def rrate(rng, src):
    k = rng.random()
    if k < 0.35:
        return rng.choice(['K12', 'K21', 'KA', 'K30', 'KTR'])
    if k < 0.65:
        return rng.choice(['CL/V', 'Q/V', 'Q/V2', 'CLM/V2', 'CL/V2'])
    if k < 0.8:
        return f'VMAX/(KM + A_{src}(t)/V)'
    if k < 0.9:
        return rng.choice(['CL/V + K30', '2*KA', 'KA*KTR/(KA + KTR)', 'CL*KM/(V*(KM + Q))'])
    return f'VMAX/(KM + A_{src}(t))'


def rdose(rng):
    admid = rng.choice([1, 1, 1, 2, 2, 3, 0])
    amt = rng.choice(['AMT', 'AMT', 'AMT', 'DOSE', 'AMT*F0', '100'])
    k = rng.random()
    if k < 0.6:
        return {'kind': 'bolus', 'amount': amt, 'admid': admid}
    if k < 0.8:
        return {'kind': 'infusion', 'amount': amt, 'admid': admid, 'rate': rng.choice(['R1', 'RATE', 'AMT/D1'])}
    return {'kind': 'infusion', 'amount': amt, 'admid': admid, 'duration': rng.choice(['D1', 'DUR', '2'])}


def rcomp(rng, name, pdose):
    doses = []
    if rng.random() < pdose:
        doses = [rdose(rng) for _ in range(rng.choice([1, 1, 1, 2, 3]))]
    return {'name': name, 'doses': doses,
            'input': rng.choice(['0', '0', '0', 'R0', 'KIN', 'R0*KIN', '5']),
            'lag': rng.choice(['0', '0', '0', 'ALAG', 'ALAG1 + MTT']),
            'bio': rng.choice(['1', '1', '1', 'F1', 'F1*F2', '1/2'])}


EDIT_KINDS = ['add_compartment', 'remove_compartment', 'add_flow', 'add_flow', 'add_flow_out', 'remove_flow',
              'remove_flow', 'move_dose', 'move_dose', 'set_dose', 'add_dose', 'add_dose', 'remove_dose',
              'set_lag_time', 'set_lag_time', 'set_bioavailability', 'set_input', 'freeze', 'add_flow_obj']


def gen_initial(rng, names, style):
    n = len(names)
    ops = []
    pdose = rng.choice([0.0, 0.4, 0.6, 0.8, 0.8, 1.0, 1.0])
    for nm in names:
        ops.append(['add_compartment', rcomp(rng, nm, pdose)])
    dens = rng.choice([0.15, 0.3, 0.3, 0.5, 0.8])
    pairs = [(a, b) for a in names for b in names if a != b]
    rng.shuffle(pairs)
    for a, b in pairs:
        if rng.random() < dens:
            ops.append(['add_flow', a, b, rrate(rng, a)])
    pout = rng.choice([0.0, 0.3, 0.3, 0.6, 1.0])
    outs = [a for a in names if rng.random() < pout]
    if not outs and rng.random() < 0.9:
        outs = [rng.choice(names)]
    for a in outs:
        ops.insert(rng.randrange(n, len(ops) + 1), ['add_flow', a, OUT, rrate(rng, a)])
    if style == 'selfloop':
        a = rng.choice(names)
        ops.insert(rng.randrange(n, len(ops) + 1), ['add_flow', a, a, rrate(rng, a)])
    return ops


def gen_edits(rng, live, nedit, style):
    ops = []
    for _ in range(nedit):
        pool = live + ([rng.choice(COMP_NAMES)] if rng.random() < 0.1 else [])   # sometimes a missing name
        if not pool:
            pool = ['CENTRAL']
        a, b = rng.choice(pool), rng.choice(pool)
        k = rng.choice(EDIT_KINDS)
        fresh = [x for x in COMP_NAMES if x not in live]
        if k == 'add_compartment':
            if len(live) >= 6:
                continue
            nm = rng.choice(fresh)
            ops.append(['add_compartment', rcomp(rng, nm, 0.4)])
            live.append(nm)
        elif k == 'remove_compartment':
            ops.append(['remove_compartment', a])
            if a in live:
                live.remove(a)
        elif k == 'add_flow':
            if a == b and style != 'selfloop':
                continue
            ops.append(['add_flow', a, b, rrate(rng, a)])
        elif k == 'add_flow_out':
            ops.append(['add_flow', a, OUT, rrate(rng, a)])
        elif k == 'remove_flow':
            ops.append(['remove_flow', a, rng.choice([b, b, OUT])])
        elif k == 'move_dose':
            ops.append(['move_dose', a, b, rng.choice([None, None, 1, 2, 0])])
        elif k == 'set_dose':
            ops.append(['set_dose', a, rng.choice([None, {'one': rdose(rng)},
                                                   {'many': [rdose(rng) for _ in range(rng.choice([0, 1, 2]))]}])])
        elif k == 'add_dose':
            ops.append(['add_dose', a, rng.choice([{'one': rdose(rng)}, {'one': rdose(rng)},
                                                   {'many': [rdose(rng), rdose(rng)]}, None])])
        elif k == 'remove_dose':
            ops.append(['remove_dose', a, rng.choice([None, 1, 2, 0])])
        elif k == 'set_lag_time':
            ops.append(['set_lag_time', a, rng.choice(['0', 'ALAG', 'ALAG', 'MTT'])])
        elif k == 'set_bioavailability':
            ops.append(['set_bioavailability', a, rng.choice(['1', 'F1', 'BIO'])])
        elif k == 'set_input':
            ops.append(['set_input', a, rng.choice(['0', 'R0', 'KIN', '3'])])
        elif k == 'freeze':
            ops.append(['freeze'])
        elif k == 'add_flow_obj':
            if len(live) >= 5:
                continue
            nm = rng.choice(fresh)
            live.append(nm)
            fresh = [x for x in fresh if x != nm]
            if rng.random() < 0.5:
                ops.append(['add_flow_obj', rcomp(rng, nm, 0.3), OUT, rrate(rng, nm)])
            else:
                nm2 = rng.choice(fresh)
                live.append(nm2)
                ops.append(['add_flow_obj', rcomp(rng, nm, 0.3), rcomp(rng, nm2, 0.3), rrate(rng, nm)])
    return ops


def gen_spec(rng):
    style = rng.choice(['plain', 'plain', 'plain', 'plain', 'plain', 'selfloop'])
    n = rng.choice([1, 2, 2, 3, 3, 4, 4, 5, 6])
    names = rng.sample(COMP_NAMES, n)
    if rng.random() < 0.6 and 'CENTRAL' not in names:
        names[rng.randrange(n)] = 'CENTRAL'
    initial = gen_initial(rng, names, style)
    live = list(names)
    edits = gen_edits(rng, live, rng.choice([0, 0, 1, 2, 3, 4, 6, 8, 10]), style)
    ops = initial + edits
    spec = {'ops': ops, 'other': None, 'subs': None, 'rebuild': rng.random() < 0.6}
    if rng.random() < 0.15:
        spec['t'] = 'TIME'
    k = rng.random()
    if k < 0.3:      # the same content entered in another order
        comps_first = [o for o in ops if o[0] == 'add_compartment']
        rest = [o for o in ops if o[0] != 'add_compartment']
        rng.shuffle(comps_first)
        if rng.random() < 0.5:
            head = [o for o in rest if o[0] == 'add_flow']
            tail = [o for o in rest if o[0] != 'add_flow']
            rng.shuffle(head)
            rest = head + tail if not edits else rest
        spec['other'] = comps_first + rest
    elif k < 0.45:   # one more edit
        spec['other'] = ops + gen_edits(rng, list(live), rng.choice([1, 1, 2]), style)
    elif k < 0.55:   # a set / reset of the lag time (relabels twice)
        if live:
            a = rng.choice(live)
            spec['other'] = ops + [['set_lag_time', a, 'TMPLAG'], ['set_lag_time', a, rng.choice(['0', 'ALAG'])]]
    if rng.random() < 0.4:
        keys = rng.sample(['CL', 'V', 'K12', 'KA', 'AMT', 'ALAG', 'F1', 'R0', 'VMAX', 'Q', 'KM', 'D1', 'R1', 'KIN'],
                          rng.choice([1, 2, 3]))
        spec['subs'] = {kk: rng.choice(['THETA1', 'TVCL*EXP1', kk + 'X', '2', 'V2', 'WGT/70', 'CL']) for kk in keys}
    return spec


def gen_exhaustive():
    """Every directed graph on the three compartments B, CENTRAL, A (entered in that order, so that the
    name order differs from the entry order) x 6 sets of output flows x 6 sets of dosed compartments."""
    names = ['B', 'CENTRAL', 'A']
    pairs = [(a, b) for a in range(3) for b in range(3) if a != b]
    outsets = [(), (0,), (1,), (2,), (0, 2), (0, 1, 2)]
    dosesets = [(), (0,), (1,), (2,), (0, 1), (1, 2)]
    for mask in range(64):
        for outs in outsets:
            for ds in dosesets:
                ops = []
                for i, nm in enumerate(names):
                    doses = [{'kind': 'bolus', 'amount': 'AMT', 'admid': i + 1}] if i in ds else []
                    ops.append(['add_compartment', {'name': nm, 'doses': doses, 'input': 'R0' if i == 2 else '0',
                                                    'lag': '0', 'bio': '1'}])
                for k, (a, b) in enumerate(pairs):
                    if mask >> k & 1:
                        ops.append(['add_flow', names[a], names[b], f'K{a}{b}'])
                for a in outs:
                    ops.append(['add_flow', names[a], OUT, f'KO{a}'])
                yield {'ops': ops, 'other': None, 'subs': None, 'rebuild': (mask + len(outs)) % 4 == 0}


# ------------------------------------------------------------------ implementation side
def mk_dose(d):
    m = impl()
    if d['kind'] == 'bolus':
        return m.Bolus.create(d['amount'], admid=d['admid'])
    return m.Infusion.create(d['amount'], admid=d['admid'], rate=d.get('rate'), duration=d.get('duration'))


CURRENT_T = ['t']       # independent variable of the system being built (spec['t'], default t)


def rate_expr(s):
    from pharmpy.basic import Expr
    return Expr(s.replace('(t)', f'({CURRENT_T[0]})'))


def mk_comp(c):
    from pharmpy.basic import Expr
    m = impl()
    amount = None if CURRENT_T[0] == 't' else Expr.function('A_' + c['name'], CURRENT_T[0])
    return m.Compartment.create(c['name'], amount=amount, doses=tuple(mk_dose(d) for d in c['doses']),
                                input=c['input'], lag_time=c['lag'], bioavailability=c['bio'])


def dose_arg(a):
    if a is None:
        return None
    if 'one' in a:
        return mk_dose(a['one'])
    return tuple(mk_dose(d) for d in a['many'])


def err_kind(e):
    import networkx as nx
    if isinstance(e, nx.NetworkXError):
        return 'NetworkXError'
    if isinstance(e, ValueError):
        return 'ValueError'
    if isinstance(e, AttributeError):
        return 'AttributeError'
    raise e


def run_ops(ops, t=None):
    """Run a history on the real builder.  Names are resolved with builder.find_compartment and the
    result (possibly None) is handed to the builder method as is."""
    from pharmpy.basic import Expr
    m = impl()
    CURRENT_T[0] = t or 't'
    cb = m.CompartmentalSystemBuilder()
    errs = []
    for o in ops:
        k = o[0]
        f = cb.find_compartment
        try:
            if k == 'add_compartment':
                cb.add_compartment(mk_comp(o[1]))
            elif k == 'remove_compartment':
                cb.remove_compartment(f(o[1]))
            elif k == 'add_flow':
                cb.add_flow(f(o[1]), m.output if o[2] == OUT else f(o[2]), rate_expr(o[3]))
            elif k == 'remove_flow':
                cb.remove_flow(f(o[1]), m.output if o[2] == OUT else f(o[2]))
            elif k == 'move_dose':
                cb.move_dose(f(o[1]), f(o[2]), admid=o[3])
            elif k == 'set_dose':
                cb.set_dose(f(o[1]), dose_arg(o[2]))
            elif k == 'add_dose':
                cb.add_dose(f(o[1]), dose_arg(o[2]))
            elif k == 'remove_dose':
                cb.remove_dose(f(o[1]), admid=o[2])
            elif k == 'set_lag_time':
                cb.set_lag_time(f(o[1]), Expr(o[2]))
            elif k == 'set_bioavailability':
                cb.set_bioavailability(f(o[1]), Expr(o[2]))
            elif k == 'set_input':
                cb.set_input(f(o[1]), Expr(o[2]))
            elif k == 'freeze':
                cb = m.CompartmentalSystemBuilder(m.CompartmentalSystem(cb))
            elif k == 'add_flow_obj':
                cb.add_flow(mk_comp(o[1]), m.output if o[2] == OUT else mk_comp(o[2]), rate_expr(o[3]))
            else:
                raise KeyError(k)
            errs.append(None)
        except (ValueError, AttributeError, Exception) as e:
            errs.append(err_kind(e))
    if t is not None:
        return m.CompartmentalSystem(cb, t=Expr.symbol(t)), errs
    return m.CompartmentalSystem(cb), errs


class Exporter:
    """Real objects -> Gallina terms.  Expressions are interned: equal Expr objects get the identical
    term, distinct Expr objects must get distinct terms (otherwise the case is skipped)."""

    def __init__(self):
        self.names = ct.Names()
        for n in ['t']:
            self.names.get(n)
        self.etab = {}
        self.rev = {}
        self.ctab = {}
        self.cdefs = []
        self.amount_syms = set()

    def expr(self, e):
        from pharmpy.basic import Expr
        e = Expr(e)
        if e in self.etab:
            return self.etab[e]
        s = e._sympy_()
        for fn in s.atoms(sympy.core.function.AppliedUndef):
            self.amount_syms.add(str(fn))
        term = sc.expr(s, self.names)
        if term in self.rev and self.rev[term] != e:
            raise Skip('two distinct expressions convert to one term')
        self.etab[e] = term
        self.rev[term] = e
        return term

    def oexpr(self, e):
        return ct.opt(None if e is None else self.expr(e))

    def name(self, s):
        return ct.string_codes(s)

    def dose(self, d):
        m = impl()
        if isinstance(d, m.Bolus):
            return f"(Bolus {self.expr(d.amount)} {ct.z(d.admid)})"
        return f"(Infusion {self.expr(d.amount)} {ct.z(d.admid)} {self.oexpr(d.rate)} {self.oexpr(d.duration)})"

    def comp(self, c):
        """A Compartment as a let-bound variable of the case."""
        if c in self.ctab:
            return self.ctab[c]
        term = (f"(mkComp {self.name(c.name)} {self.expr(c.amount)} {ct.lst([self.dose(d) for d in c._doses])} "
                f"{self.expr(c.input)} {self.expr(c.lag_time)} {self.expr(c.bioavailability)})")
        var = f"c{len(self.cdefs) + 1}"
        self.cdefs.append((var, term))
        self.ctab[c] = var
        return var

    def node(self, n):
        m = impl()
        if isinstance(n, m.Output):
            return "Out"
        return f"(Cmt {self.comp(n)})"

    def graph(self, g):
        rows = []
        for n in g.nodes:
            adj = ct.lst([ct.pair(self.node(v), self.expr(d['rate'])) for v, d in g.succ[n].items()])
            rows.append(ct.pair(self.node(n), adj))
        return ct.lst(rows)

    def target(self, s):
        return "TOut" if s == OUT else f"(TName {self.name(s)})"

    def admid(self, a):
        return ct.opt(None if a is None else ct.z(a))

    def darg(self, a):
        if a is None:
            return "DNone"
        if 'one' in a:
            return f"(DOne {self.dose(mk_dose(a['one']))})"
        return f"(DMany {ct.lst([self.dose(mk_dose(d)) for d in a['many']])})"

    def op(self, o):
        k = o[0]
        if k == 'add_compartment':
            return f"(OAddCompartment {self.comp(mk_comp(o[1]))})"
        if k == 'remove_compartment':
            return f"(ORemoveCompartment {self.name(o[1])})"
        if k == 'add_flow':
            return f"(OAddFlow {self.name(o[1])} {self.target(o[2])} {self.expr(rate_expr(o[3]))})"
        if k == 'remove_flow':
            return f"(ORemoveFlow {self.name(o[1])} {self.target(o[2])})"
        if k == 'move_dose':
            return f"(OMoveDose {self.name(o[1])} {self.name(o[2])} {self.admid(o[3])})"
        if k == 'set_dose':
            return f"(OSetDose {self.name(o[1])} {self.darg(o[2])})"
        if k == 'add_dose':
            return f"(OAddDose {self.name(o[1])} {self.darg(o[2])})"
        if k == 'remove_dose':
            return f"(ORemoveDose {self.name(o[1])} {self.admid(o[2])})"
        if k == 'set_lag_time':
            return f"(OSetLag {self.name(o[1])} {self.expr(o[2])})"
        if k == 'set_bioavailability':
            return f"(OSetBio {self.name(o[1])} {self.expr(o[2])})"
        if k == 'set_input':
            return f"(OSetInput {self.name(o[1])} {self.expr(o[2])})"
        if k == 'freeze':
            return "OFreeze"
        if k == 'add_flow_obj':
            v = "Out" if o[2] == OUT else f"(Cmt {self.comp(mk_comp(o[2]))})"
            return f"(OAddFlowObj {self.comp(mk_comp(o[1]))} {v} {self.expr(rate_expr(o[3]))})"
        raise KeyError(k)

    def err(self, e):
        return ct.opt(e)

    def ddose(self, d):
        from pharmpy.basic import Expr
        de = lambda s: self.expr(Expr.deserialize(s))
        if d['class'] == 'Bolus':
            return f"(DBolus {de(d['amount'])} {ct.z(d['admid'])})"
        if d['class'] != 'Infusion':
            raise Skip('unknown dose class')
        r = None if d['rate'] is None else de(d['rate'])
        du = None if d['duration'] is None else de(d['duration'])
        return f"(DInfusion {de(d['amount'])} {ct.opt(r)} {ct.opt(du)} {ct.z(d['admid'])})"

    def csdict(self, d):
        from pharmpy.basic import Expr
        de = lambda s: self.expr(Expr.deserialize(s))
        comps = []
        for c in d['compartments']:
            if c['class'] == 'Output':
                comps.append('DOutput')
            else:
                ds = None if c['doses'] is None else ct.lst([self.ddose(x) for x in c['doses']])
                comps.append(f"(DCompartment {self.name(c['name'])} {de(c['amount'])} {ct.opt(ds)} {de(c['input'])} "
                             f"{de(c['lag_time'])} {de(c['bioavailability'])})")
        rates = [ct.tup(ct.nat(a), ct.nat(b), de(r)) for a, b, r in d['rates']]
        return f"(mkDict {ct.lst(comps)} {ct.lst(rates)} {de(d['t'])})"


def export_tocs(ex, m, cs, cs4, order, info):
    """Input / output of to_compartmental_system for the model C05/ToCs.v: the default compartments, the
    functions on the left-hand sides, every equation as the list of the arguments of
    Add.make_args(expand(rhs)) decomposed into (positive?, |coefficient|, index of its amount), and the real
    result graph.  'None' when a term is outside the modelled class (two amounts, coefficient with amounts)."""
    from pharmpy.basic import Expr
    from pharmpy.internals.expr.leaves import free_images
    eqs = [sympy.sympify(e) for e in cs.eqs]
    funcs = [e.lhs.args[0] for e in eqs]
    index = {f: i for i, f in enumerate(funcs)}
    rows = []
    for e in eqs:
        row = []
        for term in sympy.Add.make_args(sympy.expand(e.rhs)):
            if term == 0:
                continue
            ims = set(funcs) & free_images(term)
            pos = m._is_positive(term)
            if len(ims) == 0:
                k, a = term, None
            elif len(ims) == 1:
                f = next(iter(ims))
                k, a = sympy.cancel(term / f), index[f]
                if free_images(k):
                    info['tocs'] = 'nonlinear term'
                    return "None"
            else:
                info['tocs'] = 'second order term'
                return "None"
            if not pos:
                k = -k
                if not m._is_positive(k):
                    info['tocs'] = 'term of unknown sign'
                    return "None"
            row.append(f"(mkT {ct.boolean(pos)} {ex.expr(Expr(k))} {ct.opt(None if a is None else ct.nat(a))})")
        rows.append(ct.lst(row))
    names = [c.name for c in order]
    cmts = ct.lst([ex.comp(m.Compartment.create(nm)) for nm in names])
    amts = ct.lst([ex.expr(Expr(f)) for f in funcs])
    info['tocs'] = 'exported'
    return f"(Some ({cmts}, {amts}, {ct.lst(rows)}, {ex.graph(cs4._g)}))"


def eqres(f):
    try:
        return 'EqTrue' if f() else 'EqFalse'
    except ValueError:
        return 'EqRaises'


def observe(spec, prng, perturb=None):
    """Run the implementation on a spec; returns (coq case term, info)."""
    from pharmpy.basic import Expr
    m = impl()
    ex = Exporter()
    cs, errs = run_ops(spec['ops'], spec.get('t'))
    g = cs._g
    info = {'n': len(cs), 'nops': len(spec['ops']), 'errs': [e for e in errs if e], 'nedges': g.number_of_edges()}
    ops_t = ct.lst([ex.op(o) for o in spec['ops']])
    errs_t = ct.lst([ex.err(e) for e in errs])
    graph_t = ex.graph(g)
    preds = ct.lst([ex.name(c.name) for c in g.predecessors(m.output)])
    try:
        central = ex.name(cs.central_compartment.name)
    except ValueError:
        central = None
    try:
        dosing = ct.lst([ex.name(c.name) for c in cs.dosing_compartments])
    except ValueError:
        dosing = None
    info['dosing'] = dosing is not None
    info['ndosing'] = len(cs.dosing_compartments) if dosing is not None else 0
    npred = len(list(g.predecessors(m.output)))
    info['nout'] = npred
    info['special_central'] = bool(central is not None and npred and list(g.predecessors(m.output))[-1].name != cs.central_compartment.name)
    order = cs._order_compartments()
    if dosing is not None and order:
        import networkx as nx
        reach = set(nx.descendants(g, order[0])) | {order[0]}
        info['unreached'] = len([c for c in order if c not in reach])
    else:
        info['unreached'] = -1
    order_t = ct.lst([ex.comp(c) for c in order])
    names_t = ct.lst([ex.name(s) for s in cs.compartment_names])
    amounts = list(cs.amounts)
    inputs = list(cs.zero_order_inputs)
    mat = cs.compartmental_matrix
    n = len(order)
    rows = [[mat[i, j] for j in range(mat.cols)] for i in range(mat.rows)] if n else []
    eqs = cs.eqs
    if perturb:
        rows, eqs_rhs, order, amounts = perturb(rows, [e.rhs for e in eqs], order, amounts)
        order_t = ct.lst([ex.comp(c) for c in order])
    else:
        eqs_rhs = [e.rhs for e in eqs]
    amounts_t = ct.lst([ex.expr(a) for a in amounts])
    inputs_t = ct.lst([ex.expr(a) for a in inputs])
    mat_t = ct.lst([ct.lst([ex.expr(x) for x in row]) for row in rows])
    eqs_t = []
    for e, rhs in zip(eqs, eqs_rhs):
        lhs = e.lhs._sympy_()
        if not isinstance(lhs, sympy.Derivative) or lhs.args[1] != (cs.t._sympy_(), 1):
            raise Skip('eq lhs is not a first derivative in t')
        eqs_t.append(ct.pair(ex.expr(lhs.args[0]), ex.expr(rhs)))
    eqs_t = ct.lst(eqs_t)
    d = cs.to_dict()
    dict_t = ex.csdict(d)
    rt = m.CompartmentalSystem.from_dict(d)
    rt_t = f"(Some ({ex.graph(rt._g)}, {ex.expr(rt.t)}))"
    rt_eq = eqres(lambda: rt == cs)
    info['rt_eq'] = rt_eq
    other_t = "None"
    if spec.get('other'):
        cs2, _ = run_ops(spec['other'], spec.get('t'))
        r = eqres(lambda: cs == cs2)
        same = cs.to_dict() == cs2.to_dict()
        other_t = f"(Some ({ct.lst([ex.op(o) for o in spec['other']])}, {r}, {ct.boolean(same)}))"
        info['other'] = (r, same)
    subs_t = "None"
    if spec.get('subs'):
        sub = {Expr.symbol(k): Expr(v) for k, v in spec['subs'].items()}
        cs3 = cs.subs(sub)
        mp = ct.lst([ct.pair(ex.names.p(k), ex.expr(Expr(v))) for k, v in spec['subs'].items()])
        subs_t = f"(Some ({mp}, {ex.graph(cs3._g)}, {ct.lst([ex.name(x) for x in cs3.compartment_names])}))"
        info['subs'] = True
    # flow accessors
    fl = lambda pairs: ct.lst([ct.pair(ex.node(v), ex.expr(r)) for v, r in pairs])
    acc_rows = []
    for nd in g.nodes:
        if isinstance(nd, m.Output):
            acc_rows.append(ct.tup("Out", "[]", fl(cs.get_compartment_inflows(nd)), "[]", ct.nat(0)))
        else:
            acc_rows.append(ct.tup(ex.node(nd), fl(cs.get_compartment_outflows(nd)), fl(cs.get_compartment_inflows(nd)),
                                   ct.lst([ex.node(x) for x in cs.get_bidirectionals(nd)]), ct.nat(cs.get_n_connected(nd))))
    access_t = ct.pair(ct.lst(acc_rows), ct.nat(len(cs)))
    reb_t = "None"
    tocs_t = "None"
    if spec.get('rebuild') and n and not spec.get('t'):   # to_compartmental_system hard-codes the idv t
        nm = {c.amount: c.name for c in order}
        try:
            cs4 = m.to_compartmental_system(nm, cs.eqs)
            byname = {}
            for e in cs4.eqs:
                fn = Expr(e.lhs._sympy_().args[0])
                byname[nm[fn]] = e.rhs
            reb_t = "(Some " + ct.lst([ct.pair(ex.name(k), ex.expr(v)) for k, v in byname.items()]) + ")"
            info['rebuilt'] = 'ok'
            tocs_t = export_tocs(ex, m, cs, cs4, order, info)
        except Skip:
            raise
        except Exception as e:       # the conversion itself failed: reported as an empty system
            reb_t = "(Some [])"
            info['rebuilt'] = 'raised ' + type(e).__name__
    # evaluation points: positive rationals, amounts pairwise distinct at every point
    pts = []
    syms = [k for k in ex.names.ids if k != 't']
    amts = sorted(ex.amount_syms)
    for _ in range(5):
        vals = prng.sample(AMOUNT_VALUES, len(amts)) if len(amts) <= len(AMOUNT_VALUES) else None
        if vals is None:
            raise Skip('too many amounts')
        p = {k: prng.choice(VALUES) for k in syms}
        p.update(dict(zip(amts, vals)))
        p['t'] = prng.choice(VALUES)
        pts.append(p)
    envs = ct.lst([sc.env(p, ex.names) for p in pts])
    body = ("(mkCase " + ops_t + "\n " + errs_t + "\n " + ex.expr(cs.t) + "\n " + graph_t + "\n " + preds + " " + ct.opt(central)
            + " " + ct.opt(dosing) + "\n " + order_t + " " + names_t + "\n " + amounts_t + " " + inputs_t + "\n " + mat_t
            + "\n " + eqs_t + "\n " + dict_t + "\n " + rt_t + " " + rt_eq + "\n " + other_t + "\n " + subs_t + "\n " + reb_t
            + "\n " + tocs_t + "\n " + access_t + "\n " + envs + ")")
    lets = ''.join(f"let {v} := {t} in\n " for v, t in ex.cdefs)
    return "(" + lets + body + ")", info


# ------------------------------------------------------------------ classification
def classify(ctx, spec, tags, info):
    tags = set(tags)
    corr = sorted(t for t in tags if t in CORR)
    oracle = sorted(t for t in tags if t in ORACLE)
    status = 'ok'
    for t in oracle:
        absent, guard, fid = ORACLE[t]
        explained = not any(c in tags for c in absent)
        guard_false = guard is not None and guard in tags
        if explained and guard_false and fid and ctx.open_finding(fid):
            ctx.coverage.setdefault('known_hits', {}).setdefault(fid, 0)
            ctx.coverage['known_hits'][fid] += 1
            if status == 'ok':
                status = 'known'
        else:
            ctx.violation(TAGS[t], {'spec': spec, 'tags': sorted(tags), 'tag_meaning': TAGS[t]})
            status = 'violation'
    if 204 in tags and status != 'violation':
        ctx.broken.append('a graph produced by the builder is not well formed (wf_graph): ' + json.dumps(spec['ops']))
        status = 'broken'
    if corr and status != 'violation':
        ctx.broken.append('correspondence C05 model vs implementation: ' + ', '.join(TAGS[t] for t in corr)
                          + ' on ' + json.dumps(spec['ops']))
        ctx.coverage.setdefault('corr_disagreements', []).append({'spec': spec, 'tags': sorted(tags)})
        ctx.violation('model and implementation disagree: ' + ', '.join(TAGS[t] for t in corr),
                      {'spec': spec, 'tags': sorted(tags)})
        status = 'broken'
    return status


def _observe_one(arg):
    spec, seed = arg
    try:
        term, info = observe(spec, random.Random(seed))
        return ('ok', term, info)
    except (Skip, sc.Unconvertible) as e:
        return ('skip', str(e), None)


def run_specs(ctx, specs, label, quiet=False):
    terms, kept, infos = [], [], []
    skipped = {}
    args = [(spec, f'{ctx.seed}-{label}-pts-{i}') for i, spec in enumerate(specs)]
    if len(specs) > 16 and JOBS > 1:
        import multiprocessing as mp
        impl()                                    # import before forking
        with mp.get_context('fork').Pool(min(JOBS, 12)) as pool:
            results = pool.map(_observe_one, args, chunksize=8)
    else:
        results = [_observe_one(a) for a in args]
    for spec, (st, a, b) in zip(specs, results):
        if st == 'skip':
            skipped[a] = skipped.get(a, 0) + 1
            continue
        terms.append(a)
        kept.append(spec)
        infos.append(b)
    if not quiet:
        sk = ctx.coverage.setdefault('skipped', {})
        for k, v in skipped.items():
            sk[k] = sk.get(k, 0) + v
        ctx.log(f'{label}: {len(terms)} systems observed on the implementation, {sum(map(len, terms)) // 1024} KiB of terms')
    verdicts = ctx.run_cases(label, IMPORTS, 'case', terms, 'verdict', shard=SHARD) if terms else []
    if not quiet:
        ctx.log(f'{label}: verdicts computed in Coq')
    return kept, verdicts, infos


HASHSEED_PROBE = (
    "import json,sys\n"
    "from harness.props import c05\n"
    "from pharmpy.basic import Expr\n"
    "spec=json.loads(sys.argv[1])\n"
    "cs,_=c05.run_ops(spec['ops'], spec.get('t'))\n"
    "cs2=cs.subs({Expr.symbol(k): Expr(v) for k,v in spec['subs'].items()})\n"
    "print('PROBE', json.dumps([cs2.compartment_names, cs2.central_compartment.name,"
    " [c.get('name','') for c in cs2.to_dict()['compartments']]]))\n")


def hashseed_probe(spec, seeds):
    """Run cs.subs of the witness in one subprocess per PYTHONHASHSEED; returns {seed: observation}."""
    import subprocess
    import sys
    procs = {}
    for sd in seeds:
        env = dict(os.environ, PYTHONHASHSEED=str(sd))
        procs[sd] = subprocess.Popen([sys.executable, '-c', HASHSEED_PROBE, json.dumps(spec)], env=env, cwd=str(VERIF),
                                     stdout=subprocess.PIPE, stderr=subprocess.DEVNULL, text=True)
    out = {}
    for sd, p in procs.items():
        o, _ = p.communicate(timeout=300)
        line = [x for x in o.split('\n') if x.startswith('PROBE')]
        out[sd] = line[0][6:] if line else None
    return out


def finding_probes(ctx):
    """Replay the stored witness of every open finding on the real code."""
    for f in ctx.findings:
        if f.get('status') != 'open':
            continue
        if f.get('probe') == 'hashseed':
            obs = hashseed_probe(f['witness'], f.get('hashseeds', [0, 1, 2, 3]))
            ctx.coverage.setdefault('hashseed_probe', {})[f['id']] = obs
            if None not in obs.values() and len(set(obs.values())) > 1:
                ctx.known(f['id'])
            else:
                ctx.notes.append(f"finding_not_reproduced {f['id']} (observations {obs})")
            continue
        kept, verdicts, _ = run_specs(ctx, [f['witness']], 'finding-' + f['id'], quiet=True)
        tags = set(verdicts[0]) if verdicts else set()
        if f['expect_tag'] in tags and not any(t in tags for t in CORR):
            ctx.known(f['id'])
        else:
            ctx.notes.append(f"finding_not_reproduced {f['id']} (tags {sorted(tags)})")


def run(ctx):
    # staging entries (known_findings.d) replace merged ones of the same id, as the maintainer's merge does
    ctx.findings = list({f['id']: f for f in ctx.findings}.values())
    ctx.build_gate(['C05'])
    ctx.log('build gate done')
    ctx.trusted += [
        'harness/lib/sym2coq.py + coqterm.py and the Exporter of harness/props/c05.py (real Compartment / graph / dict '
        'objects to Gallina terms; expressions interned so that Expr == coincides with term equality)',
        'hand-written model coq/theories/C05/Model.v incl. the networkx 3.x contracts (insertion-ordered adjacency, '
        'relabel_nodes(copy=False), copy, bfs_tree) — validated by the correspondence only',
        'Base/Interp.v exact interpretation used only for comparing expressions by evaluation at rational points',
    ]
    ctx.assumptions += [
        'symengine/sympy canonicalisation, canonical_ode_rhs, Matrix product, Expr.serialize/deserialize are engines: '
        'their outputs are exported and compared by exact evaluation over Q (serialisation: structurally after interning)',
        'compartment names are pairwise distinct (names_unique): with duplicate names the order of '
        '_order_compartments depends on set iteration (hash) order and is not modelled',
        'CompartmentalSystem.subs: node ORDER of the result depends on set iteration order and is not modelled; the '
        'result is compared as a dict of dicts',
        'to_compartmental_system is not modelled (sympy expand / ask): checked on the implementation only (tag 18)',
        'integration of the ODE system is not covered: systems are compared as systems',
    ]
    ctx.coverage['source_sha'] = source_sha('src/pharmpy/model/statements.py')
    finding_probes(ctx)
    ctx.log('finding probes done')
    reg = sorted((VERIF / 'regress' / 'C05').glob('*.json'))
    specs = [json.loads(p.read_text()) for p in reg]
    specs = [s.get('spec', s) for s in specs]
    n = 300 if ctx.tier == 'quick' else 1800
    specs += [gen_spec(ctx.rng) for _ in range(n)]
    if ctx.tier != 'quick':
        ex = list(gen_exhaustive())
        specs += ex
        ctx.coverage['exhaustive_three_compartment_graphs'] = len(ex)
    stats = {'ok': 0, 'known': 0, 'violation': 0, 'broken': 0}
    kept, verdicts, infos = run_specs(ctx, specs, 'gen')
    for spec, tags, info in zip(kept, verdicts, infos):
        stats[classify(ctx, spec, tags, info)] += 1
    ctx.coverage['evaluations'] = sum(1 for v in verdicts for _ in range(19))   # 8 correspondence + 9 oracle + 2 guard groups
    distinct = {json.dumps(s['ops']) for s, i in zip(kept, infos) if i['n'] >= 2 and i['nedges'] >= 1}
    ctx.coverage['distinct_nontrivial'] = len(distinct)
    ctx.coverage['systems'] = len(kept)
    ctx.coverage['rule'] = ('random builder histories from VERIF_SEED: initial graph on 1-6 named compartments with random flows, '
                            'output flows, doses, inputs, lag, bioavailability + 0-10 edits (thorough: + every directed graph on 3 compartments '
                            'x 6 output sets x 6 dose sets); non-trivial = at least 2 '
                            'compartments and one flow in the final system; distinct by operation list')
    ctx.coverage['case_status'] = stats
    ctx.coverage['inconclusive_subchecks'] = sum(1 for v in verdicts for t in v if t >= 1000)
    hist = lambda key: {str(k): sum(1 for i in infos if i[key] == k) for k in sorted({i[key] for i in infos})}
    ctx.coverage['input_distribution'] = {
        'compartments_hist': hist('n'), 'ops_hist': hist('nops'),
        'with_dosing_compartments': sum(1 for i in infos if i['dosing']),
        'dosing_compartments_hist': hist('ndosing'), 'predecessors_of_output_hist': hist('nout'),
        'central_found_by_name': sum(1 for i in infos if i['special_central']),
        'compartments_not_reachable_from_first_dosing_hist': hist('unreached'),
        'non_default_t': sum(1 for s in kept if s.get('t')),
        'op_errors': {k: sum(i['errs'].count(k) for i in infos) for k in ('ValueError', 'NetworkXError', 'AttributeError')},
        'self_loop_systems': sum(1 for v in verdicts if 201 in v),
        'no_dosing_systems': sum(1 for v in verdicts if 202 in v),
        'duplicate_name_systems': sum(1 for v in verdicts if 203 in v),
        'with_other_system': sum(1 for i in infos if 'other' in i),
        'other_equal_but_dict_differs': sum(1 for i in infos if i.get('other') == ('EqTrue', False)),
        'other_equal': sum(1 for i in infos if i.get('other', ('', None))[0] == 'EqTrue'),
        'with_subs': sum(1 for i in infos if i.get('subs')),
        'rebuilt_ok': sum(1 for i in infos if i.get('rebuilt') == 'ok'),
        'to_cs_model_compared': sum(1 for i in infos if i.get('tocs') == 'exported'),
        'to_cs_outside_model': {k: sum(1 for i in infos if i.get('tocs') == k)
                                for k in ('nonlinear term', 'second order term', 'term of unknown sign')},
        'to_cs_linear_distinct_roundtrips': sum(1 for i, v in zip(infos, verdicts) if i.get('tocs') == 'exported' and 205 not in v),
        'rebuilt_raised': sum(1 for i in infos if str(i.get('rebuilt', '')).startswith('raised')),
        'rt_eq': {k: sum(1 for i in infos if i['rt_eq'] == k) for k in ('EqTrue', 'EqFalse', 'EqRaises')},
    }
    ctx.coverage['samples'] = [{'spec': s, 'tags': v} for s, v in list(zip(kept, verdicts))[:4]]


def replay(ctx, rep):
    spec = rep.get('spec', rep)
    kept, verdicts, infos = run_specs(ctx, [spec], 'replay', quiet=True)
    if not verdicts:
        print('skipped')
        return 0
    tags = verdicts[0]
    print('spec', json.dumps(spec))
    print('info', infos[0])
    print('tags', tags, [TAGS.get(t, t) for t in tags])
    bad = [t for t in tags if t in CORR or t in ORACLE]
    return 1 if bad else 0
