"""C18 helper module: stepwise workflow builders, iivsearch builders, MFL algebra (part of harness/props/c18.py)."""


def observe(spec):
    raise ValueError('unknown spec kind ' + str(spec.get('kind')))


def gen_specs(rng, tier):
    return []


def explain(ctx, spec, tag, tags):
    return None


def regenerate_tables(ctx):
    return True


def generated_vfiles():
    return []


def distribution(kept, verdicts, infos):
    return {}
