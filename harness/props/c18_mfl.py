"""C18 helper module (part of harness/props/c18.py): stepwise workflow builders, iivsearch builders,
the not_supported_combo translator and the ModelFeatures algebra."""
import ast
import hashlib
import json
import re
from pathlib import Path

from harness.lib import coqterm as ct
from harness.lib.core import BUILD, REPO, THEORIES, coqc_file

GEN = BUILD / 'gen' / 'C18'

_impl_cache = {}


def impl(name):
    """The implementation module under test.  Normally the real pharmpy module; for sensitivity tests
    VERIF_C18_MUTANTS='{"<module name>": "<path of a mutated copy>"}' loads a scratch copy of that one
    source file under another module name (never touches /repo)."""
    import importlib
    import importlib.util
    import os
    import sys
    if name in _impl_cache:
        return _impl_cache[name]
    muts = json.loads(os.environ.get('VERIF_C18_MUTANTS', '{}') or '{}')
    if name in muts:
        importlib.import_module(name)          # make sure the package context exists
        alias = name + '_mutant'
        spec = importlib.util.spec_from_file_location(alias, muts[name])
        mod = importlib.util.module_from_spec(spec)
        mod.__package__ = name.rsplit('.', 1)[0]
        sys.modules[alias] = mod
        spec.loader.exec_module(mod)
        print(f'[C18] MUTANT in use for {name}: {muts[name]}', flush=True)
    else:
        mod = importlib.import_module(name)
    _impl_cache[name] = mod
    return mod


def mutant_path(name):
    import os
    return json.loads(os.environ.get('VERIF_C18_MUTANTS', '{}') or '{}').get(name)


def _c18():
    from . import c18
    return c18


# ------------------------------------------------------------------ T-tables: not_supported_combo
class TranslatorRefused(Exception):
    pass


def translate_not_supported_combo(source_text):
    """Fail-closed ast translator: finds `not_supported_combo = [ ((str|int,...),(str|int,...)), ... ]`
    inside _is_allowed and returns it as a Python list of (tuple, tuple).  Anything unexpected refuses."""
    tree = ast.parse(source_text)
    fn = [n for n in tree.body if isinstance(n, ast.FunctionDef) and n.name == '_is_allowed']
    if len(fn) != 1:
        raise TranslatorRefused('_is_allowed not found exactly once')
    assigns = [n for n in ast.walk(fn[0]) if isinstance(n, ast.Assign)
               and len(n.targets) == 1 and isinstance(n.targets[0], ast.Name) and n.targets[0].id == 'not_supported_combo']
    if len(assigns) != 1:
        raise TranslatorRefused('not_supported_combo not assigned exactly once')
    val = assigns[0].value
    if not isinstance(val, ast.List):
        raise TranslatorRefused('not_supported_combo is not a list literal')

    def tup(node):
        if not isinstance(node, ast.Tuple) or not node.elts:
            raise TranslatorRefused('entry component is not a non-empty tuple literal')
        out = []
        for e in node.elts:
            if isinstance(e, ast.Constant) and type(e.value) in (str, int):
                out.append(e.value)
            else:
                raise TranslatorRefused(f'unsupported tuple element {ast.dump(e)}')
        return tuple(out)

    table = []
    for entry in val.elts:
        if not isinstance(entry, ast.Tuple) or len(entry.elts) != 2:
            raise TranslatorRefused('entry is not a pair')
        table.append((tup(entry.elts[0]), tup(entry.elts[1])))
    # the loop that consumes the table must be the known one (prefix match in both orientations)
    src = ast.get_source_segment(source_text, fn[0])
    want = ("(feat_current[: len(feat_1)] == feat_1 and feat[: len(feat_2)] == feat_2)", "or (feat_current[: len(feat_2)] == feat_2 and feat[: len(feat_1)] == feat_1)")
    flat = re.sub(r'\s+', ' ', src)
    for w in want:
        if re.sub(r'\s+', ' ', w) not in flat:
            raise TranslatorRefused('the loop over not_supported_combo changed shape')
    return table


def table_to_coq(table):
    c18 = _c18()

    def atom(a):
        if isinstance(a, int):
            return f'AI ({a})'
        if a not in c18.STR_CODES:
            raise TranslatorRefused(f'string {a!r} has no code in the table of Model.v')
        return f'AS {c18.STR_CODES[a]}'

    def key(k):
        return '[' + '; '.join(atom(a) for a in k) + ']'
    return '[' + ';\n   '.join(f'({key(a)}, {key(b)})' for a, b in table) + ']'


WILDCARD_TABLES = [
    ('absorption.py', 'ABSORPTION_WILDCARD', 'w_absorption'), ('elimination.py', 'ELIMINATION_WILDCARD', 'w_elimination'),
    ('lagtime.py', 'LAGTIME_WILDCARD', 'w_lagtime'), ('direct_effect.py', 'DIRECT_EFFECT_WILDCARD', 'w_direct_effect'),
    ('effect_comp.py', 'EFFECTCOMP_WILDCARD', 'w_effect_comp'), ('metabolite.py', 'METABOLITE_WILDCARD', 'w_metabolite'),
    ('transits.py', 'TRANSITS_DEPOT_WILDCARD', 'w_depot'), ('peripherals.py', 'PERIPHERALS_MODES_WILDCARD', 'w_periph_modes'),
    ('indirect_effect.py', 'INDIRECT_EFFECT_MODES_WILDCARD', 'w_indirect_modes'),
    ('indirect_effect.py', 'INDIRECT_EFFECT_PRODUCTION_WILDCARD', 'w_production'),
]


def translate_wildcard_tuple(source_text, varname):
    """Fail-closed: module level `NAME = tuple([Name(x) for x in ('A', 'B', ...)])` -> ['A', 'B', ...]."""
    tree = ast.parse(source_text)
    assigns = [n for n in tree.body if isinstance(n, ast.Assign) and len(n.targets) == 1
               and isinstance(n.targets[0], ast.Name) and n.targets[0].id == varname]
    if len(assigns) != 1:
        raise TranslatorRefused(f'{varname} not assigned exactly once at module level')
    v = assigns[0].value
    ok = (isinstance(v, ast.Call) and isinstance(v.func, ast.Name) and v.func.id == 'tuple' and len(v.args) == 1 and not v.keywords
          and isinstance(v.args[0], ast.ListComp) and len(v.args[0].generators) == 1)
    if not ok:
        raise TranslatorRefused(f'{varname} is not tuple([... for x in (...)])')
    comp = v.args[0]
    gen = comp.generators[0]
    elt = comp.elt
    ok = (isinstance(elt, ast.Call) and isinstance(elt.func, ast.Name) and elt.func.id == 'Name' and len(elt.args) == 1
          and isinstance(elt.args[0], ast.Name) and isinstance(gen.target, ast.Name) and elt.args[0].id == gen.target.id
          and not gen.ifs and not gen.is_async and isinstance(gen.iter, ast.Tuple))
    if not ok:
        raise TranslatorRefused(f'{varname}: unexpected comprehension shape')
    out = []
    for e in gen.iter.elts:
        if isinstance(e, ast.Constant) and isinstance(e.value, str):
            out.append(e.value)
        else:
            raise TranslatorRefused(f'{varname}: non-string element')
    return out


def regenerate_wildcards(ctx):
    """build/gen/C18/Wildcards.v: the *_WILDCARD tuples of the statement classes are the lists the model uses."""
    c18 = _c18()
    f = GEN / 'Wildcards.v'
    _gen_files.append(f)
    ctx.obligations += len(WILDCARD_TABLES)
    lines = ['(* generated by harness/props/c18_mfl.py from src/pharmpy/tools/mfl/statement/feature/*.py -- do not edit *)',
             'From Coq Require Import List NArith.', 'From PV Require Import C18.Model C18.MflModel.', 'Import ListNotations.']
    try:
        for fname, var, coqname in WILDCARD_TABLES:
            path = mutant_path('pharmpy.tools.mfl.statement.feature.' + fname[:-3]) or (REPO / 'src/pharmpy/tools/mfl/statement/feature' / fname)
            names = translate_wildcard_tuple(Path(path).read_text(), var)
            codes = []
            for n in names:
                if n in c18.STR_CODES:
                    codes.append(c18.STR_CODES[n])
                elif n in MFL_CODES:
                    codes.append(MFL_CODES[n])
                else:
                    raise TranslatorRefused(f'{var}: name {n!r} has no code')
            lines.append(f"Lemma {coqname}_is_source : [{'; '.join(str(c) for c in codes)}]%N = {coqname}.  (* {var} = {names} *)")
            lines.append('Proof. reflexivity. Qed.')
    except TranslatorRefused as e:
        print(f'TRANSLATOR-REFUSED C18 wildcard tables: {e}', flush=True)
        ctx.broken.append(f'TRANSLATOR-REFUSED wildcard tables: {e}')
        return False
    f.write_text('\n'.join(lines) + '\n')
    rc, out = coqc_file(f)
    if rc != 0:
        m = re.search(r'line (\d+)', out)
        ctx.broken.append('a regenerated *_WILDCARD table differs from the list the model uses: ' + out[-300:].replace('\n', ' '))
        return False
    ctx.discharged += len(WILDCARD_TABLES)
    return True


_gen_files = []


def regenerate_tables(ctx, source_path=None):
    """Regenerates build/gen/C18/Table.v from the current source and compiles it: its obligations say
    that the literal table in the source IS the table the theorems are about."""
    GEN.mkdir(parents=True, exist_ok=True)
    source_path = source_path or mutant_path('pharmpy.tools.modelsearch.algorithms')
    src = Path(source_path) if source_path else REPO / 'src/pharmpy/tools/modelsearch/algorithms.py'
    f = GEN / 'Table.v'
    _gen_files[:] = [f]
    ctx.obligations += 2
    try:
        table = translate_not_supported_combo(src.read_text())
        body = table_to_coq(table)
    except TranslatorRefused as e:
        print(f'TRANSLATOR-REFUSED C18 not_supported_combo: {e}', flush=True)
        ctx.broken.append(f'TRANSLATOR-REFUSED not_supported_combo: {e}')
        return False
    f.write_text(
        '(* generated by harness/props/c18_mfl.py from src/pharmpy/tools/modelsearch/algorithms.py — do not edit *)\n'
        'From Coq Require Import List ZArith NArith Bool.\nFrom PV Require Import C18.Model.\nImport ListNotations.\n'
        f'Definition not_supported_combo_src : combo_table :=\n  {body}.\n'
        'Lemma table_is_verified_table : not_supported_combo_src = not_supported_combo.\nProof. reflexivity. Qed.\n'
        '(* no entry can match a PERIPHERALS key (the table check is skipped for those) *)\n'
        'Lemma table_no_peripherals : forallb (fun e => negb (is_prefix (fst e) [AS s_PERIPHERALS]) && negb (is_prefix [AS s_PERIPHERALS] (fst e))\n'
        '   && negb (is_prefix (snd e) [AS s_PERIPHERALS]) && negb (is_prefix [AS s_PERIPHERALS] (snd e))) not_supported_combo_src = true.\n'
        'Proof. vm_compute. reflexivity. Qed.\n')
    rc, out = coqc_file(f)
    ctx.coverage['translator_sha'] = {'not_supported_combo': hashlib.sha256(src.read_bytes()).hexdigest()[:16]}
    ctx.coverage['not_supported_combo_entries'] = len(table)
    if rc != 0:
        ctx.broken.append('regenerated not_supported_combo differs from the verified table (obligation table_is_verified_table fails): '
                          + json.dumps(table))
        ctx.coverage['regenerated_table'] = table
        return False
    ctx.discharged += 2
    return regenerate_wildcards(ctx)


def generated_vfiles():
    return list(_gen_files)


# ------------------------------------------------------------------ feature dictionaries for the search algorithms
POOL = {
    'ABSORPTION': ['FO', 'ZO', 'SEQ-ZO-FO', 'INST'],
    'ELIMINATION': ['FO', 'ZO', 'MM', 'MIX-FO-MM'],
    'LAGTIME': ['OFF', 'ON'],
}


def gen_funcs_spec(rng, max_keys=5, contract=True):
    """A search space as an MFL string + which generated keys to drop (the base model's) + whether to
    sort like modelsearch.tool.filter_mfl_statements."""
    parts = []
    cats = rng.sample(['ABSORPTION', 'ELIMINATION', 'LAGTIME', 'TRANSITS', 'PERIPHERALS'], rng.choice([2, 3, 3, 4, 5]))
    for c in cats:
        if c in POOL:
            modes = rng.sample(POOL[c], rng.choice([1, 1, 2, 2, 3]) if c != 'LAGTIME' else rng.choice([1, 2]))
            parts.append(f"{c}([{','.join(modes)}])")
        elif c == 'TRANSITS':
            counts = sorted(rng.sample([0, 1, 2, 3, 10], rng.choice([1, 1, 2])))
            depot = rng.choice(['DEPOT', 'NODEPOT', '*', 'DEPOT'])
            parts.append(f"TRANSITS([{','.join(map(str, counts))}],{depot})")
        else:
            counts = rng.sample([0, 1, 2, 3, 4], rng.choice([1, 2, 2, 3, 3, 4]))
            # modelsearch hands the algorithms the DRUG peripherals sorted by count (filter('pk') +
            # filter_mfl_statements); anything else only goes to the function-level _is_allowed tie
            if contract or rng.random() < 0.5:
                counts = sorted(counts)
            mode = '' if contract else rng.choice(['', '', '', ',MET', ',*'])
            parts.append(f"PERIPHERALS([{','.join(map(str, counts))}]{mode})")
    return {'mfl': ';'.join(parts), 'drop': rng.choice(['base', 'base', 'none', 'random']),
            'sort': rng.random() < 0.6, 'seed': rng.randrange(10 ** 6), 'max_keys': max_keys}


def gen_periph_perm_spec(rng):
    """peripheral counts listed in any order (also for metabolite compartments / both), handed to the algorithms
    exactly as convert_to_funcs() lists them (no sorting, as a direct caller of the algorithm functions gets them)"""
    counts = rng.choice([[2, 1], [1, 2], [3, 1, 2], [0, 2, 1], [2, 0], [1, 3], [3, 2, 1], [0, 1, 2], [2, 3, 1]])
    if rng.random() < 0.3:
        counts = rng.sample([0, 1, 2, 3, 4], rng.choice([2, 3]))
    mode = rng.choice(['', '', ',DRUG', ',MET', ',MET', ',*'])
    parts = [f"PERIPHERALS([{','.join(map(str, counts))}]{mode})"]
    if rng.random() < 0.5:
        parts.append(rng.choice(['ABSORPTION(ZO)', 'ELIMINATION(MM)', 'LAGTIME(ON)', 'ABSORPTION([ZO,SEQ-ZO-FO])']))
    rng.shuffle(parts)
    return {'mfl': ';'.join(parts), 'drop': rng.choice(['base', 'base', 'none']), 'sort': rng.random() < 0.25,
            'seed': rng.randrange(10 ** 6), 'max_keys': 5, 'keep': 'PERIPHERALS'}


def build_funcs(spec):
    """mfl string -> the real dict of feature keys -> functions, reduced as the tool does."""
    import random

    from pharmpy.tools.mfl.parse import ModelFeatures
    mf = ModelFeatures.create_from_mfl_string(spec['mfl'])
    funcs = mf.convert_to_funcs()
    r = random.Random(spec['seed'])
    keys = list(funcs)
    if spec['drop'] == 'base':
        base = {('ABSORPTION', 'FO'), ('ABSORPTION', 'INST'), ('ELIMINATION', 'FO'), ('LAGTIME', 'OFF'), ('TRANSITS', 0, 'DEPOT'),
                ('PERIPHERALS', 0)}
        keys = [k for k in keys if k not in base]
    elif spec['drop'] == 'random':
        keys = [k for k in keys if r.random() < 0.7]
    while len(keys) > spec.get('max_keys', 5):
        cand = [i for i, k in enumerate(keys) if k[0] != spec.get('keep')] or list(range(len(keys)))
        keys.pop(r.choice(cand))
    res = {k: funcs[k] for k in keys}
    if spec['sort']:
        res = {k: v for k, v in sorted(res.items(), key=lambda x: (x[0][0], x[0][1]))}
    return res


def keys_term(keys, codes):
    c18 = _c18()
    return ct.lst([c18.key_term(k, codes) for k in keys])


def _run_no(name):
    m = re.fullmatch(r'[a-z]+_run(\d+)', name)
    assert m, name
    return int(m.group(1))


def observe_step(spec):
    alg = impl('pharmpy.tools.modelsearch.algorithms')
    c18 = _c18()
    funcs = build_funcs(spec)
    keys = list(funcs)
    codes = c18.Codes()
    wf, model_tasks = alg.exhaustive_stepwise(funcs, 'no_add')
    out = []
    for t in model_tasks:
        (create,) = wf.get_predecessors(t)
        assert create.function is alg.create_candidate_stepwise
        no = _run_no(create.task_input[0])
        path = []
        cur = create
        while True:
            path.append(tuple(cur.task_input[1]))
            preds = wf.get_predecessors(cur)
            if not preds:
                break
            (fit,) = preds
            (cur,) = wf.get_predecessors(fit)
        path.reverse()
        out.append((no, path))
    # no task other than candidate creation + fit
    assert len(wf.tasks) == 2 * len(model_tasks)
    ot = ct.lst([ct.pair(ct.nat(no), keys_term(p, codes)) for no, p in out])
    return (f"(CStep {keys_term(keys, codes)} {ot})",
            {'n_out': len(out), 'n': len(keys), 'maxdepth': max([len(p) for _, p in out] or [0]),
             'periph': sum(1 for k in keys if k[0] == 'PERIPHERALS')})


def observe_exh(spec):
    alg = impl('pharmpy.tools.modelsearch.algorithms')
    c18 = _c18()
    funcs = build_funcs(spec)
    keys = list(funcs)
    codes = c18.Codes()
    wf, model_tasks = alg.exhaustive(funcs, 'no_add')
    out = []
    unordered = False
    for t in wf.tasks:
        if t.function is alg.create_candidate_exhaustive:
            assert not wf.get_predecessors(t)
            combo = [tuple(k) for k in t.task_input[1]]
            fs = t.task_input[2]
            # the functions handed to the candidate are those of the combination ...
            assert set(map(id, fs)) == {id(funcs[k]) for k in combo}
            # ... but create_candidate_exhaustive zips them with the keys: they must come in the keys' order
            if len(combo) > 1 and not (isinstance(fs, (list, tuple)) and all(f is funcs[k] for k, f in zip(combo, fs))):
                unordered = True
            out.append((_run_no(t.task_input[0]), combo))
    assert len(out) == len(model_tasks) and len(wf.tasks) == 2 * len(out)
    ot = ct.lst([ct.pair(ct.nat(no), keys_term(c, codes)) for no, c in out])
    return f"(CExh {keys_term(keys, codes)} {ot} {ct.boolean(unordered)})", {'n_out': len(out), 'n': len(keys)}


def observe_red(spec):
    alg = impl('pharmpy.tools.modelsearch.algorithms')
    c18 = _c18()
    funcs = build_funcs(spec)
    keys = list(funcs)
    codes = c18.Codes()
    wf, model_tasks = alg.reduced_stepwise(funcs, 'no_add')
    tasks = wf.tasks
    create_no = {}
    coll_ix = {}
    for t in tasks:
        if t.function is alg.create_candidate_stepwise:
            create_no[t] = _run_no(t.task_input[0])
        elif t.function is alg.get_best_model:
            coll_ix[t] = len(coll_ix)

    def fit_no(fit):
        (c,) = wf.get_predecessors(fit)
        return create_no[c]

    def upstream_feats(t):
        seen, stack, feats = set(), list(wf.get_predecessors(t)), []
        while stack:
            u = stack.pop()
            if id(u) in seen:
                continue
            seen.add(id(u))
            if u in create_no:
                f = tuple(u.task_input[1])
                if f not in feats:
                    feats.append(f)
            stack.extend(wf.get_predecessors(u))
        return feats

    def pref(t):
        if t in coll_ix:
            return f'(PColl {coll_ix[t]})'
        return f'(PCand {fit_no(t)})'

    out = []
    for t in tasks:
        if t in create_no:
            preds = wf.get_predecessors(t)
            assert len(preds) <= 1
            pr = 'PRoot' if not preds else pref(preds[0])
            out.append((create_no[t], pr, upstream_feats(t), tuple(t.task_input[1])))
    assert [o[0] for o in out] == sorted(o[0] for o in out)
    assert len(model_tasks) == len(out)
    colls = [[pref(m) for m in wf.get_predecessors(t)] for t in tasks if t in coll_ix]
    ot = ct.lst([ct.tup(ct.nat(no), pr, keys_term(ps, codes), c18.key_term(f, codes)) for no, pr, ps, f in out])
    return (f"(CRed {keys_term(keys, codes)} {ot} {ct.lst([ct.lst(c) for c in colls])})",
            {'n_out': len(out), 'n': len(keys), 'collectors': len(colls),
             'periph': sum(1 for k in keys if k[0] == 'PERIPHERALS')})


def observe_allowed(spec):
    import random

    alg = impl('pharmpy.tools.modelsearch.algorithms')
    c18 = _c18()
    funcs = build_funcs(spec)
    keys = list(funcs)
    codes = c18.Codes()
    r = random.Random(spec['seed'] + 1)
    qs = []
    for _ in range(spec.get('nq', 40)):
        if not keys:
            break
        cur = r.choice(keys)
        prev = r.sample(keys, r.randrange(0, len(keys) + 1))
        res = alg._is_allowed(cur, funcs[cur], prev, funcs)
        assert isinstance(res, bool)
        qs.append(ct.tup(c18.key_term(cur, codes), keys_term(prev, codes), ct.boolean(res)))
    return f"(CAllowed {keys_term(keys, codes)} {ct.lst(qs)})", {'n_out': len(qs), 'n': len(keys)}


# ------------------------------------------------------------------ iivsearch brute-force builders
_model_cache = {}


def build_iiv_model(spec):
    key = json.dumps([spec['periph'], spec['remove'], spec['joint'], spec['fix']])
    if key in _model_cache:
        return _model_cache[key]
    from pharmpy.modeling import (add_peripheral_compartment, add_pk_iiv, create_joint_distribution,
                                  fix_parameters, load_example_model, remove_iiv)
    m = load_example_model('pheno')
    for _ in range(spec['periph']):
        m = add_peripheral_compartment(m)
    if spec['periph']:
        m = add_pk_iiv(m)
    if spec['remove']:
        m = remove_iiv(m, spec['remove'])
    for j in spec['joint']:
        m = create_joint_distribution(m, j)
    if spec['fix']:
        m = fix_parameters(m, spec['fix'])
    _model_cache[key] = m
    return m


def sterm_list(l):
    c18 = _c18()
    return '[' + ';'.join(c18.sterm(x) for x in l) + ']%N'


def sterm_list2(ll):
    c18 = _c18()
    return '[' + ';'.join('[' + ';'.join(c18.sterm(x) for x in l) + ']' for l in ll) + ']%N'


def observe_iiv(spec):
    alg = impl('pharmpy.tools.iivsearch.algorithms')
    m = build_iiv_model(spec)
    iivs = m.random_variables.iiv
    fixed = alg._get_fixed_etas(m)
    names = [n for n in iivs.names if n not in fixed]
    off = spec['offset']
    if spec['kind'] == 'iivblock':
        wf = alg.td_exhaustive_block_structure(m, index_offset=off)
        base = [[n for n in d.names if n not in fixed] for d in iivs]
        base = [b for b in base if b]
        out = [(_run_no(t.task_input[0]), [list(b) for b in t.task_input[1]]) for t in wf.tasks
               if t.function is alg.create_block_structure_candidate_entry]
        assert len(wf.tasks) == 2 * len(out)
        ot = '[' + ';'.join(f'({ct.nat(no)}, {sterm_list2(p)})' for no, p in out) + ']'
        return (f"(CIivBlock {sterm_list(names)} {sterm_list2(base)} {ct.nat(off)} {ot})",
                {'n_out': len(out), 'n': len(names), 'fixed': len(fixed)})
    wf = alg.td_exhaustive_no_of_etas(m, index_offset=off)
    out = [(_run_no(t.task_input[0]), list(t.task_input[1])) for t in wf.tasks
           if t.function is alg.create_no_of_etas_candidate_entry]
    assert len(wf.tasks) == 2 * len(out)
    ot = '[' + ';'.join(f'({ct.nat(no)}, {sterm_list(p)})' for no, p in out) + ']'
    return (f"(CIivSub {sterm_list(names)} {ct.nat(off)} {ot})", {'n_out': len(out), 'n': len(names), 'fixed': len(fixed)})


def observe_iov(spec):
    """iovsearch.wf_etas_removal with the subsets the tool passes (non_empty_proper_subsets of the IOV parameters,
    non_empty_subsets of the IIV parameters); the task inputs hold the etas to remove and the candidate number"""
    iov = impl('pharmpy.tools.iovsearch.tool')
    names = spec['names']
    gen = iov.non_empty_proper_subsets if spec['proper'] else iov.non_empty_subsets
    wf = iov.wf_etas_removal(iov.remove_iov if spec['proper'] else iov.remove_iiv, None, gen(names), spec['i'])
    out = [(t.task_input[3], list(t.task_input[2])) for t in wf.tasks if t.function is iov.create_candidate_model_entry]
    assert all(t.task_input[0] is (iov.remove_iov if spec['proper'] else iov.remove_iiv) for t in wf.tasks
               if t.function is iov.create_candidate_model_entry)
    ot = '[' + ';'.join(f'({ct.nat(no)}, {sterm_list(p)})' for no, p in out) + ']'
    return (f"(CIov {sterm_list(names)} {ct.boolean(spec['proper'])} {ct.nat(spec['i'])} {ot})",
            {'n_out': len(out), 'n': len(names)})


_cov_probe = {}


def covsearch_probe():
    """the real covsearch.tool source loaded as a second module instance whose module-level names
    lrt_best_of_many / is_strictness_fulfilled (the fit-dependent engine) are replaced by an oracle"""
    import importlib.util
    import sys
    if 'm' in _cov_probe:
        return _cov_probe['m']
    real = impl('pharmpy.tools.covsearch.tool')
    path = mutant_path('pharmpy.tools.covsearch.tool') or real.__file__
    spec = importlib.util.spec_from_file_location('pharmpy.tools.covsearch.tool_c18probe', path)
    mod = importlib.util.module_from_spec(spec)
    mod.__package__ = 'pharmpy.tools.covsearch'
    sys.modules['pharmpy.tools.covsearch.tool_c18probe'] = mod
    spec.loader.exec_module(mod)
    mod.is_strictness_fulfilled = lambda model, res, strictness: True

    def best_of_many(parent, models, parent_ofv, ofvs, alpha):
        if not models:
            return parent
        b = min(range(len(models)), key=lambda i: ofvs[i])
        return models[b] if ofvs[b] < parent_ofv else parent
    mod.lrt_best_of_many = best_of_many
    _cov_probe['m'] = mod
    return mod


def observe_cov(spec):
    import itertools
    mod = covsearch_probe()
    codes = MflCodes()

    class Res:
        def __init__(self, ofv):
            self.ofv = ofv

    class ME:
        def __init__(self, name, ofv):
            self.model = name
            self.modelfit_results = Res(ofv)
    effects = [tuple(e) for e in spec['effects']]
    log = []
    parent = mod.Candidate(ME('start', 1000.0), ())
    allc = [parent] + [mod.Candidate(ME(f'x{i}', 2000.0), ()) for i in range(spec['n_all'] - 1)]
    it = iter(spec['winners'])

    def handle(step, par, cef, index_offset):
        log.append((list(cef.keys()), index_offset))
        w = next(it, None)
        base = par.modelentry.modelfit_results.ofv
        return [mod.Candidate(ME(f's{step}_{i}', base - 10 if (w is not None and i == w) else base + 5),
                              par.steps + (mod.ForwardStep(0.05, mod.AddEffect(*e)),)) for i, e in enumerate(cef.keys())]
    ms = spec['max_steps']
    steps = range(1, ms + 1) if ms >= 0 else itertools.count(1)
    mod.perform_step_procedure(steps, {e: (lambda m: m) for e in effects}, handle, allc, parent, None, 0.05, False)

    def eff(e):
        return '(' + ', '.join(f'{codes.code(x)}%N' for x in e) + ')'
    wt = ct.lst(['None' if w is None else f'(Some {ct.nat(w)})' for w in spec['winners']])
    ot = ct.lst([f'({ct.lst([eff(e) for e in c])}, {ct.nat(k)})' for c, k in log])
    return (f"(CCov {ct.lst([eff(e) for e in effects])} {wt} {ct.nat(spec['n_all'])} ({ms})%Z {ot})",
            {'n_out': sum(len(c) for c, _ in log), 'n': len(effects), 'steps': len(log)})


def gen_cov_spec(rng):
    pars, covs, fps = ['CL', 'VC', 'MAT'], ['WGT', 'AGE', 'SEX'], ['exp', 'lin', 'pow']
    effects = []
    for p in rng.sample(pars, rng.choice([1, 2, 3])):
        for c in rng.sample(covs, rng.choice([1, 2, 3])):
            for f in rng.sample(fps, rng.choice([1, 1, 2])):
                effects.append([p, c, f, '*'])
    rng.shuffle(effects)
    winners, n = [], len(effects)
    for _ in range(rng.choice([1, 2, 3, 4, 6])):
        winners.append(rng.randrange(max(1, n)) if rng.random() < 0.85 else None)
        n = max(1, n - 1)
    return {'kind': 'cov', 'effects': effects, 'winners': winners, 'n_all': rng.choice([1, 1, 3]),
            'max_steps': rng.choice([-1, -1, 1, 2, 5])}


IIV_SHAPES = [
    {'periph': 0, 'remove': [], 'joint': [], 'fix': []},
    {'periph': 0, 'remove': [], 'joint': [['ETA_CL', 'ETA_VC']], 'fix': []},
    {'periph': 1, 'remove': [], 'joint': [], 'fix': []},
    {'periph': 1, 'remove': [], 'joint': [['ETA_CL', 'ETA_VC']], 'fix': []},
    {'periph': 1, 'remove': [], 'joint': [['ETA_CL', 'ETA_VC'], ['ETA_QP1', 'ETA_VP1']], 'fix': []},
    {'periph': 1, 'remove': [], 'joint': [['ETA_CL', 'ETA_VC', 'ETA_QP1', 'ETA_VP1']], 'fix': []},
    {'periph': 1, 'remove': ['ETA_VP1'], 'joint': [['ETA_VC', 'ETA_QP1']], 'fix': []},
    {'periph': 1, 'remove': [], 'joint': [['ETA_CL', 'ETA_VC']], 'fix': ['IIV_QP1']},
    {'periph': 2, 'remove': ['ETA_QP2'], 'joint': [['ETA_CL', 'ETA_VP2']], 'fix': []},
    {'periph': 2, 'remove': [], 'joint': [['ETA_VC', 'ETA_QP1'], ['ETA_CL', 'ETA_VP2']], 'fix': []},
]


# ------------------------------------------------------------------ dispatch
class ImplTimeout(Exception):
    pass


def with_time_limit(seconds, fn, *args):
    """The builders are proved to end after |keys|+1 passes in the model; an implementation that does
    not come back is reported (with the spec) instead of hanging the check."""
    import signal

    def handler(signum, frame):
        raise ImplTimeout()
    old = signal.signal(signal.SIGALRM, handler)
    signal.alarm(seconds)
    try:
        return fn(*args)
    finally:
        signal.alarm(0)
        signal.signal(signal.SIGALRM, old)


def observe(spec):
    kind = spec['kind']
    if kind == 'step':
        return observe_step(spec)
    if kind == 'red':
        return observe_red(spec)
    if kind == 'exh':
        return observe_exh(spec)
    if kind in ('iivblock', 'iivsub'):
        return observe_iiv(spec)
    if kind == 'mfl':
        return observe_mfl(spec)
    if kind == 'teq':
        return observe_teq(spec)
    if kind == 'lnt':
        return observe_lnt(spec)
    if kind == 'parse':
        return observe_parse(spec)
    if kind == 'iov':
        return observe_iov(spec)
    if kind == 'cov':
        return observe_cov(spec)
    if kind == 'allowed':
        return observe_allowed(spec)
    raise ValueError('unknown spec kind ' + str(kind))


def gen_specs(rng, tier):
    specs = []
    n = 40 if tier == 'quick' else 400
    for _ in range(n):
        s = gen_funcs_spec(rng, max_keys=rng.choice([3, 4, 4, 5]))
        specs.append({'kind': 'step', **s})
    for _ in range(n):
        s = gen_funcs_spec(rng, max_keys=rng.choice([3, 4, 5, 5, 6]))
        specs.append({'kind': 'red', **s})
    for _ in range(30 if tier == 'quick' else 300):
        specs.append({'kind': rng.choice(['step', 'step', 'red', 'allowed']), 'nq': 40, **gen_periph_perm_spec(rng)})
    for _ in range(n):
        s = gen_funcs_spec(rng, max_keys=8, contract=False)
        specs.append({'kind': 'allowed', 'nq': 40, **s})
    for _ in range(n // 2):
        s = gen_funcs_spec(rng, max_keys=rng.choice([4, 6, 8, 9]))
        specs.append({'kind': 'exh', **s})
    for fam, k in (('pk', 60), ('pk_wild', 30), ('cov', 50), ('pd', 40), ('mixed', 40)):
        for _ in range(k if tier == 'quick' else 12 * k):
            specs.append(gen_mfl_spec(rng, fam))
    for _ in range(20 if tier == 'quick' else 200):
        specs.append(gen_teq_spec(rng))
    for _ in range(60 if tier == 'quick' else 800):
        specs.append(gen_lnt_spec(rng))
    specs += gen_parse_specs(rng, 200 if tier == 'quick' else 2500)
    for _ in range(40 if tier == 'quick' else 400):
        specs.append(gen_cov_spec(rng))
    for n in range(0, 6 if tier == 'quick' else 9):
        names = [f'ETA_IOV_{k}_1' for k in range(1, n + 1)]
        rng.shuffle(names)
        specs.append({'kind': 'iov', 'names': names, 'proper': True, 'i': rng.choice([2, 2, 5])})
        specs.append({'kind': 'iov', 'names': [f'ETA_{k}' for k in range(1, n + 1)], 'proper': False, 'i': rng.choice([2, 9, 40])})
    shapes = IIV_SHAPES[:7] if tier == 'quick' else IIV_SHAPES
    for sh in shapes:
        specs.append({'kind': 'iivblock', 'offset': rng.choice([0, 0, 3, 17]), **sh})
        specs.append({'kind': 'iivsub', 'offset': rng.choice([0, 0, 5]), **sh})
    return specs


# oracle tag -> candidate (guard tag, finding) pairs, first guard that is false and whose finding is open wins
MFL_FINDINGS = {
    74: [(212, 'C18-EQ-TUPLES-STRUCTURAL'), (213, 'C18-EQ-IGNORES-METABOLITE')],
    75: [(214, 'C18-SUBSET-TRANSITS-PRODUCT')],
    761: [(210, 'C18-MFL-WILDCARD')],
    762: [(210, 'C18-MFL-WILDCARD'), (215, 'C18-SUB-PD-EMPTY')],
    763: [(210, 'C18-MFL-WILDCARD')], 764: [(210, 'C18-MFL-WILDCARD')], 765: [(210, 'C18-MFL-WILDCARD')],
    766: [(210, 'C18-MFL-WILDCARD')],
    71: [(217, 'C18-LET-BYPASSES-VALIDATION')],
}


def explain(ctx, spec, tag, tags):
    """An oracle failure is a known finding when the faithful model explains it (no correspondence tag),
    the guard conjunct of that finding is false on this input, and the finding is listed open."""
    if set(tags) & set(_c18().CORR):
        return None
    for guard_tag, fid in MFL_FINDINGS.get(tag, []):
        if guard_tag in tags and ctx.open_finding(fid):
            return fid
    return None


def distribution(kept, verdicts, infos):
    d = {'stepwise_three_or_more_peripherals': 0, 'stepwise_unsorted_peripherals': 0, 'stepwise_max_depth': 0, 'reduced_collectors': 0}
    for s, v, i in zip(kept, verdicts, infos):
        if s['kind'] in ('step', 'red') and i.get('periph', 0) >= 3:
            d['stepwise_three_or_more_peripherals'] += 1
        if s['kind'] in ('step', 'red') and s.get('keep') == 'PERIPHERALS' and not s.get('sort'):
            d['stepwise_unsorted_peripherals'] += 1
        if s['kind'] == 'step':
            d['stepwise_max_depth'] = max(d['stepwise_max_depth'], i.get('maxdepth', 0))
        if s['kind'] == 'red':
            d['reduced_collectors'] += i.get('collectors', 0)
    fam, errs, guards = {}, {}, {}
    names = {210: 'g_no_wildcard', 212: 'g_tuples_canonical', 213: 'g_same_metabolite',
             214: 'g_transits_product', 215: 'g_pd_difference', 216: 'contain_subset_outside_pk_domain',
             217: 'g_let_not_forced', 220: 'transits_eq_wildcard_vs_list'}
    for s, v, i in zip(kept, verdicts, infos):
        if s['kind'] in ('mfl', 'lnt', 'teq', 'exh'):
            if s['kind'] == 'mfl':
                fam[s.get('family', '?')] = fam.get(s.get('family', '?'), 0) + 1
            for op, e in (i.get('errors') or {}).items():
                errs[f'{op}:{e}'] = errs.get(f'{op}:{e}', 0) + 1
            for t in set(v):
                if t in names:
                    guards[names[t]] = guards.get(names[t], 0) + 1
    d['reference_parser_outcomes'] = {}
    for s, i in zip(kept, infos):
        if s['kind'] == 'parse':
            o = i.get('parse_outcome', '?')
            d['reference_parser_outcomes'][o] = d['reference_parser_outcomes'].get(o, 0) + 1
    d['mfl_families'] = fam
    d['mfl_implementation_errors'] = errs
    d['guard_false_counts'] = guards
    return d


# ------------------------------------------------------------------ the search-space algebra (ModelFeatures)
MFL_CODES = {
    'LINEAR': 32, 'EMAX': 33, 'SIGMOID': 34, 'PSC': 35, 'BASIC': 36, 'DEGRADATION': 37, 'PRODUCTION': 38,
    'LIN': 40, 'PIECE_LIN': 41, 'EXP': 42, 'POW': 43,
}


class MflCodes:
    def __init__(self):
        self.extra = {}

    def code(self, s):
        c18 = _c18()
        if s in c18.STR_CODES:
            return c18.STR_CODES[s]
        if s in MFL_CODES:
            return MFL_CODES[s]
        if s not in self.extra:
            self.extra[s] = 1000 + len(self.extra)
        return self.extra[s]


class Unexportable(Exception):
    pass


class Rejected(Exception):
    """the real parser refuses the generated text with its documented ValueError"""


def _nlist(xs):
    return '[' + ';'.join(str(int(x)) for x in xs) + ']%N'


def modes_term(m, codes, ints=False):
    from pharmpy.tools.mfl.statement.feature.symbols import Name, Wildcard
    if m is None:
        return 'MNone'
    if isinstance(m, Wildcard):
        return 'MWild'
    if isinstance(m, tuple):
        out = []
        for x in m:
            if ints:
                if not isinstance(x, int) or isinstance(x, bool) or x < 0:
                    raise Unexportable(f'count {x!r}')
                out.append(x)
            else:
                if not isinstance(x, Name):
                    raise Unexportable(f'mode {x!r}')
                out.append(codes.code(x.name))
        return f'(MList {_nlist(out)})'
    raise Unexportable(f'modes attribute {m!r}')


def opt_modes_term(st, codes):
    return 'None' if st is None else f'(Some {modes_term(st.modes, codes)})'


def mf_term(mf, codes):
    from pharmpy.tools.mfl.statement.feature.covariate import Ref
    from pharmpy.tools.mfl.statement.feature.symbols import Wildcard
    tr = ct.lst([f'(mkP {modes_term(t.counts, codes, ints=True)} {modes_term(t.depot, codes)})' for t in mf.transits])
    pe = ct.lst([f'(mkP {modes_term(p.counts, codes, ints=True)} {modes_term(p.modes, codes)})' for p in mf.peripherals])
    ie = ct.lst([f'(mkP {modes_term(i.modes, codes)} {modes_term(i.production, codes)})' for i in mf.indirect_effect])
    cvs = []
    for c in mf.covariate:
        if isinstance(c.parameter, (Ref, Wildcard)) or isinstance(c.covariate, (Ref, Wildcard)):
            raise Unexportable('covariate reference / wildcard')
        fp = 'MWild' if isinstance(c.fp, Wildcard) else f'(MList {_nlist([codes.code(f) for f in c.fp])})'
        cvs.append(f'(mkC {_nlist([codes.code(p) for p in c.parameter])} {_nlist([codes.code(v) for v in c.covariate])} {fp} '
                   f'{codes.code("op" + c.op)}%N {ct.boolean(c.optional.option)})')
    return (f'(mkMF {opt_modes_term(mf.absorption, codes)} {opt_modes_term(mf.elimination, codes)} {tr} {pe} '
            f'{opt_modes_term(mf.lagtime, codes)} {ct.lst(cvs)} {opt_modes_term(mf.direct_effect, codes)} '
            f'{opt_modes_term(mf.effect_comp, codes)} {ie} {opt_modes_term(mf.metabolite, codes)})')


def obs_term(fn, to_term):
    try:
        r = fn()
    except TypeError:
        return 'OTypeError', 'TypeError'
    except AttributeError:
        return 'OAttributeError', 'AttributeError'
    except Exception as e:  # any other exception class
        return 'OOther', type(e).__name__
    try:
        return f'(OOk {to_term(r)})', 'ok'
    except Unexportable as e:
        return 'OOther', f'unexportable result: {e}'


def bool_term(r):
    if r is True or r is False:
        return ct.boolean(r)
    raise Unexportable(f'non-bool {r!r}')


def roundtrip_code(parse, mf):
    """parse(stringify(parse(s))) == parse(s): compared attribute by attribute (dataclass equality of the
    statement tuples would use the classes' own __eq__), and the printed form is a fixed point.
    0 = holds, 1 = the parser refuses the printed form (ValueError), 2 = anything else."""
    try:
        s = repr(mf)
        r = parse(s, True)
        return 0 if (attrs_key(r) == attrs_key(mf) and repr(r) == s) else 2
    except ValueError:
        return 1
    except Exception:
        return 2


def vstmts_term(parse, text, codes):
    """the COVARIATE statements of the raw parse, as validate_mfl_list sees them, with the (parameter,
    covariate) pairs they stand for after LET substitution"""
    from pharmpy.tools.mfl.statement.definition import Let
    from pharmpy.tools.mfl.statement.feature.covariate import Covariate, Ref
    stmts = parse(text, False)
    lets = {s.name: s.value for s in stmts if isinstance(s, Let)}
    out = []
    for s in stmts:
        if isinstance(s, Covariate):
            isref = isinstance(s.parameter, Ref) or isinstance(s.covariate, Ref)
            par = lets.get(s.parameter.name, ()) if isinstance(s.parameter, Ref) else s.parameter
            cov = lets.get(s.covariate.name, ()) if isinstance(s.covariate, Ref) else s.covariate
            if not isinstance(par, tuple) or not isinstance(cov, tuple):
                raise Unexportable('covariate wildcard')
            pairs = '[' + ';'.join(f'({codes.code(p)}, {codes.code(c)})' for p in par for c in cov) + ']%N'
            out.append(f'(mkV {ct.boolean(isref)} {ct.boolean(not s.optional.option)} {pairs})')
    return ct.lst(out)


def attrs_key(mf):
    def st(x):
        if x is None:
            return None
        d = {}
        for k, v in vars(x).items():
            d[k] = repr(v)
        return (type(x).__name__, tuple(sorted(d.items())))
    return (st(mf.absorption), st(mf.elimination), tuple(st(t) for t in mf.transits), tuple(st(p) for p in mf.peripherals),
            st(mf.lagtime), tuple(st(c) for c in mf.covariate), st(mf.direct_effect), st(mf.effect_comp),
            tuple(st(i) for i in mf.indirect_effect), st(mf.metabolite), st(mf.allometry))


def observe_teq(spec):
    tm = impl('pharmpy.tools.mfl.statement.feature.transits')
    from pharmpy.tools.mfl.statement.feature.symbols import Name, Wildcard
    codes = MflCodes()

    def mk(t):
        counts, depot = t
        return tm.Transits(tuple(counts), Wildcard() if depot == '*' else tuple(Name(d) for d in depot))
    t1, t2 = mk(spec['t1']), mk(spec['t2'])
    r = (t1 == t2)
    if isinstance(r, tuple):
        is_bool, truth = False, bool(r)
    elif isinstance(r, bool):
        is_bool, truth = True, r
    else:
        raise Unexportable(f'Transits.__eq__ returned {r!r}')

    def term(t):
        return f'(mkP {modes_term(t.counts, codes, ints=True)} {modes_term(t.depot, codes)})'
    return (f'(CTeq {term(t1)} {term(t2)} {ct.boolean(is_bool)} {ct.boolean(truth)})', {'n_out': 1, 'n': 2})


def gen_teq_spec(rng):
    def t():
        counts = rng.sample([0, 1, 2, 3], rng.choice([1, 2]))
        depot = rng.choice([['DEPOT'], ['NODEPOT'], ['DEPOT', 'NODEPOT'], '*'])
        return [counts, depot]
    a = t()
    b = [list(a[0]), a[1]] if rng.random() < 0.4 else t()
    if rng.random() < 0.5:
        rng.shuffle(b[0])
    return {'kind': 'teq', 't1': a, 't2': b}


_lark_parser = {}


def observe_parse(spec):
    """the real lark parse + MFLInterpreter (the two steps of parse._parse before validate_mfl_list) of a text,
    exported as generic statements NAME[?](args) with the attributes in declaration order"""
    import dataclasses
    c18 = _c18()
    gm = impl('pharmpy.tools.mfl.grammar')
    im = impl('pharmpy.tools.mfl.interpreter')
    from lark import Lark
    from lark.exceptions import UnexpectedInput
    from pharmpy.tools.mfl.statement.definition import Let
    from pharmpy.tools.mfl.statement.feature.allometry import Allometry
    from pharmpy.tools.mfl.statement.feature.covariate import Covariate, Ref
    from pharmpy.tools.mfl.statement.feature.symbols import Name, Wildcard
    if 'p' not in _lark_parser:
        _lark_parser['p'] = Lark(gm.grammar, start='start', parser='lalr', propagate_positions=False,
                                 maybe_placeholders=False, debug=False, cache=True)
    text = spec['text']

    def st(x):
        return c18.sterm(x) + '%N'
    if any(ord(ch) > 126 for ch in text):
        raise Unexportable('non-ascii text')

    def arg(v):
        if isinstance(v, Wildcard):
            return 'AWild'
        if isinstance(v, Ref):
            return f'(ARef {st(v.name)})'
        if isinstance(v, str):
            return f'(AVals [IWord {st(v)}])'
        if not isinstance(v, tuple):
            raise Unexportable(f'attribute {v!r}')
        its = []
        for x in v:
            if isinstance(x, Name):
                its.append(f'IWord {st(x.name)}')
            elif isinstance(x, str):
                its.append(f'IWord {st(x)}')
            elif isinstance(x, int) and not isinstance(x, bool):
                its.append(f'INum {x}%N')
            else:
                raise Unexportable(f'element {x!r}')
        return '(AVals [' + ';'.join(its) + '])'

    def stmt(stm):
        name = type(stm).__name__.upper()
        if isinstance(stm, Allometry):
            r = repr(float(stm.reference))
            r = r[:-2] if r.endswith('.0') else r
            if 'e' in r or 'n' in r:
                raise Unexportable('float repr ' + r)
            return f'(mkS {st(name)} false [AVals [IWord {st(stm.covariate)}]; AVals [IWord {st(r)}]])'
        if isinstance(stm, Let):
            return f'(mkS {st("LET")} false [AVals [IWord {st(stm.name)}]; {arg(stm.value)}])'
        if isinstance(stm, Covariate):
            return (f'(mkS {st(name)} {ct.boolean(stm.optional.option)} '
                    f'[{arg(stm.parameter)}; {arg(stm.covariate)}; {arg(stm.fp)}; {arg(stm.op)}])')
        return f'(mkS {st(name)} false [' + '; '.join(arg(getattr(stm, f.name)) for f in dataclasses.fields(stm)) + '])'
    try:
        tree = _lark_parser['p'].parse(text)
        stmts = im.MFLInterpreter().interpret(tree)
        obs, outcome = '(Some [' + '; '.join(stmt(x) for x in stmts) + ']) false', 'accepted'
    except Unexportable:
        raise
    except UnexpectedInput as e:     # lark's UnexpectedToken / UnexpectedCharacters ...
        obs, outcome = 'None false', type(e).__name__
    except Exception as e:           # anything else comes out of the interpreter
        obs, outcome = 'None true', 'internal ' + type(e).__name__
    return f'(CParse {st(text)} {obs})', {'n_out': 1, 'n': len(text), 'parse_outcome': outcome}


def gen_parse_specs(rng, n):
    """well-formed texts from the grammar-based generator and a malformed stream (one edit each)"""
    texts = []
    while len(texts) < n:
        s = gen_mfl_spec(rng, rng.choice(['pk', 'pk_wild', 'cov', 'pd', 'mixed']))
        texts += [s['a'], s['b']]
    # lower / mixed case spellings (lark's keywords are case-insensitive, values are upper-cased by the interpreter)
    texts += [''.join(ch.lower() if rng.random() < 0.4 else ch for ch in t) for t in texts[:n // 4]]
    # ALLOMETRY(value[, decimal])
    for _ in range(max(10, n // 10)):
        cov = rng.choice(['WT', 'wt', 'W-T', '70', 'Wgt2'])
        ref = rng.choice(['', ',70', ',70.0', ',1.50', ',007.250', ',0.5', ', 12', ',3.', '.5', ',1.2.3', ',70.5x', ',[70]'])
        pre = rng.choice(['', 'ABSORPTION(FO);', 'LAGTIME(ON)\n'])
        texts.append(pre + rng.choice(['ALLOMETRY', 'allometry', 'Allometry']) + '(' + cov + ref + ')')
    n = len(texts)
    out = [{'kind': 'parse', 'text': t} for t in texts[:n]]
    for t in texts[:n // 2]:
        k = rng.choice(['del', 'ins', 'ins', 'swap', 'space', 'newline'])
        i = rng.randrange(len(t))
        if k == 'del':
            m = t[:i] + t[i + 1:]
        elif k == 'ins':
            m = t[:i] + rng.choice('()[],;*?@.1A-_+ ') + t[i:]
        elif k == 'swap' and i + 1 < len(t):
            m = t[:i] + t[i + 1] + t[i] + t[i + 2:]
        elif k == 'space':
            m = t[:i] + ' ' + t[i:]
        else:
            m = t.replace(';', '\n', 1)
        if m:
            out.append({'kind': 'parse', 'text': m, 'mutated': True})
    return out


def observe_lnt(spec):
    pm = impl('pharmpy.tools.mfl.parse')
    c18 = _c18()
    codes = MflCodes()
    a = pm.parse(spec['a'], True)
    b = pm.parse(spec['b'], True)

    def keys_term_of(d):
        kc = c18.Codes()
        return ct.lst([c18.key_term(k, kc) for k in d.keys()])
    o, err = obs_term(lambda: a.least_number_of_transformations(b, tool='modelsearch'), keys_term_of)
    info = {'n_out': 1, 'n': len(spec['b']), 'errors': {} if err == 'ok' else {'lnt': err}}
    return f'(CLnt {mf_term(a, codes)}\n {mf_term(b, codes)}\n {o})', info


def gen_lnt_spec(rng):
    if rng.random() < 0.3:
        # a whole space on the left: nothing is needed as soon as ONE of its modes is offered by the other space
        a = render_denotation(rng, {k: v for k, v in gen_denotation(rng, 'pk').items() if k in ('A', 'E', 'L')} or {'A': ['FO', 'ZO']})
        b = render_denotation(rng, gen_denotation(rng, 'pk'))
        return {'kind': 'lnt', 'a': a, 'b': b or 'ABSORPTION(FO)'}
    a = ';'.join([f"ABSORPTION({rng.choice(G_ABS)})", f"ELIMINATION({rng.choice(G_ELI)})",
                  f"TRANSITS({rng.choice([0, 0, 1, 3])}{rng.choice(['', ',DEPOT', ',NODEPOT'])})",
                  f"PERIPHERALS({rng.choice([0, 0, 1, 2])})", f"LAGTIME({rng.choice(G_LAG)})"])
    fam = rng.choice(['pk', 'pk', 'pk', 'pk_wild'])
    b = render_denotation(rng, gen_denotation(rng, fam), wild=(fam == 'pk_wild'))
    return {'kind': 'lnt', 'a': a, 'b': b or 'ABSORPTION(FO)'}


def observe_mfl(spec):
    pm = impl('pharmpy.tools.mfl.parse')
    parse = pm.parse
    codes = MflCodes()
    try:
        a = parse(spec['a'], True)
        b = parse(spec['b'], True)
    except ValueError as e:      # validate_mfl_list: a covariate effect forced by several statements
        raise Rejected(str(e)[:80])
    ta, tb = mf_term(a, codes), mf_term(b, codes)
    info = {'n_out': 5, 'n': len(spec['a']) + len(spec['b']), 'errors': {}}
    add_t, e1 = obs_term(lambda: a + b, lambda r: mf_term(r, codes))
    sub_t, e2 = obs_term(lambda: a - b, lambda r: mf_term(r, codes))
    eq_t, e3 = obs_term(lambda: a == b, bool_term)
    eqr_t, e4 = obs_term(lambda: b == a, bool_term)
    sup_t, e5 = obs_term(lambda: a.contain_subset(b), bool_term)
    for op, e in (('add', e1), ('sub', e2), ('eq', e3), ('eq_rev', e4), ('contain_subset', e5)):
        if e != 'ok':
            info['errors'][op] = e
    term = (f'(CMfl (mkMflCase {ta}\n {tb}\n {add_t}\n {sub_t}\n {eq_t} {eqr_t} {sup_t} '
            f"{vstmts_term(parse, spec['a'], codes)} {vstmts_term(parse, spec['b'], codes)} "
            f'{ct.nat(roundtrip_code(parse, a))} {ct.nat(roundtrip_code(parse, b))}))')
    return term, info


# ---- generator of MFL strings from the grammar: a random denotation per category, rendered in a random style
G_ABS = ['FO', 'ZO', 'SEQ-ZO-FO', 'INST']
G_ELI = ['FO', 'ZO', 'MM', 'MIX-FO-MM']
G_LAG = ['ON', 'OFF']
G_PD = ['LINEAR', 'EMAX', 'SIGMOID']
G_PROD = ['PRODUCTION', 'DEGRADATION']
G_MET = ['PSC', 'BASIC']
G_PAR = ['CL', 'VC', 'MAT', 'QP1']
G_COV = ['WGT', 'AGE', 'SEX']
G_FP = ['LIN', 'EXP', 'POW', 'PIECE_LIN', 'CAT', 'CAT2']


def _subset(rng, pool, lo=1):
    k = rng.randint(lo, len(pool))
    return rng.sample(pool, k)


def gen_denotation(rng, family):
    d = {}
    pk = family in ('pk', 'pk_wild', 'mixed')
    if pk:
        cats = rng.sample(['A', 'E', 'L', 'T', 'P'], rng.choice([1, 2, 3, 4, 5]))
        if 'A' in cats:
            d['A'] = _subset(rng, G_ABS)
        if 'E' in cats:
            d['E'] = _subset(rng, G_ELI)
        if 'L' in cats:
            d['L'] = _subset(rng, G_LAG)
        if 'T' in cats:
            d['T'] = [(c, dp) for dp in _subset(rng, ['DEPOT', 'NODEPOT']) for c in _subset(rng, [0, 1, 2, 3, 10])]
        if 'P' in cats:
            d['P'] = [(c, m) for m in _subset(rng, ['DRUG', 'MET'] if rng.random() < 0.4 else ['DRUG']) for c in _subset(rng, [0, 1, 2, 3])]
    if family in ('cov', 'mixed'):
        blocks = []
        for _ in range(rng.choice([1, 1, 2, 3])):
            blocks.append((sorted(_subset(rng, G_PAR)[:2]), sorted(_subset(rng, G_COV)[:2]), sorted(_subset(rng, G_FP)[:3]),
                           rng.choice(['*', '*', '+']), rng.random() < 0.7))
        d['C'] = blocks
    if family in ('pd', 'mixed'):
        cats = rng.sample(['D', 'F', 'I', 'M'], rng.choice([1, 2, 3, 4]))
        if 'D' in cats:
            d['D'] = _subset(rng, G_PD)
        if 'F' in cats:
            d['F'] = _subset(rng, G_PD)
        if 'M' in cats:
            d['M'] = _subset(rng, G_MET)
        if 'I' in cats:
            d['I'] = [(m, p) for p in _subset(rng, G_PROD) for m in _subset(rng, G_PD)]
    return d


def mutate_denotation(rng, d):
    """a related denotation: same / one element dropped / one element added / a category dropped"""
    import copy
    d = copy.deepcopy(d)
    if not d:
        return d
    how = rng.choice(['same', 'same', 'drop', 'drop', 'add', 'dropcat', 'flag'])
    k = rng.choice(list(d))
    pools = {'A': G_ABS, 'E': G_ELI, 'L': G_LAG, 'D': G_PD, 'F': G_PD, 'M': G_MET}
    if how == 'drop':
        if k == 'C':
            if len(d['C']) > 1:
                d['C'].pop(rng.randrange(len(d['C'])))
            else:
                p, c, f, o, t = d['C'][0]
                if len(f) > 1:
                    d['C'][0] = (p, c, f[:-1], o, t)
        elif len(d[k]) > 1:
            d[k].pop(rng.randrange(len(d[k])))
    elif how == 'add':
        if k in pools:
            extra = [x for x in pools[k] if x not in d[k]]
            if extra:
                d[k].append(rng.choice(extra))
        elif k == 'T':
            d[k].append((rng.choice([4, 5, 7]), rng.choice(['DEPOT', 'NODEPOT'])))
        elif k == 'P':
            d[k].append((rng.choice([4, 5]), 'DRUG'))
        elif k == 'I':
            extra = [(m, p) for m in G_PD for p in G_PROD if (m, p) not in d[k]]
            if extra:
                d[k].append(rng.choice(extra))
        elif k == 'C':
            d['C'].append((['CL'], ['WGT'], ['EXP'], '*', rng.random() < 0.5))
    elif how == 'dropcat' and len(d) > 1:
        del d[k]
    elif how == 'flag' and 'C' in d:
        i = rng.randrange(len(d['C']))
        p, c, f, o, t = d['C'][i]
        d['C'][i] = (p, c, f, o, not t)
    return d


def _lst(rng, xs, allow_single=True):
    xs = list(xs)
    rng.shuffle(xs)
    if len(xs) == 1 and allow_single and rng.random() < 0.6:
        return str(xs[0])
    return '[' + ','.join(map(str, xs)) + ']'


def _counts(rng, cs):
    cs = sorted(set(cs))
    if len(cs) >= 2 and cs == list(range(cs[0], cs[-1] + 1)) and rng.random() < 0.6:
        return f'{cs[0]}..{cs[-1]}'
    return _lst(rng, cs)


def render_denotation(rng, d, wild=False):
    st = []
    names = {'A': ('ABSORPTION', G_ABS), 'E': ('ELIMINATION', G_ELI), 'L': ('LAGTIME', G_LAG),
             'D': ('DIRECTEFFECT', G_PD), 'F': ('EFFECTCOMP', G_PD), 'M': ('METABOLITE', G_MET)}
    order = list(d)
    rng.shuffle(order)
    for k in order:
        v = d[k]
        if k in names:
            nm, pool = names[k]
            if wild and set(v) == set(pool) and rng.random() < 0.7:
                st.append(f'{nm}(*)')
            elif len(v) > 1 and rng.random() < 0.25:
                i = rng.randrange(1, len(v))
                st.append(f'{nm}({_lst(rng, v[:i])})')
                st.append(f'{nm}({_lst(rng, v[i:])})')
            else:
                st.append(f'{nm}({_lst(rng, v)})')
        elif k in ('T', 'P', 'I'):
            nm = {'T': 'TRANSITS', 'P': 'PERIPHERALS', 'I': 'INDIRECTEFFECT'}[k]
            full = {'T': ['DEPOT', 'NODEPOT'], 'P': ['DRUG', 'MET'], 'I': G_PROD}[k]
            by = {}
            for c, g in v:
                by.setdefault(g, []).append(c)
            groups = list(by.items())
            rng.shuffle(groups)
            # statements with the same value list may be merged into one with a key list / wildcard
            merged = False
            if k != 'I' and len(groups) == 2 and sorted(groups[0][1]) == sorted(groups[1][1]) and rng.random() < 0.6:
                key = '*' if (wild and rng.random() < 0.6) else _lst(rng, full, allow_single=False)
                st.append(f'{nm}({_counts(rng, groups[0][1])},{key})')
                merged = True
            if not merged:
                for g, cs in groups:
                    parts = [cs]
                    if len(cs) > 1 and rng.random() < 0.3:
                        i = rng.randrange(1, len(cs))
                        parts = [cs[:i], cs[i:]]
                    for pcs in parts:
                        if k == 'I':
                            vals = '*' if (wild and set(pcs) == set(G_PD) and rng.random() < 0.7) else _lst(rng, pcs)
                            st.append(f'{nm}({vals},{g})')
                        else:
                            default = {'T': 'DEPOT', 'P': 'DRUG'}[k]
                            key = '' if (g == default and rng.random() < 0.6) else ',' + g
                            st.append(f'{nm}({_counts(rng, pcs)}{key})')
        elif k == 'C':
            lets = []
            for (p, c, f, o, t) in v:
                q = '?' if t else ''
                fp = '*' if (wild and set(f) == {'LIN', 'PIECE_LIN', 'EXP', 'POW'}) else _lst(rng, f)
                ps = _lst(rng, p)
                if rng.random() < 0.2:          # LET reference
                    nm = 'P' + 'ABCDEFGH'[len(lets)]
                    lets.append(f'LET({nm},{_lst(rng, p, allow_single=False)})')
                    ps = '@' + nm
                op = '' if (o == '*' and rng.random() < 0.6) else ',' + o
                st.append(f'COVARIATE{q}({ps},{_lst(rng, c)},{fp}{op})')
            st = lets + st
    return ';'.join(st)


def gen_mfl_spec(rng, family):
    wild = family == 'pk_wild' or (family == 'mixed' and rng.random() < 0.3)
    for _ in range(20):
        da = gen_denotation(rng, family)
        db = mutate_denotation(rng, da) if rng.random() < 0.6 else gen_denotation(rng, family)
        a, b = render_denotation(rng, da, wild), render_denotation(rng, db, wild)
        if a and b:
            return {'kind': 'mfl', 'family': family, 'a': a, 'b': b}
    return {'kind': 'mfl', 'family': family, 'a': 'ABSORPTION(FO)', 'b': 'ABSORPTION(FO)'}
