"""C14 — dataset derivations agree with record-by-record event semantics.
Model: coq/theories/C14 (Model.v: vectorised pandas algorithms + reference walks; Check.v: comparison);
theorems in Properties.v / Refuted.v.
Tie: generated event datasets are turned into real pharmpy models (create_basic_pk_model +
Model.replace(dataset=, datainfo=)), every derivation of pharmpy.modeling.data is run on the real code,
the returned Series / DataFrames are exported as exact scaled integers and compared INSIDE Coq with the
vectorised model (correspondence, tags 1-9) and with the reference walk / frame properties (oracle,
tags 11-31)."""
import json
import os
import random
import sys
from fractions import Fraction as F

from harness.lib import coqterm as ct
from harness.lib.core import VERIF, source_sha

LEVEL = 'proof'
IMPORTS = 'C14.Model C14.Check'

TAGS = {
    1: 'get_mdv differs from model', 2: 'get_evid differs from model', 3: 'get_doseid differs from model',
    4: 'expand_additional_doses differs from model', 5: 'add_time_after_dose differs from model',
    6: 'get_observations/get_doses/get_number_of_observations(_per_individual) differ from model',
    7: 'get_baselines/list_time_varying_covariates differ from model', 8: 'get_cmt differs from model',
    9: 'get_admid differs from model',
    11: 'get_mdv differs from the record-by-record walk',
    12: 'get_evid differs from the record-by-record walk',
    13: 'get_doseid differs from the per-individual walk (or raises)',
    14: 'expand_additional_doses does not keep the original records in order (or raises)',
    15: 'expand_additional_doses changes the total administered amount',
    16: 'add_time_after_dose gives a negative time after dose',
    17: 'add_time_after_dose gives a non-zero time after dose at a dose record',
    18: 'add_time_after_dose changes existing records or their order (or raises)',
    19: 'add_time_after_dose changes the type of the id column',
    20: 'get_observations differs from the walk (or is not a series)',
    21: 'get_doses differs from the walk (or is not a series)',
    22: 'get_number_of_observations differs from the walk (or raises)',
    23: 'get_baselines differs from the walk', 24: 'list_time_varying_covariates differs from the walk',
    25: 'get_cmt raises', 26: 'get_admid differs from carrying the latest dose event forward (or raises)',
    27: 'a derivation modified the dataset of the model it was given',
    28: 'add_time_after_dose differs from the per-individual walk',
    29: 'expand_additional_doses yields a wrong number of records',
    31: 'get_number_of_observations_per_individual differs from the walk (or raises)',
    32: 'add_cmt changes other columns / rows / order / dtypes, or its CMT column is not get_cmt',
    33: 'add_admid changes other columns / rows / order / dtypes, or its ADMID column is not get_admid',
    34: 'get_ids / get_number_of_individuals differ from the walk',
    35: 'get_covariate_baselines differs from the walk',
    38: 'expand_additional_doses (default flag=False): wrong columns, or not the implied doses / total amount',
    37: 'get_observations(keep_index=True) differs from the walk (labels or values)',
    36: 'expand_additional_doses: the expanded frame is not the multiset of implied doses (TIME + k*II, other fields kept)',
}
CORR = set(range(1, 10))
# oracle tag -> (correspondence tag that must be absent, [(guard tag that must be present, finding id)])
ORACLE = {
    11: (1, []),
    12: (2, [(208, 'C14-EVID-OTHER-RECORDS')]),
    13: (3, [(205, 'C14-DOSEID-RESET-GROUP'), (206, 'C14-DOSEID-OBS-BETWEEN-DOSES')]),
    14: (4, [(222, 'C14-EXPAND-ID-ORDER')]),
    15: (4, []),
    29: (4, []),
    16: (5, [(213, 'C14-TAD-RESET-NEGATIVE')]),
    17: (5, []),
    18: (5, [(222, 'C14-EXPAND-ID-ORDER')]),
    19: (5, []),
    28: (5, [(205, 'C14-DOSEID-RESET-GROUP'), (206, 'C14-DOSEID-OBS-BETWEEN-DOSES'), (213, 'C14-TAD-RESET-NEGATIVE'),
             (223, 'C14-DOSEID-RESET-GROUP'), (224, 'C14-DOSEID-OBS-BETWEEN-DOSES')]),
    20: (6, []), 21: (6, []), 22: (6, []), 31: (6, []),
    23: (7, []), 24: (7, []),
    25: (8, []),
    26: (9, [(208, 'C14-EVID-OTHER-RECORDS')]),
    27: (0, []),
    32: (8, []), 33: (9, []), 34: (7, []), 35: (7, []), 36: (4, []), 37: (6, []), 38: (4, []),
}
# input-domain guards (not defects): an oracle failure is also excused when one of these is false
DOMAIN = {13: [204, 203], 14: [204], 18: [204, 217], 28: [204, 203, 225], 16: [204]}

FIELD_OF_TYPE = {'id': 'id', 'idv': 'time', 'dose': 'amt', 'dv': 'dv', 'event': 'evid', 'mdv': 'mdv',
                 'compartment': 'cmt', 'admid': 'admid', 'ss': 'ss', 'additional': 'addl', 'ii': 'ii'}
SCALED = {'time', 'amt', 'dv', 'ii'}
ERRS = {'KeyError', 'ValueError', 'DatasetError', 'TypeError', 'AttributeError', 'UnboundLocalError', 'IndexError'}


class Unconvertible(Exception):
    pass


# ------------------------------------------------------------------ generator
DYADIC = {'dt': ['0', '0', '0', '1/2', '1', '1', '2', '4', '1/4'], 'amt': ['1', '2', '5/2', '10', '100'],
          'ii': ['1/2', '1', '2', '4', '12'], 'ii0': ['1', '12'], 'covstep': ['1', '1/2'], 'dvden': 4, 'start': [0, 0, 0, 1]}
# decimal values: not representable in binary, kept only when every float operation the code performs on them
# is exact (see exact_ok)
DECIMAL = {'dt': ['0', '0', '0', '0.1', '0.2', '0.25', '0.5', '1', '1.5', '2.4', '4', '0.3'],
           'amt': ['1', '2.5', '0.3', '10', '100.5', '0.07'], 'ii': ['0.5', '1', '2.4', '12', '0.1', '0.2', '6.5'],
           'ii0': ['1', '0.1'], 'covstep': ['0.1', '1.3'], 'dvden': 100, 'start': [0, 0, '0.1', 1]}


def exact_ok(spec):
    """The float-exactness domain of the model: every operation the code performs on TIME / II is exact for the
    float values of this dataset — ii*k and ii*k + time for k <= ADDL (expand_additional_doses), and every
    difference of two times of one individual, expanded times included (diff and cumsum of add_time_after_dose;
    a partial sum of the differences is again such a difference)."""
    col = {t: j for j, (_, t) in enumerate(spec['cols'])}
    if 'idv' not in col:
        return True
    times = {}
    for r in spec['rows']:
        i = F(r[col['id']])
        t = float(F(r[col['idv']]))
        ts = times.setdefault(i, [])
        ts.append(t)
        if 'additional' in col and 'ii' in col:
            ii = float(F(r[col['ii']]))
            for k in range(1, int(F(r[col['additional']])) + 1):
                p = ii * k
                if F(p) != F(ii) * k:
                    return False
                q = p + t
                if F(q) != F(p) + F(t):
                    return False
                ts.append(q)
    for ts in times.values():
        u = sorted(set(ts))
        for a in u:
            for b in u:
                if F(a - b) != F(a) - F(b):
                    return False
    return True


def gen_spec(rng, clean=None, decimal=None):
    if decimal is None:
        decimal = rng.random() < 0.25
    for _ in range(30 if decimal else 1):
        spec = _gen_spec(rng, clean, DECIMAL if decimal else DYADIC)
        if exact_ok(spec):
            return spec
    return _gen_spec(rng, clean, DYADIC)


def _gen_spec(rng, clean, V):
    """clean: datasets inside every guard (ascending ids named ID, default index, chronological, no tie
    with a first dose, no observation between tied doses, resets without a restart of time, MDV consistent
    with AMT, at least two observations / doses, a covariate) — there the walk oracle must hold exactly.
    wild: everything else as well."""
    if clean is None:
        clean = rng.random() < 0.4
    kind = rng.choice(['iv', 'iv', 'oral', 'ivoral', 'ivoral'])
    use_evid = rng.random() < 0.5
    use_mdv = rng.random() < 0.45
    use_cmt = rng.random() < 0.3
    use_ss = rng.random() < 0.3
    use_addl = rng.random() < 0.4
    use_ii = use_addl and (clean or rng.random() < 0.96)
    use_rate = rng.random() < 0.2
    use_admid = rng.random() < 0.12
    has_dose = clean or rng.random() < 0.97
    use_admid = use_admid and has_dose      # ADMID without any of MDV/EVID/AMT: get_mdv's fresh index, not modelled
    if clean and use_admid and kind == 'oral':
        kind = 'ivoral'
    ncov = rng.choice([1, 2]) if clean else rng.choice([0, 0, 1, 2])
    idname = 'ID' if clean or rng.random() < 0.93 else 'SUBJ'
    cols = [[idname, 'id'], ['TIME', 'idv']]
    if use_evid:
        cols.append(['EVID', 'event'])
    if use_mdv:
        cols.append(['MDV', 'mdv'])
    if has_dose:
        cols.append(['AMT', 'dose'])
    if use_rate:
        cols.append(['RATE', 'unknown'])
    if use_addl:
        cols.append(['ADDL', 'additional'])
    if use_ii:
        cols.append(['II', 'ii'])
    if use_ss:
        cols.append(['SS', 'ss'])
    if use_cmt:
        cols.append(['CMT', 'compartment'])
    if use_admid:
        cols.append(['ADMID', 'admid'])
    cols.append(['DV', 'dv'])
    for j in range(ncov):
        cols.append([['WGT', 'AGE'][j], 'covariate'])

    nind = rng.choice([1, 1, 2, 2, 2, 3, 3, 4, 5, 6])
    ids = sorted(rng.sample(range(1, 12), nind))
    order = rng.random()
    if not clean:
        if order < 0.12:
            rng.shuffle(ids)
        elif order < 0.18:
            ids = ids[::-1]
    blocks = []
    for i in ids:
        n = rng.choice([1, 2, 3, 3, 4, 4, 5, 6, 7])
        t = F(rng.choice(V['start']))
        base_cov = [F(rng.choice([50, 60, 70])), F(rng.choice([20, 30]))]
        recs = []
        ndoses = 0              # doses so far
        tie_state = None        # in clean mode: what happened at the current time point: 'first', 'dose', 'dose-obs'
        first = True
        for _ in range(n):
            dt = F(rng.choice(V['dt']))
            kinds = ['dose'] * 7 + ['obs'] * 10
            if use_evid or (use_mdv and not clean):
                kinds += ['other']
            if use_evid:
                kinds += ['reset', 'resetdose']
            k = rng.choice(kinds) if has_dose else rng.choice(['obs', 'obs', 'other'] if (use_mdv or use_evid) else ['obs'])
            if clean and not first:
                if k in ('reset', 'resetdose') and dt == 0:
                    dt = F(1)                            # a reset opens a new time point
                if dt == 0:
                    if tie_state == 'first' and k not in ('dose',):
                        dt = F(1, 2)                     # nothing may follow the first dose at its time point ...
                    elif tie_state == 'first':
                        dt = F(1, 2)                     # ... not even another dose (keeps the first dose alone)
                    elif tie_state == 'dose-obs' and k == 'dose':
                        dt = F(1, 2)                     # no observation between two tied doses
            if not first:
                t += dt
            first = False
            if not clean and rng.random() < 0.03 and t >= 1:
                t -= 1                                  # not chronological
            if k in ('reset', 'resetdose') and not clean and rng.random() < 0.6:
                t = F(rng.choice([0, 0, 1]))
            if dt != 0 or tie_state is None:
                tie_state = None
            rec = {'id': F(i), 'time': t, 'amt': F(0), 'dv': F(0), 'evid': F(0), 'mdv': F(0), 'cmt': F(rng.choice([1, 2])),
                   'admid': F(rng.choice([1, 2])), 'ss': F(0), 'addl': F(0), 'ii': F(0), 'rate': F(0)}
            if k in ('dose', 'resetdose'):
                ndoses += 1
                tie_state = 'first' if ndoses == 1 else 'dose'
                rec['amt'] = F(rng.choice(V['amt']))
                rec['evid'] = F(1 if k == 'dose' else 4)
                rec['mdv'] = F(1)
                if use_addl and rng.random() < 0.5:
                    rec['addl'] = F(rng.choice([1, 1, 2, 3]))
                    rec['ii'] = F(rng.choice(V['ii']))
                elif rng.random() < 0.1:
                    rec['ii'] = F(rng.choice(V['ii0']))
                if rng.random() < 0.25:
                    rec['ss'] = F(rng.choice([1, 1, 2]))
                if rng.random() < 0.3:
                    rec['rate'] = F(rng.choice(['1', '2', '-2']))
            else:
                if tie_state == 'dose':
                    tie_state = 'dose-obs'
                if k == 'obs':
                    rec['dv'] = F(rng.randrange(0, 200 * V['dvden'] // 4), V['dvden'])
                    if use_mdv and (use_evid or not clean) and rng.random() < 0.12:
                        rec['mdv'] = F(1)               # observation record with a missing DV (MDV=1, EVID=0)
                        rec['dv'] = F(0)
                elif k == 'other':
                    rec['evid'] = F(2)
                    rec['mdv'] = F(1)
                else:
                    rec['evid'] = F(3)
                    rec['mdv'] = F(1)
            covs = list(base_cov)
            if rng.random() < 0.15:
                covs[rng.randrange(2)] += F(rng.choice(V['covstep']))
            rec['covs'] = covs
            recs.append(rec)
        blocks.append(recs)
    if not clean and len(blocks) >= 2 and rng.random() < 0.06:        # non-contiguous individual
        b = rng.randrange(len(blocks))
        if len(blocks[b]) >= 2:
            cut = rng.randrange(1, len(blocks[b]))
            tail = blocks[b][cut:]
            blocks[b] = blocks[b][:cut]
            blocks.insert(rng.randrange(len(blocks) + 1), tail)
    recs = [r for b in blocks for r in b]
    if clean:                                           # at least two observations and two doses (squeeze)
        last = recs[-1]
        def extra(kind_, dt_):
            r = dict(last, time=last['time'] + dt_, amt=F(0), dv=F(0), evid=F(0), mdv=F(0), ss=F(0), addl=F(0), ii=F(0), rate=F(0))
            if kind_ == 'dose':
                r.update(amt=F(10), evid=F(1), mdv=F(1))
            else:
                r.update(dv=F(7, 2))
            return r
        nobs = sum(1 for r in recs if r['amt'] == 0 and r['evid'] == 0 and r['mdv'] == 0)
        k_ = 1
        while nobs < 2:
            recs.append(extra('obs', k_)); nobs += 1; k_ += 1
        nd = sum(1 for r in recs if r['amt'] != 0)
        while nd < 2:
            recs.append(extra('dose', k_)); nd += 1; k_ += 1
    rows = []
    for rec in recs:
        row = []
        ci = 0
        for name, typ in cols:
            if typ == 'covariate':
                row.append(str(rec['covs'][ci]))
                ci += 1
            elif typ == 'unknown':
                row.append(str(rec['rate']))
            else:
                row.append(str(rec[FIELD_OF_TYPE[typ]]))
        rows.append(row)
    n = len(rows)
    ix = rng.random()
    if clean or ix < 0.84:
        index = None
    elif ix < 0.89:
        index = list(range(n))                          # explicit Index with the default labels
    elif ix < 0.93:
        index = list(range(3, 3 + n))
    elif ix < 0.97:
        index = sorted(rng.sample(range(0, 2 * n + 2), n))
    else:
        index = rng.sample(range(0, n + 3), n)
    return {'kind': kind, 'cols': cols, 'rows': rows, 'index': index, 'scale': 4 if V is DYADIC else 'auto',
            'mode': ('clean' if clean else 'wild') + ('' if V is DYADIC else '-decimal')}


# ------------------------------------------------------------------ implementation side
_BASE = {}
EXTRA_FUNCTIONS = ['get_ids', 'get_number_of_individuals', 'get_covariate_baselines', 'add_cmt', 'add_admid']
FUNCTIONS = ['add_time_after_dose', 'expand_additional_doses', 'get_admid', 'get_baselines', 'get_cmt', 'get_doseid',
             'get_doses', 'get_evid', 'get_mdv', 'get_number_of_observations',
             'get_number_of_observations_per_individual', 'get_observations', 'list_time_varying_covariates']
_IMPL = []


def impl():
    """pharmpy.modeling.data from /repo — or, for sensitivity experiments only, a scratch copy of that one source
    file (VERIF_C14_DATA_FILE) loaded under another module name inside the pharmpy.modeling package."""
    if not _IMPL:
        path = os.environ.get('VERIF_C14_DATA_FILE')
        if path:
            import importlib.util
            import pharmpy.modeling  # noqa: F401
            sp = importlib.util.spec_from_file_location('pharmpy.modeling._c14_scratch_copy', path)
            mod = importlib.util.module_from_spec(sp)
            sys.modules[sp.name] = mod
            sp.loader.exec_module(mod)
            print(f'[C14] NOTE: running the derivations from the scratch copy {path}', flush=True)
            _IMPL.append(mod)
        else:
            import pharmpy.modeling.data as mod
            _IMPL.append(mod)
    return _IMPL[0]


def base_model(kind):
    if kind not in _BASE:
        from pharmpy.modeling import create_basic_pk_model
        _BASE[kind] = create_basic_pk_model(kind)
    return _BASE[kind]


def build(spec):
    import numpy as np
    import pandas as pd
    from pharmpy.model import ColumnInfo, DataInfo
    data = {}
    for j, (name, typ) in enumerate(spec['cols']):
        vals = [float(F(r[j])) for r in spec['rows']]
        data[name] = np.array(vals, dtype='int32' if typ == 'id' else 'float64')
    index = spec.get('index')
    df = pd.DataFrame(data, index=None if index is None else pd.Index(index))
    cis = []
    for name, typ in spec['cols']:
        if typ == 'id':
            cis.append(ColumnInfo.create(name, type='id', scale='nominal', datatype='int32'))
        else:
            cis.append(ColumnInfo.create(name, type=typ))
    di = DataInfo.create(cis)
    return base_model(spec['kind']).replace(dataset=df, datainfo=di), df


class Exporter:
    def __init__(self, spec):
        self.cols = spec['cols']
        self.scale = spec['scale']
        if self.scale == 'auto':
            # the unit of the scaled columns: the smallest power of two in which every input value is integral
            # (the float value of a decimal like 0.1 is m * 2**-55); exact results are integral in it as well
            den = 1
            for r in spec['rows']:
                for j, (_, typ) in enumerate(spec['cols']):
                    if typ in ('idv', 'dose', 'dv', 'ii', 'covariate', 'unknown'):
                        den = max(den, F(float(F(r[j]))).denominator)
            self.scale = den

    def num(self, x, scaled):
        import math
        x = float(x)
        if math.isnan(x) or math.isinf(x):
            raise Unconvertible('nan/inf')
        v = F(x) * (self.scale if scaled else 1)
        if v.denominator != 1:
            raise Unconvertible(f'{x} is not integral in units of 1/{self.scale if scaled else 1}')
        return int(v)

    def z(self, x, scaled=False):
        return ct.z(self.num(x, scaled))

    def row(self, label, get):
        """get(colname) -> value or None when the column is absent from the frame."""
        f = {k: 0 for k in ('id', 'time', 'amt', 'dv', 'evid', 'mdv', 'cmt', 'admid', 'ss', 'addl', 'ii')}
        covs, other = [], []
        for name, typ in self.cols:
            v = get(name)
            if v is None:
                if typ == 'covariate':
                    covs.append(0)
                elif typ == 'unknown':
                    other.append(0)
                continue
            if typ == 'covariate':
                covs.append(self.num(v, True))
            elif typ == 'unknown':
                other.append(self.num(v, True))
            else:
                fld = FIELD_OF_TYPE[typ]
                f[fld] = self.num(v, fld in SCALED)
        return ('(mkRow ' + ' '.join(ct.z(x) for x in [self.num(label, False), f['id'], f['time'], f['amt'], f['dv'],
                                                        f['evid'], f['mdv'], f['cmt'], f['admid'], f['ss'], f['addl'], f['ii']])
                + ' ' + ct.lst([ct.z(x) for x in covs]) + ' ' + ct.lst([ct.z(x) for x in other]) + ')')

    def frame_rows(self, df, extra=None, more_cols=()):
        saved = self.cols
        self.cols = list(self.cols) + [c for c in more_cols if c[0] not in [n for n, _ in self.cols]]
        try:
            return self._frame_rows(df, extra)
        finally:
            self.cols = saved

    def _frame_rows(self, df, extra=None):
        cols = set(df.columns)
        out = []
        labels = list(df.index)
        for pos in range(len(df)):
            rec = df.iloc[pos]
            term = self.row(labels[pos], lambda name: rec[name] if name in cols else None)
            out.append((term, None if extra is None else rec[extra]))
        return out


def err_term(e):
    n = type(e).__name__
    return f"(Err {n if n in ERRS else 'OtherError'})"


def attempt(fn, conv):
    try:
        r = fn()
    except Unconvertible:
        raise
    except Exception as e:  # the implementation raised: exported as an error class
        return err_term(e), type(e).__name__
    return f"(Ok {conv(r)})", None


def series_term(ex, r, scaled_value):
    """get_observations / get_doses result: Series over (id, time) or a squeezed scalar."""
    import pandas as pd
    if isinstance(r, pd.Series):
        items = []
        for (i, t), v in r.items():
            items.append(ct.tup(ex.z(i), ex.z(t, True), ex.z(v, scaled_value)))
        return f"(Series {ct.lst(items)})"
    if isinstance(r, pd.DataFrame):
        raise Unconvertible('frame instead of series')
    return f"(Scalar {ex.z(r, scaled_value)})"


def labelled(ex, ser):
    return ct.lst([ct.pair(ex.z(l), ex.z(v)) for l, v in ser.items()])


def observe(spec):
    import pandas as pd
    fns = impl()
    (add_time_after_dose, expand_additional_doses, get_admid, get_baselines, get_cmt, get_doseid, get_doses, get_evid,
     get_mdv, get_number_of_observations, get_number_of_observations_per_individual, get_observations,
     list_time_varying_covariates) = [getattr(fns, n) for n in FUNCTIONS]
    model, df0 = build(spec)
    keep = df0.copy(deep=True)
    ex = Exporter(spec)
    types = [t for _, t in spec['cols']]
    names = {t: n for n, t in reversed(spec['cols'])}
    idname = names['id']
    info = {'nrows': len(df0), 'errors': {}}
    immutable = [True]

    def unchanged():
        d = model.dataset
        ok = d.equals(keep) and list(d.index) == list(keep.index) and list(d.dtypes) == list(keep.dtypes) \
            and list(d.columns) == list(keep.columns) and type(d.index) is type(keep.index)
        if not ok:
            immutable[0] = False

    def run(name, fn, conv):
        term, err = attempt(fn, conv)
        if err:
            info['errors'][name] = err
        unchanged()
        return term

    sch = ('(mkSchema ' + ' '.join(ct.boolean(b) for b in [
        'dose' in types, 'event' in types, 'mdv' in types, 'compartment' in types, 'admid' in types, 'ss' in types,
        'additional' in types, 'ii' in types, idname == 'ID', isinstance(df0.index, pd.RangeIndex),
        pd.api.types.is_integer_dtype(df0[idname])]) + ')')
    rows = [t for t, _ in ex.frame_rows(df0)]
    ds = f"(mkDs {sch} {ct.lst(rows)})"
    ncov = types.count('covariate')
    odes = model.statements.ode_system
    cnames = odes.compartment_names
    central = odes.central_compartment.name
    mi = '(mkMinfo ' + ct.lst([ct.tup(ct.z(cnames.index(c.name) + 1), ct.z(int(c.doses[0].admid)), ct.boolean(c.name == central))
                               for c in odes.dosing_compartments]) + ' ' + ct.z(cnames.index(central) + 1) + ')'

    mdv = labelled(ex, get_mdv(model)); unchanged()
    evid = labelled(ex, get_evid(model)); unchanged()
    obs = series_term(ex, get_observations(model), True); unchanged()
    doses = run('get_doses', lambda: get_doses(model), lambda r: series_term(ex, r, True))
    nobs = run('nobs', lambda: get_number_of_observations(model), lambda r: ex.z(r))
    nobs_per = run('nobs_per', lambda: get_number_of_observations_per_individual(model),
                   lambda r: ct.lst([ct.pair(ex.z(i), ex.z(v)) for i, v in r.items()]))
    bl = get_baselines(model); unchanged()
    bl = bl.reset_index()
    bl_rows = [t for t, _ in ex.frame_rows(bl.set_index(pd.Index([0] * len(bl))))]
    tvc = run('tvc', lambda: list_time_varying_covariates(model),
              lambda tv: ct.lst([ct.boolean(n in tv) for n, t in spec['cols'] if t == 'covariate']))
    doseid = run('get_doseid', lambda: get_doseid(model), lambda r: labelled(ex, r))

    def conv_expand(m):
        d = m.dataset
        info['expand_len'] = len(d)
        info['expand_idint'] = bool(pd.api.types.is_integer_dtype(d[idname]))
        if 'EXPANDED' in d.columns:
            return ct.lst([ct.pair(t, ct.boolean(bool(e))) for t, e in ex.frame_rows(d, 'EXPANDED')])
        return ct.lst([ct.pair(t, 'false') for t, _ in ex.frame_rows(d)])
    expand = run('expand', lambda: expand_additional_doses(model, flag=True), conv_expand)

    def conv_tad(m):
        d = m.dataset
        info['tad_idint'] = bool(pd.api.types.is_integer_dtype(d[idname]))
        return ct.lst([ct.pair(t, ex.z(v, True)) for t, v in ex.frame_rows(d, 'TAD')])
    tad = run('tad', lambda: add_time_after_dose(model), conv_tad)
    cmt = run('get_cmt', lambda: get_cmt(model), lambda r: labelled(ex, r))
    admid = run('get_admid', lambda: get_admid(model), lambda r: labelled(ex, r))

    ids = ct.lst([ex.z(i) for i in fns.get_ids(model)]); unchanged()
    nind = ex.z(fns.get_number_of_individuals(model)); unchanged()

    def conv_covbase(r):
        covnames = [n for n, t in spec['cols'] if t == 'covariate']
        return ct.lst([ct.pair(ex.z(i), ct.lst([ex.z(rec[n], True) for n in covnames])) for i, rec in r.iterrows()])
    covbase = run('covbase', lambda: fns.get_covariate_baselines(model), conv_covbase)

    def added(fn, colname, typ, key):
        def conv(m):
            d = m.dataset
            old = [c for c in d.columns if c in set(df0.columns)]
            new = [c for c in d.columns if c not in set(df0.columns)]
            meta = (old == list(df0.columns) and [str(d[c].dtype) for c in old] == [str(df0[c].dtype) for c in old]
                    and list(d.columns) == old + new and new in ([], [colname])
                    and list(d.index) == list(df0.index)
                    and (typ in [c.type for c in m.datainfo]))
            info[key] = bool(meta)
            return ct.lst([t for t, _ in ex.frame_rows(d, more_cols=[[colname, typ]])])
        return conv
    add_cmt_t = run('add_cmt', lambda: fns.add_cmt(model), added(fns.add_cmt, 'CMT', 'compartment', 'add_cmt_meta'))
    add_admid_t = run('add_admid', lambda: fns.add_admid(model), added(fns.add_admid, 'ADMID', 'admid', 'add_admid_meta'))

    def conv_noflag(m):
        d = m.dataset
        addl_ii = [n for n, t in spec['cols'] if t in ('additional', 'ii')]
        applies = 'additional' in types and 'ii' in types
        want = [c for c in df0.columns if not (applies and c in addl_ii)]
        info['noflag_cols'] = bool(list(d.columns) == want)
        return ct.lst([t for t, _ in ex.frame_rows(d)])
    noflag = run('expand_noflag', lambda: expand_additional_doses(model), conv_noflag)
    okeep = get_observations(model, keep_index=True); unchanged()
    obs_keep = ct.lst([ct.pair(ex.z(l), ex.z(v, True)) for l, v in okeep.items()])

    term = ('(mkCase ' + ds + f' {ncov}%nat ' + mi + '\n  ' + mdv + '\n  ' + evid + '\n  ' + obs + '\n  ' + doses
            + '\n  ' + nobs + ' ' + nobs_per + '\n  ' + ct.lst(bl_rows) + ' ' + tvc + '\n  ' + doseid + '\n  ' + expand
            + ' ' + ct.boolean(info.get('expand_idint', False)) + '\n  ' + tad + ' ' + ct.boolean(info.get('tad_idint', False))
            + '\n  ' + cmt + '\n  ' + admid + ' ' + ct.boolean(immutable[0])
            + '\n  ' + ids + ' ' + nind + ' ' + covbase + '\n  ' + add_cmt_t + ' ' + ct.boolean(info.get('add_cmt_meta', False))
            + '\n  ' + add_admid_t + ' ' + ct.boolean(info.get('add_admid_meta', False)) + '\n  ' + obs_keep
            + '\n  ' + noflag + ' ' + ct.boolean(info.get('noflag_cols', False)) + ')')
    info['ncalls'] = 20
    return term, info


# ------------------------------------------------------------------ classification
def classify(ctx, spec, tags, info, quiet=False):
    """Returns 'ok' | 'known' | 'violation' | 'broken'."""
    tags = set(tags)
    corr = sorted(t for t in tags if t in CORR)
    oracle = sorted(t for t in tags if t in ORACLE)
    status = 'ok'
    for t in oracle:
        need_absent, excuses = ORACLE[t]
        explained = need_absent not in tags
        fids = [fid for g, fid in excuses if g in tags and ctx.open_finding(fid)]
        domain = [g for g in DOMAIN.get(t, []) if g in tags]
        if explained and fids:
            for fid in sorted(set(fids)):
                kh = ctx.coverage.setdefault('known_hits', {})
                kh[fid] = kh.get(fid, 0) + 1
            if status == 'ok':
                status = 'known'
        elif explained and domain:
            od = ctx.coverage.setdefault('outside_input_domain', {})
            od[str(t)] = od.get(str(t), 0) + 1
        else:
            if not quiet:
                ctx.violation(TAGS[t], {'spec': spec, 'tags': sorted(tags), 'tag_meaning': TAGS[t],
                                        'errors': info.get('errors')})
            status = 'violation'
    if corr and status != 'violation':
        if not quiet:
            ctx.broken.append('correspondence C14 model vs implementation: ' + ', '.join(TAGS[t] for t in corr)
                              + ' on ' + json.dumps(spec))
            ctx.coverage.setdefault('corr_disagreements', []).append({'spec': spec, 'tags': sorted(tags)})
        status = 'broken'
    return status


def _observe_safe(spec):
    try:
        return ('ok',) + observe(spec)
    except Unconvertible as e:
        return ('unconvertible', str(e), None)
    except Exception as e:  # a derivation that is modelled as total raised: reported with the input
        return ('crash', f'{type(e).__name__}: {e}', None)


def observe_all(specs):
    """Run the implementation on every spec; in worker processes when there are many (the generation of the
    specs — the only randomness — stays in the parent; observe is deterministic)."""
    from harness.lib.core import JOBS
    if len(specs) < 64 or JOBS <= 1:
        return [_observe_safe(s) for s in specs]
    import multiprocessing as mp
    impl()
    base_model('iv'), base_model('oral'), base_model('ivoral')          # built once, inherited by the workers
    with mp.get_context('fork').Pool(min(JOBS, 12)) as pool:
        return pool.map(_observe_safe, specs, chunksize=16)


def run_specs(ctx, specs, label, quiet=False):
    terms, kept, infos = [], [], []
    skipped = 0
    for spec, (st, term, info) in zip(specs, observe_all(specs)):
        if st == 'crash':
            if not quiet:
                ctx.violation('a derivation the model knows as total (get_mdv / get_evid / get_observations / '
                              'get_baselines) raised: ' + term, {'spec': spec, 'tags': [], 'error': term})
            continue
        if st != 'ok':
            skipped += 1
            ctx.coverage.setdefault('unconvertible_examples', []).append(term)
            continue
        terms.append(term)
        kept.append(spec)
        infos.append(info)
    ctx.coverage['skipped_unconvertible'] = ctx.coverage.get('skipped_unconvertible', 0) + skipped
    if len(specs) > 64:
        ctx.log(f'implementation run on {len(specs)} datasets; comparing inside Coq')
    verdicts = ctx.run_cases(label, IMPORTS, 'case', terms, 'verdict', shard=45 if ctx.tier == 'quick' else 100)
    stats = {'ok': 0, 'known': 0, 'violation': 0, 'broken': 0}
    for spec, tags, info in zip(kept, verdicts, infos):
        stats[classify(ctx, spec, tags, info, quiet)] += 1
    return kept, verdicts, infos, stats


def small_scope_specs():
    """Every dataset with 1-4 records over: id in {1,2}, time in {0,1}, dose or observation (thorough tier)."""
    import itertools
    cols = [['ID', 'id'], ['TIME', 'idv'], ['AMT', 'dose'], ['DV', 'dv'], ['WGT', 'covariate']]
    alphabet = [(i, t, k) for i in (1, 2) for t in (0, 1) for k in ('dose', 'obs')]
    out = []
    for n in (2, 3, 4):
        for recs in itertools.product(alphabet, repeat=n):
            rows = [[str(i), str(t), '10' if k == 'dose' else '0', '0' if k == 'dose' else '3', str(60 + 10 * i)]
                    for (i, t, k) in recs]
            out.append({'kind': 'iv', 'cols': cols, 'rows': rows, 'index': None, 'scale': 4, 'mode': 'small-scope'})
    return out


def finding_probes(ctx):
    """Replay the stored witness of every open finding on the real code (one Coq run for all of them)."""
    open_f = [f for f in ctx.findings if f.get('status') == 'open']
    if not open_f:
        return
    kept, verdicts, _, _ = run_specs(ctx, [f['witness'] for f in open_f], 'findings', quiet=True)
    by_spec = {json.dumps(k, sort_keys=True): v for k, v in zip(kept, verdicts)}
    for f in open_f:
        tags = set(by_spec.get(json.dumps(f['witness'], sort_keys=True), []))
        if f['expect_tag'] in tags and not (tags & CORR):
            ctx.known(f['id'])
        else:
            ctx.notes.append(f"finding_not_reproduced {f['id']} (tags {sorted(tags)})")


def run(ctx):
    # known_findings.d holds the UPDATED entries of this property: a later entry replaces an earlier one of the same id
    ctx.findings = list({f['id']: f for f in ctx.findings}.values())
    ctx.build_gate(['C14'])
    ctx.trusted += [
        'harness/props/c14.py: generator, construction of the pharmpy model from a spec, export of Series/DataFrames '
        'to Gallina terms (values as integers in units of 1/scale; non-integral / NaN values are refused and counted)',
        'pandas (groupby/cumsum/diff/explode/stable sort/squeeze) is an engine: its contracts are executable Gallina '
        'functions in C14/Model.v validated by the correspondence',
    ]
    ctx.assumptions += [
        'float-exactness domain: the only arithmetic the modelled code performs on data values is ii*k and ii*k + time '
        '(k <= ADDL, expand_additional_doses) and, in add_time_after_dose, the difference of consecutive times of an '
        '(individual, DOSEID) group and the running sum of these differences; AMT, DV, covariates are only copied and '
        'compared.  The generator produces dyadic values (always exact) and decimal values such as 0.1, 0.3, 2.4 '
        '(25 % of the datasets) that are kept only when exact_ok() confirms that each of these float operations is '
        'exact for the dataset (every product ii*k, every sum ii*k + time and every difference of two times of one '
        'individual is representable); values are exported in units of 2**-e with e up to 55.  Datasets on which one of '
        'these operations rounds are not covered (there the result differs from the exact walk by the rounding error)',
        'negative AMT / ADDL, non-integral ADDL, NaN entries and duplicate index labels are outside the model '
        '(not generated)',
        'TIME/DATE translation (translate_nmtran_time) is the identity on the generated float TIME columns; '
        'nmtran-time / date columns are not covered',
        'the reference walk fixes the intended semantics where the documentation is silent: an observation tied '
        'with the first dose stays in period 1 (the code comment "This is the first dose"); EVID of a missing '
        'EVID item follows NM-TRAN (dose 1, other 2, observation 0)',
    ]
    ctx.coverage['source_sha'] = source_sha('src/pharmpy/modeling/data.py', 'src/pharmpy/model/datainfo.py')
    if os.environ.get('VERIF_C14_DATA_FILE'):
        ctx.notes.append('SENSITIVITY EXPERIMENT: derivations loaded from ' + os.environ['VERIF_C14_DATA_FILE']
                         + ' instead of /repo/src/pharmpy/modeling/data.py')
    if os.environ.get('VERIF_C14_NGEN'):
        ctx.notes.append('SENSITIVITY EXPERIMENT: number of generated datasets overridden by VERIF_C14_NGEN')
    ctx.log('build gate done; replaying the witnesses of the open findings')
    finding_probes(ctx)
    reg = sorted((VERIF / 'regress' / 'C14').glob('*.json'))
    specs = [json.loads(p.read_text()) for p in reg]
    specs = [s.get('spec', s) for s in specs]
    n = 500 if ctx.tier == 'quick' else 2000
    n = int(os.environ.get('VERIF_C14_NGEN', n))       # sensitivity experiments only
    specs += [gen_spec(ctx.rng) for _ in range(n)]
    if ctx.tier == 'thorough' and 'VERIF_C14_NGEN' not in os.environ:
        small = small_scope_specs()
        specs += small
        ctx.coverage['small_scope_datasets'] = len(small)
    ctx.log(f'running the implementation on {len(specs)} datasets')
    kept, verdicts, infos, stats = run_specs(ctx, specs, 'gen')
    ctx.log('comparison inside Coq done')
    ctx.coverage['evaluations'] = sum(i['ncalls'] for i in infos)
    distinct = {json.dumps([s['cols'], s['rows'], s['index'], s['kind']]) for s in kept if len(s['rows']) >= 2}
    ctx.coverage['distinct_nontrivial'] = len(distinct)
    ctx.coverage['programs'] = len(kept)
    ctx.coverage['rule'] = ('random event datasets (1-6 individuals, 1-7 records each, doses/observations/other/reset '
                            'events with ties, ADDL/II, SS, optional EVID/MDV/CMT/ADMID/RATE/covariate columns, id order '
                            'ascending/shuffled/non-contiguous, default or explicit index) from VERIF_SEED; 20 derivations '
                            'per dataset; non-trivial = at least two records; distinct by dataset text')
    ctx.coverage['case_status'] = stats

    def count(tag):
        return sum(1 for v in verdicts if tag in v)
    ctx.coverage['input_distribution'] = {
        'rows_hist': {str(k): sum(1 for i in infos if i['nrows'] == k) for k in sorted({i['nrows'] for i in infos})},
        'impl_errors': {k: sum(1 for i in infos if k in i['errors']) for k in sorted({k for i in infos for k in i['errors']})},
        'guard_false': {str(g): count(g) for g in range(201, 226)},
        'oracle_tags': {str(t): count(t) for t in sorted(ORACLE)},
        'with_expansion': sum(1 for s in kept if any(t == 'additional' for _, t in s['cols'])),
        'with_event_column': sum(1 for s in kept if any(t == 'event' for _, t in s['cols'])),
        'explicit_index': sum(1 for s in kept if s['index'] is not None),
        'decimal_values': sum(1 for s in kept if str(s.get('mode', '')).endswith('decimal')),
    }
    ctx.coverage['samples'] = [{'spec': s, 'tags': v} for s, v in list(zip(kept, verdicts))[:4]]


def replay(ctx, rep):
    ctx.findings = list({f['id']: f for f in ctx.findings}.values())
    spec = rep.get('spec', rep)
    if 'cols' not in spec:
        print('this replay file records a broken obligation without a failing input:', json.dumps(rep)[:2000])
        return 1
    kept, verdicts, infos, _ = run_specs(ctx, [spec], 'replay', quiet=True)
    if not verdicts:
        print('spec', json.dumps(spec))
        print('the implementation raised on this input:', _observe_safe(spec)[1])
        return 1
    tags = verdicts[0]
    print('spec', json.dumps(spec))
    print('errors', infos[0]['errors'])
    print('tags', tags, [TAGS.get(t, t) for t in tags])
    st = classify(ctx, spec, tags, infos[0], quiet=True)
    print('status', st)
    return 1 if st in ('violation', 'broken') else 0
