"""C19, second half of the statement — VALIDATION ONLY (not proof, not counted as obligations):
the post-processing statistics of the resampling / diagnostic tools are recomputed from their defining formulas with
exact rational arithmetic (fractions.Fraction on the exact values of the input floats) and compared with the tool
output with relative tolerance 1e-9.  Square roots are avoided by comparing squares where the formula has one.

Covered: bootstrap calculate_results (mean, median, bias, stderr, RSE, covariance matrix, min/max/percentiles with
linear interpolation, the OFV bookkeeping columns and their statistics), cdd compute_jackknife_covariance_matrix,
compute_cook_scores, compute_covariance_ratios, compute_delta_ofv, calculate_eta_shrinkage (variance and sd scale),
calculate_individual_shrinkage, se_delta_method (on product / ratio / sum expressions with hand-written gradients),
simeval calculate_results (mean, stdev, residuals, quartile residuals, outlier flag)."""
import math
import random
import warnings
from fractions import Fraction as F

TOL = F(1, 10 ** 9)


def close(ref, got):
    """ref exact (Fraction), got float from the tool"""
    if got is None or (isinstance(got, float) and math.isnan(got)):
        return False
    g = F(float(got))
    return abs(ref - g) <= TOL * (1 + abs(ref))


def close_sq(ref_sq, got):
    """the tool reports sqrt(ref_sq)"""
    if got is None or math.isnan(float(got)) or float(got) < 0:
        return False
    g = F(float(got))
    return abs(ref_sq - g * g) <= 4 * TOL * (1 + abs(ref_sq))


def fr(x):
    return F(float(x))


def mean(xs):
    return sum(xs, F(0)) / len(xs)


def var(xs):          # sample variance, ddof = 1
    m = mean(xs)
    return sum(((x - m) ** 2 for x in xs), F(0)) / (len(xs) - 1)


def cov(xs, ys):
    mx, my = mean(xs), mean(ys)
    return sum(((x - mx) * (y - my) for x, y in zip(xs, ys)), F(0)) / (len(xs) - 1)


def quantile(xs, q):  # pandas / numpy default: linear interpolation between order statistics
    s = sorted(xs)
    h = (len(s) - 1) * F(q)
    lo = int(h)
    if lo + 1 >= len(s):
        return s[-1]
    return s[lo] + (h - lo) * (s[lo + 1] - s[lo])


def median(xs):
    return quantile(xs, F(1, 2))


def det(M):
    n = len(M)
    M = [row[:] for row in M]
    d = F(1)
    for i in range(n):
        p = next((r for r in range(i, n) if M[r][i] != 0), None)
        if p is None:
            return F(0)
        if p != i:
            M[i], M[p] = M[p], M[i]
            d = -d
        d *= M[i][i]
        for r in range(i + 1, n):
            f = M[r][i] / M[i][i]
            for c in range(i, n):
                M[r][c] -= f * M[i][c]
    return d


def solve(M, b):
    n = len(M)
    A = [row[:] + [bi] for row, bi in zip(M, b)]
    for i in range(n):
        p = next(r for r in range(i, n) if A[r][i] != 0)
        A[i], A[p] = A[p], A[i]
        for r in range(n):
            if r != i:
                f = A[r][i] / A[i][i]
                for c in range(i, n + 1):
                    A[r][c] -= f * A[i][c]
    return [A[i][n] / A[i][i] for i in range(n)]


def spd(rng, n):
    """a symmetric positive definite matrix with dyadic entries: L L^T + I"""
    L = [[F(rng.randrange(-8, 9), 4) if j <= i else F(0) for j in range(n)] for i in range(n)]
    return [[sum(L[i][k] * L[j][k] for k in range(n)) + (1 if i == j else 0) for j in range(n)] for i in range(n)]


# ------------------------------------------------------------------ the individual validations
def v_bootstrap(rng, fail):
    import pandas as pd
    from pharmpy.tools.bootstrap.results import calculate_results
    from pharmpy.workflows import ModelfitResults
    npar = rng.choice([1, 2, 3, 4])
    nrep = rng.choice([2, 3, 5, 8, 13, 21, 34, 50])
    names = ['P%d' % i for i in range(npar)]
    style = rng.choice(['plain', 'permuted', 'permuted', 'ragged', 'ragged'])
    # replicate k: dict name -> value; label ORDER, missing labels and extra labels vary per replicate
    reps, orders = [], []
    for k in range(nrep):
        d = {nm: F(rng.randrange(-200, 400), rng.choice([1, 2, 4, 8, 16])) for nm in names}
        if style == 'ragged':
            if npar > 1 and rng.random() < 0.3:
                del d[rng.choice(names)]
            if rng.random() < 0.3:
                d['X_EXTRA'] = F(rng.randrange(0, 40), 4)
        order = list(d)
        if style != 'plain':
            rng.shuffle(order)
        reps.append(d)
        orders.append(order)
    cols = orders[0]                      # the table is re-indexed to the labels of the FIRST replicate
    ofv = [F(rng.randrange(-400, 400), 4) for _ in range(nrep)]
    ids = list(range(1, rng.choice([3, 5, 8]) + 1))
    iofv = {i: F(rng.randrange(0, 80), 8) for i in ids}
    orig_est = {nm: F(rng.randrange(-200, 400), 8) for nm in names}
    orig_order = list(names)
    if style != 'plain':
        rng.shuffle(orig_order)
        if style == 'ragged' and npar > 1 and rng.random() < 0.3:
            orig_order = orig_order[:-1]
    orig_ofv = sum(iofv.values())
    inc = [[rng.choice(ids) for _ in ids] for _ in range(nrep)]
    dofv = [None if rng.random() < 0.2 else F(rng.randrange(-400, 400), 4) for _ in range(nrep)]
    with_orig = rng.random() < 0.85
    results = [ModelfitResults(ofv=float(o), parameter_estimates=pd.Series([float(d[n]) for n in order], index=order))
               for o, d, order in zip(ofv, reps, orders)]
    orig = ModelfitResults(ofv=float(orig_ofv), parameter_estimates=pd.Series([float(orig_est[n]) for n in orig_order], index=orig_order),
                           individual_ofv=pd.Series([float(iofv[i]) for i in ids], index=ids)) if with_orig else None
    with warnings.catch_warnings():
        warnings.simplefilter('ignore')
        r = calculate_results(None, results, original_results=orig, included_individuals=inc,
                              dofv_results=[None if d is None else ModelfitResults(ofv=float(d)) for d in dofv])
    n = 0
    ps, pd_, cm, pe = r.parameter_statistics, r.parameter_distribution, r.covariance_matrix, r.parameter_estimates

    def same(ref, got, what, detail):
        """ref None = NaN expected"""
        nonlocal n
        n += 1
        if ref is None:
            if not (isinstance(got, float) or hasattr(got, 'dtype')) or not math.isnan(float(got)):
                fail(what, detail + f': expected NaN, tool {got!r}')
        elif not close(ref, got):
            fail(what, detail + f': reference {float(ref)!r} tool {got!r}')

    if list(pe.columns) != cols or not set(cols) <= set(ps.index):
        fail('bootstrap table labels', f'{list(pe.columns)} vs first replicate {cols}')
    for k, d in enumerate(reps):               # the stacked table itself, aligned by NAME
        for nm in cols:
            same(d.get(nm), pe.loc[k, nm], 'bootstrap parameter_estimates table (alignment by name)', f'row {k} {nm}')
    for nm in cols:
        col = [d[nm] for d in reps if nm in d]              # NaN (missing) replicates are skipped
        same(mean(col), ps.loc[nm, 'mean'], 'bootstrap mean', nm)
        same(median(col), ps.loc[nm, 'median'], 'bootstrap median', nm)
        if len(col) >= 2:
            v = var(col)
            n += 3
            if not close_sq(v, ps.loc[nm, 'stderr']):
                fail('bootstrap stderr', nm)
            if mean(col) != 0 and v != 0 and not close_sq(v / mean(col) ** 2, abs(ps.loc[nm, 'RSE'])):
                fail('bootstrap RSE', nm)
            if mean(col) != 0 and v != 0 and (ps.loc[nm, 'RSE'] < 0) != (mean(col) < 0):
                fail('bootstrap RSE sign', nm)
        same(mean(col) - orig_est[nm] if with_orig and nm in orig_order else None, ps.loc[nm, 'bias'], 'bootstrap bias', nm)
        same(min(col), pd_.loc[nm, 'min'], 'bootstrap min', nm)
        same(max(col), pd_.loc[nm, 'max'], 'bootstrap max', nm)
        same(median(col), pd_.loc[nm, 'median'], 'bootstrap dist median', nm)
        for lab, q in (('0.05%', F(5, 10000)), ('0.5%', F(5, 1000)), ('2.5%', F(25, 1000)), ('5%', F(5, 100)),
                       ('95%', F(95, 100)), ('97.5%', F(975, 1000)), ('99.5%', F(995, 1000)), ('99.95%', F(9995, 10000))):
            same(quantile(col, q), pd_.loc[nm, lab], 'bootstrap ' + lab, nm)
        for nm2 in cols:                                     # pairwise complete observations
            pairs = [(d[nm], d[nm2]) for d in reps if nm in d and nm2 in d]
            same(cov([a for a, _ in pairs], [b for _, b in pairs]) if len(pairs) >= 2 else None, cm.loc[nm, nm2],
                 'bootstrap covariance', f'{nm},{nm2}')
    o = r.ofvs
    for i in range(nrep):
        exp_boot = sum(iofv[k] for k in inc[i]) if with_orig else None
        rows = [('bootstrap_bootdata_ofv', ofv[i]), ('original_bootdata_ofv', exp_boot),
                ('bootstrap_origdata_ofv', dofv[i]),
                ('delta_bootdata', None if exp_boot is None else exp_boot - ofv[i]),
                ('delta_origdata', None if dofv[i] is None or not with_orig else dofv[i] - orig_ofv)]
        for lab, ref in rows:
            same(ref, o.loc[i, lab], 'bootstrap ofvs ' + lab, f'row {i}')
    st = r.ofv_statistics
    same(mean(ofv), st.loc['bootstrap_bootdata_ofv', 'mean'], 'bootstrap ofv statistics', 'mean')
    same(median(ofv), st.loc['bootstrap_bootdata_ofv', 'median'], 'bootstrap ofv statistics', 'median')
    return n


def v_cdd(rng, fail):
    import numpy as np
    import pandas as pd
    from pharmpy.tools.cdd.results import (compute_cook_scores, compute_covariance_ratios,
                                           compute_delta_ofv, compute_jackknife_covariance_matrix)
    from pharmpy.workflows import ModelfitResults
    npar = rng.choice([1, 2, 3, 4])
    ncase = rng.choice([2, 3, 5, 8, 13, 30, 50])
    names = ['P%d' % i for i in range(npar)]
    base = [F(rng.randrange(-40, 80), 8) for _ in names]
    est = [[b + F(rng.randrange(-16, 17), 16) for b in base] for _ in range(ncase)]
    C = spd(rng, npar)
    # label ORDER: every replicate Series may list the parameters in its own order, the base results (estimates and
    # covariance matrix) in yet another one (compute_cook_scores aligns by name since fix 7b6cdfd)
    permute = rng.random() < 0.6
    rep_orders = [rng.sample(names, npar) if permute else list(names) for _ in range(ncase)]
    base_order = rng.sample(names, npar) if permute else list(names)
    ix = {nm: j for j, nm in enumerate(names)}
    df_est = pd.DataFrame(data=[pd.Series([float(e[ix[nm]]) for nm in order], index=order, name='c%d' % i)
                                for i, (e, order) in enumerate(zip(est, rep_orders))])
    n = 0
    if sorted(df_est.columns) != names:
        fail('cdd estimates table labels', str(list(df_est.columns)))
    # jackknife covariance = (N-1)/N * sum (theta_i - mean)(theta_i - mean)^T
    J = compute_jackknife_covariance_matrix(df_est)
    J = J.loc[names, names]                                   # compared by NAME
    Jref = [[F(ncase - 1, ncase) * sum((e[a] - mean([x[a] for x in est])) * (e[b] - mean([x[b] for x in est])) for e in est)
             for b in range(npar)] for a in range(npar)]
    for a in range(npar):
        for b in range(npar):
            n += 1
            if not close(Jref[a][b], J.iloc[a, b]):
                fail('jackknife covariance', f'[{a},{b}] reference {float(Jref[a][b])!r} tool {J.iloc[a, b]!r}')
    # Cook score^2 = (theta_i - theta)^T C^-1 (theta_i - theta)
    cov_df = pd.DataFrame([[float(x) for x in row] for row in C], index=names, columns=names).loc[base_order, base_order]
    cooks = compute_cook_scores(pd.Series([float(base[ix[nm]]) for nm in base_order], index=base_order), df_est, cov_df)
    if cooks is None:
        fail('cook scores', 'returned None on a positive definite matrix')
    else:
        for e, got in zip(est, cooks):
            d = [x - b for x, b in zip(e, base)]
            ref = sum(di * si for di, si in zip(d, solve(C, d)))
            n += 1
            if not close_sq(ref, got):
                fail('cook score', f'reference^2 {float(ref)!r} tool {got!r}')
    # a replicate lacking a parameter must not yield numbers computed from misaligned columns
    if npar > 1 and rng.random() < 0.3:
        drop = rng.choice(names)
        ragged = pd.DataFrame(data=[pd.Series([float(e[ix[nm]]) for nm in names if not (i == 0 and nm == drop)],
                                              index=[nm for nm in names if not (i == 0 and nm == drop)], name='c%d' % i)
                                    for i, e in enumerate(est)])
        rc = compute_cook_scores(pd.Series([float(b) for b in base], index=names), ragged,
                                 pd.DataFrame([[float(x) for x in row] for row in C], index=names, columns=names))
        n += 1
        if rc is not None:
            if not math.isnan(rc[0]):
                fail('cook score with a missing parameter', f'replicate 0 lacks {drop} but got {rc[0]!r}')
            for e, got in zip(est[1:], rc[1:]):
                d = [x - b for x, b in zip(e, base)]
                if not math.isnan(got) and not close_sq(sum(di * si for di, si in zip(d, solve(C, d))), got):
                    fail('cook score next to a ragged replicate', repr(got))
    # covariance ratio^2 = det(C_i) / det(C)
    Cs = [None if rng.random() < 0.2 else spd(rng, npar) for _ in range(ncase)]
    ress = [None if rng.random() < 0.1 else ModelfitResults(
        ofv=float(F(rng.randrange(0, 400), 4)),
        covariance_matrix=None if Ci is None else pd.DataFrame([[float(x) for x in row] for row in Ci], index=names, columns=names))
        for Ci in Cs]
    ratios = compute_covariance_ratios(ress, pd.DataFrame([[float(x) for x in row] for row in C], index=names, columns=names))
    for Ci, res, got in zip(Cs, ress, ratios):
        n += 1
        if res is None or Ci is None:
            if not math.isnan(got):
                fail('covariance ratio', 'expected NaN')
        elif not close_sq(det(Ci) / det(C), got):
            fail('covariance ratio', f'reference^2 {float(det(Ci) / det(C))!r} tool {got!r}')
    # delta ofv = sum of the base iOFV of the individuals kept - cdd ofv
    ids = list(range(1, ncase + 1))
    iofv = {i: F(rng.randrange(0, 80), 8) for i in ids}
    skipped = [[i] if rng.random() < 0.8 else [i, ids[(i) % ncase]] for i in ids]
    baseres = ModelfitResults(ofv=float(sum(iofv.values())), individual_ofv=pd.Series([float(iofv[i]) for i in ids], index=ids))
    dofv = compute_delta_ofv(baseres, ress, skipped)
    for sk, res, got in zip(skipped, ress, dofv):
        n += 1
        if res is None:
            if not math.isnan(got):
                fail('cdd delta ofv', 'expected NaN')
        else:
            ref = sum(v for i, v in iofv.items() if i not in sk) - fr(res.ofv)
            if not close(ref, got):
                fail('cdd delta ofv', f'reference {float(ref)!r} tool {got!r}')
    return n


_PHENO = []


def v_shrinkage(rng, fail):
    import pandas as pd
    from pharmpy.modeling import calculate_eta_shrinkage, calculate_individual_shrinkage, load_example_model
    if not _PHENO:
        _PHENO.append(load_example_model('pheno'))
    model = _PHENO[0]
    etas = model.random_variables.etas.names              # ETA_CL, ETA_VC
    omegas = ['IIV_CL', 'IIV_VC']
    nind = rng.choice([2, 3, 5, 10, 25, 50])
    om = [F(rng.randrange(1, 64), 64) for _ in omegas]
    pe = pd.Series([float(x) for x in om], index=omegas)
    ie = [[F(rng.randrange(-32, 33), 64) for _ in etas] for _ in range(nind)]
    df = pd.DataFrame([[float(x) for x in row] for row in ie], columns=etas, index=range(1, nind + 1))
    n = 0
    s_var = calculate_eta_shrinkage(model, pe, df)
    s_sd = calculate_eta_shrinkage(model, pe, df, sd=True)
    for j, e in enumerate(etas):
        v = var([row[j] for row in ie])
        n += 2
        if not close(1 - v / om[j], s_var[e]):
            fail('eta shrinkage (variance scale)', f'{e}: reference {float(1 - v / om[j])!r} tool {s_var[e]!r}')
        if not close_sq(v / om[j], 1 - s_sd[e]):        # 1 - shrinkage_sd = sd / sqrt(omega)
            fail('eta shrinkage (sd scale)', f'{e}: reference (1-s)^2 {float(v / om[j])!r} tool s {s_sd[e]!r}')
    # individual shrinkage = var(eta_i) / omega : diagonal of the individual covariance matrices
    covs = [spd(rng, 2) for _ in range(nind)]
    ser = pd.Series([pd.DataFrame([[float(x) / 64 for x in row] for row in Ci], index=etas, columns=etas) for Ci in covs],
                    index=range(1, nind + 1))
    ish = calculate_individual_shrinkage(model, pe, ser)
    for i, Ci in enumerate(covs):
        for j, e in enumerate(etas):
            n += 1
            ref = fr(float(Ci[j][j]) / 64) / om[j]
            if not close(ref, ish.iloc[i][e]):
                fail('individual shrinkage', f'{e}: reference {float(ref)!r} tool {ish.iloc[i][e]!r}')
    return n


def v_delta(rng, fail):
    import pandas as pd
    import sympy
    from pharmpy.internals.math import se_delta_method
    names = ['CL', 'V', 'KA']
    vals = {nm: F(rng.randrange(1, 40), 8) for nm in names}
    C = spd(rng, 3)
    cov_df = pd.DataFrame([[float(x) for x in row] for row in C], index=names, columns=names)
    CL, V, KA = sympy.symbols('CL V KA')
    kind = rng.choice(['ratio', 'product', 'sum', 'half'])
    if kind == 'ratio':
        expr, grad = CL / V, {'CL': 1 / vals['V'], 'V': -vals['CL'] / vals['V'] ** 2, 'KA': F(0)}
    elif kind == 'product':
        expr, grad = CL * V * KA, {'CL': vals['V'] * vals['KA'], 'V': vals['CL'] * vals['KA'], 'KA': vals['CL'] * vals['V']}
    elif kind == 'sum':
        expr, grad = 2 * CL + 3 * KA, {'CL': F(2), 'V': F(0), 'KA': F(3)}
    else:
        expr, grad = V ** 2 / (CL + KA), {'V': 2 * vals['V'] / (vals['CL'] + vals['KA']),
                                          'CL': -vals['V'] ** 2 / (vals['CL'] + vals['KA']) ** 2,
                                          'KA': -vals['V'] ** 2 / (vals['CL'] + vals['KA']) ** 2}
    got = se_delta_method(expr, {k: float(v) for k, v in vals.items()}, cov_df)
    used = [nm for nm in names if grad[nm] != 0 or sympy.Symbol(nm) in expr.free_symbols]
    ref = sum(grad[a] * C[names.index(a)][names.index(b)] * grad[b] for a in used for b in used)
    if not close_sq(ref, got):
        fail('se_delta_method', f'{kind}: reference^2 {float(ref)!r} tool {got!r}')
    return 1


def v_simeval(rng, fail):
    import pandas as pd
    from types import SimpleNamespace
    from pharmpy.tools.simeval.results import calculate_results
    from pharmpy.workflows import ModelfitResults
    nind = rng.choice([1, 2, 4, 7])
    nsim = rng.choice([2, 3, 5, 10, 50])
    ids = list(range(1, nind + 1))
    style = rng.choice(['plain', 'permuted', 'ragged'])
    sims, orders = [], []
    for _ in range(nsim):
        d = {i: F(rng.randrange(0, 160), 8) for i in ids}
        if style == 'ragged':
            if nind > 1 and rng.random() < 0.3:
                del d[rng.choice(ids)]
            if rng.random() < 0.2:
                d[99] = F(rng.randrange(0, 160), 8)          # an individual the original results do not have
        order = list(d)
        if style != 'plain':
            rng.shuffle(order)
        sims.append(d)
        orders.append(order)
    orig = {i: F(rng.randrange(0, 400), 8) for i in ids}
    orig_order = list(ids)
    if style != 'plain':
        rng.shuffle(orig_order)
    sf = SimpleNamespace(modelfit_results=[ModelfitResults(individual_ofv=pd.Series([float(d[i]) for i in order], index=order))
                                           for d, order in zip(sims, orders)])
    with warnings.catch_warnings():
        warnings.simplefilter('ignore')
        r = calculate_results(None, ModelfitResults(individual_ofv=pd.Series([float(orig[i]) for i in orig_order], index=orig_order)), sf)
    s = r.iofv_summary
    n = 0
    for i in ids:
        col = [d[i] for d in sims if i in d]                 # by LABEL, missing simulations skipped
        if not col:
            continue
        m = mean(col)
        n += 1
        if not close(m, s.loc[i, 'sampled_mean']):
            fail('simeval mean', f'id {i}: reference {float(m)!r} tool {s.loc[i, "sampled_mean"]!r}')
        if not close(orig[i], s.loc[i, 'original']):
            fail('simeval original', f'id {i}')
        if len(col) < 2:
            continue
        v = var(col)
        n += 1
        if not close_sq(v, s.loc[i, 'sampled_stdev']):
            fail('simeval stdev', f'id {i}')
        if v != 0:
            for lab, ref_num in (('residual', orig[i] - m), ('residual_q1', orig[i] - quantile(col, F(1, 4))),
                                 ('residual_q3', orig[i] - quantile(col, F(3, 4)))):
                got = s.loc[i, lab]
                n += 1
                if not close_sq(ref_num ** 2 / v, abs(got)) or (ref_num != 0 and (got < 0) != (ref_num < 0)):
                    fail('simeval ' + lab, f'id {i}: reference^2 {float(ref_num ** 2 / v)!r} tool {got!r}')
            n += 1
            res2 = (orig[i] - m) ** 2 / v
            exp_out = orig[i] - m >= 0 and res2 >= 9
            if abs(res2 - 9) > F(1, 10 ** 6) and bool(s.loc[i, 'residual_outlier']) != exp_out:
                fail('simeval outlier flag', f'id {i}')
    return n


def probe_cook_positional():
    """Witness of the fixed finding C19-CDD-COOK-POSITIONAL (regression probe): returns (reproduced, detail)."""
    import numpy as np
    import pandas as pd
    from pharmpy.tools.cdd.results import compute_cook_scores
    base = pd.Series([2.0, 1.0, 3.0], index=['B', 'A', 'C'])
    C = pd.DataFrame(np.diag([4.0, 1.0, 9.0]), index=['B', 'A', 'C'], columns=['B', 'A', 'C'])
    est = pd.DataFrame(data=[pd.Series({'C': 30.0, 'A': 10.0, 'B': 20.0}).rename('m0')])
    got = compute_cook_scores(base, est, C)
    ref = F(9 ** 2, 1) + F(18 ** 2, 4) + F(27 ** 2, 9)            # by name: (10-1)^2/1 + (20-2)^2/4 + (30-3)^2/9 = 243
    ok = got is not None and close_sq(ref, got[0])
    return (not ok), f'defining formula sqrt({ref}) = {math.sqrt(ref)!r}, tool {None if got is None else float(got[0])!r}'


PARTS = [('bootstrap', v_bootstrap), ('cdd', v_cdd), ('shrinkage', v_shrinkage), ('delta_method', v_delta),
         ('simeval', v_simeval)]


def run_one(part, seed):
    """returns (number of compared values, list of failures)"""
    if seed == 'probe_cook_positional':
        rep, detail = probe_cook_positional()
        return 1, ([('cook positional', detail)] if rep else [])
    rng = random.Random(seed)
    fails = []
    f = dict(PARTS)[part]
    n = f(rng, lambda what, detail: fails.append((what, detail)))
    return n, fails


def run(ctx):
    model_batch(ctx, 180 if ctx.tier == 'quick' else 1800)
    delta_ofv_batch(ctx, 60 if ctx.tier == 'quick' else 800)
    reps = {'bootstrap': 12, 'cdd': 25, 'shrinkage': 25, 'delta_method': 40, 'simeval': 25}
    if ctx.tier != 'quick':
        reps = {k: v * 12 for k, v in reps.items()}
    out = {}
    for part, _ in PARTS:
        total = 0
        nf = 0
        if part == 'bootstrap':
            reps = dict(reps, bootstrap=reps['bootstrap'] + 8)
        for i in range(reps[part]):
            seed = f'{ctx.seed}-stats-{part}-{i}'
            try:
                n, fails = run_one(part, seed)
            except Exception as e:          # the tool itself raised on a well-formed input
                n, fails = 0, [('exception', f'{type(e).__name__}: {e}')]
            total += n
            for what, detail in fails[:1]:
                nf += 1
                what = ('tool statistic raises on valid input: ' + part) if what == 'exception' else \
                    f'statistic does not equal its defining formula: {what}'
                ctx.violation(what, {'stats': {'part': part, 'seed': seed}, 'detail': detail,
                                     'input': describe_input(lambda: dict(PARTS)[part](random.Random(seed), lambda *a: None))})
        out[part] = {'sets': reps[part], 'values_compared': total, 'failures': nf}
    reproduced, detail = probe_cook_positional()
    if reproduced:
        ctx.violation('statistic does not equal its defining formula: cdd Cook score with differing label order '
                      '(recurrence of C19-CDD-COOK-POSITIONAL)', {'stats': {'part': 'cdd', 'seed': 'probe_cook_positional'}, 'detail': detail})
    out['cook_positional_regression_probe'] = {'reproduced': reproduced, 'detail': detail}
    out['input_styles'] = ('replicate Series / frames with identical, permuted and ragged (missing + extra labels) label order; '
                           'reference recomputed ALIGNED BY NAME, NaN = absent, pairwise-complete covariance')
    ctx.coverage['validation_only_statistics'] = out
    ctx.notes.append('resampling / diagnostic statistics: VALIDATION ONLY (exact rational recomputation, tolerance 1e-9), '
                     'not part of the proof obligations')
    ctx.log('statistics validation done', {k: v['values_compared'] for k, v in out.items() if isinstance(v, dict) and 'values_compared' in v})


# =====================================================================================================================
# Modelled part (coq/theories/C19/Stats.v): the same tools, but compared INSIDE Coq with the model of the array pipeline
# (tags 31-36) and with the documented formula by name (tag 41).  Inputs are dyadic; means over 2^k values, biases and
# the jackknife matrix are compared exactly, everything that goes through a division by n-1, a square root or a
# Cholesky solve with relative tolerance 1e-12 (a reported root r through r*r).
def _q(x):
    from harness.lib import coqterm as ct
    return ct.q(F(x))


def _oq(x):
    x = float(x)
    return 'None' if (math.isnan(x) or math.isinf(x)) else f'(Some {_q(x)})'


def _lst(items):
    return '[' + '; '.join(items) + ']'


def _series(d, order, ids):
    return _lst([f'({ids(n)}, {"None" if d[n] is None else "(Some " + _q(d[n]) + ")"})' for n in order])


def inverse(M):
    n = len(M)
    cols = [solve(M, [F(1) if i == j else F(0) for i in range(n)]) for j in range(n)]
    return [[cols[j][i] for j in range(n)] for i in range(n)]


def model_case(rng, kind, ids):
    """one case of Stats.stcase as a Gallina term, built from the REAL tool output"""
    import numpy as np
    import pandas as pd
    from pharmpy.workflows import ModelfitResults
    dy = lambda lo, hi, den: F(rng.randrange(lo, hi), den)
    if kind == 'boot':
        from pharmpy.tools.bootstrap.results import calculate_results
        npar = rng.choice([1, 2, 3, 4])
        names = ['P%d' % i for i in range(npar)]
        style = rng.choice(['plain', 'permuted', 'permuted', 'ragged'])
        nrep = rng.choice([2, 4, 8, 16, 32]) if style != 'ragged' else rng.choice([3, 5, 8, 13])
        reps, orders = [], []
        for k in range(nrep):
            d = {nm: dy(-200, 400, rng.choice([1, 2, 4, 8, 16])) for nm in names}
            if style == 'ragged' and npar > 1 and rng.random() < 0.3:
                del d[rng.choice(names)]
            if style != 'plain' and rng.random() < 0.3 and (k > 0 or style == 'ragged'):
                d['X_EXTRA'] = dy(0, 40, 4)       # an extra label (not in the first replicate of an 'exact' case: 2^k counts)
            order = list(d)
            if style != 'plain':
                rng.shuffle(order)
            reps.append(d)
            orders.append(order)
        orig = {nm: dy(-200, 400, 8) for nm in names}
        oorder = list(names)
        if style != 'plain':
            rng.shuffle(oorder)
            if style == 'ragged' and npar > 1:
                oorder = oorder[:-1]
        with_orig = rng.random() < 0.85
        results = [ModelfitResults(ofv=1.0, parameter_estimates=pd.Series([float(d[n]) for n in o], index=o)) for d, o in zip(reps, orders)]
        origr = ModelfitResults(ofv=1.0, parameter_estimates=pd.Series([float(orig[n]) for n in oorder], index=oorder),
                                individual_ofv=pd.Series([1.0], index=[1])) if with_orig else None
        with warnings.catch_warnings():
            warnings.simplefilter('ignore')
            r = calculate_results(None, results, original_results=origr, included_individuals=[[1]] * nrep)
        cols = list(r.parameter_estimates.columns)
        ps, cm = r.parameter_statistics, r.covariance_matrix
        obs = [f"(mkBootobs {ids(c)} {_oq(ps.loc[c, 'mean'])} {_oq(ps.loc[c, 'bias'])} {_oq(ps.loc[c, 'stderr'])} {_oq(ps.loc[c, 'RSE'])})"
               for c in cols]
        cov = [_lst([_oq(cm.loc[a, b]) for b in cols]) for a in cols]
        exact = 'true' if style != 'ragged' else 'false'
        return (f"(StBoot {exact} {_lst([_series(d, o, ids) for d, o in zip(reps, orders)])} "
                f"{'(Some ' + _series(orig, oorder, ids) + ')' if with_orig else 'None'} {_lst(obs)} {_lst(cov)})")
    if kind in ('jack', 'cook'):
        from pharmpy.tools.cdd.results import compute_cook_scores, compute_jackknife_covariance_matrix
        npar = rng.choice([1, 2, 3, 4])
        names = ['P%d' % i for i in range(npar)]
        ncase = rng.choice([2, 4, 8, 16, 32])
        base = {nm: dy(-40, 80, 8) for nm in names}
        cases = [{nm: base[nm] + dy(-16, 17, 16) for nm in names} for _ in range(ncase)]
        orders = [rng.sample(names, npar) for _ in range(ncase)]
        df = pd.DataFrame(data=[pd.Series([float(c[n]) for n in o], index=o, name='c%d' % i) for i, (c, o) in enumerate(zip(cases, orders))])
        if kind == 'jack':
            J = compute_jackknife_covariance_matrix(df)
            cols = list(J.columns)
            return (f"(StJack {_lst([ids(c) for c in cols])} {_lst([_series(c, o, ids) for c, o in zip(cases, orders)])} "
                    f"{_lst([_lst([_q(J.loc[a, b]) for b in cols]) for a in cols])})")
        C = spd(rng, npar)
        border = rng.sample(names, npar)
        ix = {nm: j for j, nm in enumerate(names)}
        Cb = [[C[ix[a]][ix[b]] for b in border] for a in border]
        cov_df = pd.DataFrame([[float(x) for x in row] for row in Cb], index=border, columns=border)
        cooks = compute_cook_scores(pd.Series([float(base[n]) for n in border], index=border), df, cov_df)
        if cooks is None:
            raise RuntimeError('compute_cook_scores returned None on a positive definite matrix')
        cinv = inverse(Cb)
        return (f"(StCook {_lst([ids(c) for c in border])} {_lst([_lst([_q(x) for x in row]) for row in cinv])} {_series(base, border, ids)} "
                f"{_lst([_series(c, o, ids) for c, o in zip(cases, orders)])} {_lst([_oq(x) for x in cooks])})")
    if kind in ('shrink', 'ishr'):
        from pharmpy.modeling import calculate_eta_shrinkage, calculate_individual_shrinkage, load_example_model
        if not _PHENO:
            _PHENO.append(load_example_model('pheno'))
        model = _PHENO[0]
        etas = model.random_variables.etas.names
        omn = ['IIV_CL', 'IIV_VC']
        om = [F(rng.randrange(1, 64), 64) for _ in omn]
        pe = pd.Series([float(x) for x in om], index=omn)
        if rng.random() < 0.5:
            pe = pe[::-1]                                   # label order of the estimates must not matter
        nind = rng.choice([2, 3, 5, 8, 16])
        if kind == 'shrink':
            ie = [[None if (rng.random() < 0.1 and nind > 3) else dy(-32, 33, 64) for _ in etas] for _ in range(nind)]
            df = pd.DataFrame([[float('nan') if x is None else float(x) for x in row] for row in ie], columns=etas, index=range(1, nind + 1))
            sv, ss = calculate_eta_shrinkage(model, pe, df), calculate_eta_shrinkage(model, pe, df, sd=True)
            cols = _lst([f"({ids(e)}, {_lst(['None' if row[j] is None else '(Some ' + _q(row[j]) + ')' for row in ie])})" for j, e in enumerate(etas)])
            return (f"(StShrink {_lst([_q(x) for x in om])} {cols} {_lst([_oq(sv[e]) for e in etas])} {_lst([_oq(ss[e]) for e in etas])})")
        covs = [spd(rng, 2) for _ in range(nind)]
        ser = pd.Series([pd.DataFrame([[float(x) / 64 for x in row] for row in Ci], index=etas, columns=etas) for Ci in covs], index=range(1, nind + 1))
        ish = calculate_individual_shrinkage(model, pe, ser)
        return (f"(StIshr {_lst([_q(x) for x in om])} {_lst([_lst([_q(float(Ci[j][j]) / 64) for j in range(2)]) for Ci in covs])} "
                f"{_lst([_lst([_oq(ish.iloc[i][e]) for e in etas]) for i in range(nind)])})")
    if kind == 'delta':
        import sympy
        from pharmpy.internals.math import se_delta_method
        names = ['CL', 'V', 'KA']
        vals = {nm: F(rng.randrange(1, 40), 8) for nm in names}
        C = spd(rng, 3)
        order = rng.sample(names, 3)
        ix = {nm: j for j, nm in enumerate(names)}
        Co = [[C[ix[a]][ix[b]] for b in order] for a in order]
        cov_df = pd.DataFrame([[float(x) for x in row] for row in Co], index=order, columns=order)
        CL, V, KA = sympy.symbols('CL V KA')
        kind2 = rng.choice(['ratio', 'product', 'sum', 'half'])
        if kind2 == 'ratio':
            expr, grad = CL / V, {'CL': 1 / vals['V'], 'V': -vals['CL'] / vals['V'] ** 2}
        elif kind2 == 'product':
            expr, grad = CL * V * KA, {'CL': vals['V'] * vals['KA'], 'V': vals['CL'] * vals['KA'], 'KA': vals['CL'] * vals['V']}
        elif kind2 == 'sum':
            expr, grad = 2 * CL + 3 * KA, {'CL': F(2), 'KA': F(3)}
        else:
            expr, grad = V ** 2 / (CL + KA), {'V': 2 * vals['V'] / (vals['CL'] + vals['KA']),
                                              'CL': -vals['V'] ** 2 / (vals['CL'] + vals['KA']) ** 2,
                                              'KA': -vals['V'] ** 2 / (vals['CL'] + vals['KA']) ** 2}
        got = se_delta_method(expr, {k: float(v) for k, v in vals.items()}, cov_df)
        return (f"(StDelta {_lst([ids(c) for c in order])} {_lst([_lst([_q(x) for x in row]) for row in Co])} "
                f"{_lst([f'({ids(k)}, {_q(v)})' for k, v in grad.items()])} {_q(float(got))})")
    if kind == 'pct':
        from pharmpy.tools.bootstrap.results import calculate_results
        npar = rng.choice([1, 2, 3])
        names = ['P%d' % i for i in range(npar)]
        style = rng.choice(['plain', 'permuted', 'ragged'])
        nrep = rng.choice([1, 2, 3, 4, 7, 10, 21, 40])
        reps, orders = [], []
        for k in range(nrep):
            d = {nm: dy(-200, 400, rng.choice([1, 2, 4, 8, 16])) for nm in names}
            if style == 'ragged' and npar > 1 and k > 0 and rng.random() < 0.3:
                del d[rng.choice(names)]
            order = list(d)
            if style != 'plain':
                rng.shuffle(order)
            reps.append(d)
            orders.append(order)
        results = [ModelfitResults(ofv=1.0, parameter_estimates=pd.Series([float(d[n]) for n in o], index=o)) for d, o in zip(reps, orders)]
        with warnings.catch_warnings():
            warnings.simplefilter('ignore')
            r = calculate_results(None, results, original_results=None, included_individuals=[[1]] * nrep)
        cols = list(r.parameter_estimates.columns)
        pdist = r.parameter_distribution
        labs = ['0.05%', '0.5%', '2.5%', '5%', 'median', '95%', '97.5%', '99.5%', '99.95%']
        obs = [f"({ids(c)}, {_oq(pdist.loc[c, 'min'])}, {_lst([_oq(pdist.loc[c, l]) for l in labs])}, {_oq(pdist.loc[c, 'max'])})" for c in cols]
        return f"(StPct true {_lst([_series(d, o, ids) for d, o in zip(reps, orders)])} {_lst(obs)})"
    if kind == 'sim':
        from types import SimpleNamespace
        from pharmpy.tools.simeval.results import calculate_results
        nind = rng.choice([1, 2, 4, 7])
        style = rng.choice(['plain', 'permuted', 'ragged'])
        nsim = rng.choice([2, 4, 8, 16, 32]) if style != 'ragged' else rng.choice([3, 5, 10])
        idl = list(range(1, nind + 1))
        sims, orders = [], []
        for _ in range(nsim):
            d = {i: dy(0, 160, 8) for i in idl}
            if style == 'ragged':
                if nind > 1 and rng.random() < 0.3:
                    del d[rng.choice(idl)]
                if rng.random() < 0.2:
                    d[99] = dy(0, 160, 8)
            order = list(d)
            if style != 'plain':
                rng.shuffle(order)
            sims.append(d)
            orders.append(order)
        orig = {i: dy(0, 400, 8) for i in idl}
        if rng.random() < 0.3:                      # an individual far out: residual >= 3 (or <= -3: not an outlier)
            orig[idl[0]] = orig[idl[0]] + rng.choice([400, 400, -500])
        oorder = list(idl)
        if style != 'plain':
            rng.shuffle(oorder)
        sf = SimpleNamespace(modelfit_results=[ModelfitResults(individual_ofv=pd.Series([float(d[i]) for i in o], index=o)) for d, o in zip(sims, orders)])
        with warnings.catch_warnings():
            warnings.simplefilter('ignore')
            r = calculate_results(None, ModelfitResults(individual_ofv=pd.Series([float(orig[i]) for i in oorder], index=oorder)), sf)
        su = r.iofv_summary
        idn = lambda i: ids('id%d' % i)
        obs = [f"(mkSimobs {idn(i)} {_oq(row['original'])} {_oq(row['sampled_mean'])} {_oq(row['sampled_stdev'])} {_oq(row['residual'])} "
               f"{_oq(row['residual_q1'])} {_oq(row['residual_q3'])} {'true' if bool(row['residual_outlier']) else 'false'})" for i, row in su.iterrows()]
        ser = lambda d, o: _lst([f'({idn(i)}, (Some {_q(d[i])}))' for i in o])
        return f"(StSim {'true' if style != 'ragged' else 'false'} {_lst([ser(d, o) for d, o in zip(sims, orders)])} {ser(orig, oorder)} {_lst(obs)})"
    raise ValueError(kind)


def delta_ofv_batch(ctx, n, only_seeds=None):
    """cdd compute_delta_ofv + the dofv_influential flag (as calculate_results computes it) against Stats3, exactly"""
    import pandas as pd
    from pharmpy.tools.cdd.results import compute_delta_ofv
    from pharmpy.workflows import ModelfitResults
    terms, seeds = [], []
    for i in range(n):
        seed = only_seeds[i] if only_seeds else f'{ctx.seed}-deltaofv-{i}'
        rng = random.Random(seed)
        nind = rng.choice([1, 2, 3, 5, 8, 12])
        idl = rng.sample(range(1, 40), nind)                      # labels in arbitrary order
        iofv = {k: F(rng.randrange(-40, 400), 8) for k in idl}
        ncase = rng.choice([1, 2, 4, 7])
        cases = []
        for _ in range(ncase):
            sk = rng.sample(idl, rng.choice([0, 1, 1, 2])) if nind >= 2 else [idl[0]]
            if rng.random() < 0.15:
                sk = sk + [77]                                    # an individual the base results do not list
            base_kept = sum(v for k, v in iofv.items() if k not in sk)
            ofv = None if rng.random() < 0.15 else base_kept - rng.choice([F(0), F(1), F(3), F(31, 8), F(4), F(10), F(-2)])
            cases.append((sk, ofv))
        with_iofv = rng.random() < 0.9
        base = ModelfitResults(ofv=1.0, individual_ofv=pd.Series([float(iofv[k]) for k in idl], index=idl) if with_iofv else None)
        ress = [None if o is None else ModelfitResults(ofv=float(o)) for _, o in cases]
        try:
            got = compute_delta_ofv(base, ress, [sk for sk, _ in cases])
            infl = [elt > 3.86 for elt in got]                    # tools/cdd/results.py calculate_results
        except Exception as e:
            ctx.violation(f'tool statistic raises on valid input: cdd delta ofv ({type(e).__name__})',
                          {'stats': {'part': 'deltaofv', 'seed': seed}, 'exception': f'{type(e).__name__}: {e}',
                           'input': {'individual_ofv': {str(k): float(v) for k, v in iofv.items()} if with_iofv else None,
                                     'cases': [[sk, None if o is None else float(o)] for sk, o in cases]}})
            continue
        pid = lambda k: f'{int(k)}%positive'
        it = 'None' if not with_iofv else '(Some ' + _lst([f'({pid(k)}, {_q(iofv[k])})' for k in idl]) + ')'
        ct_ = _lst([f"({_lst([pid(k) for k in sk])}, {'None' if o is None else '(Some ' + _q(o) + ')'})" for sk, o in cases])
        terms.append(f"(mkDdcase {it} {ct_} {_lst([_oq(x) for x in got])} {_lst(['true' if b else 'false' for b in infl])})")
        seeds.append(seed)
    verdicts = ctx.run_cases('deltaofv', 'C19.Model C19.Stats C19.Stats3', 'ddcase', terms, 'ddverdict', shard=200)
    bad = [sd for sd, v in zip(seeds, verdicts) if v]
    for sd in bad[:3]:
        ctx.violation('cdd delta OFV / influential flag does not equal its defining formula', {'stats': {'part': 'deltaofv', 'seed': sd}})
    ctx.coverage['cdd_delta_ofv_cases'] = {'cases': n, 'disagreements': len(bad)}
    ctx.coverage['evaluations'] += n
    ctx.log('cdd delta OFV cases done', ctx.coverage['cdd_delta_ofv_cases'])


def describe_case(kind, seed):
    """the generated input of a modelled-statistics case, for the replay file"""
    return describe_input(lambda: model_case(random.Random(seed), kind, lambda x: '1%positive'))


def describe_input(gen):
    """runs a case generator with the tool functions replaced by recorders: the arguments of the first tool call"""
    import pandas as pd
    rec = []

    class Stop(Exception):
        pass

    def recorder(name):
        def f(*a, **k):
            def show(x):
                if isinstance(x, (pd.Series, pd.DataFrame)):
                    return x.to_dict()
                if isinstance(x, (list, tuple)):
                    return [show(y) for y in x]
                if hasattr(x, 'parameter_estimates'):
                    pe = x.parameter_estimates
                    return {'parameter_estimates': None if pe is None else pe.to_dict()}
                return repr(x)[:200]
            rec.append({'call': name, 'args': [show(x) for x in a], 'kwargs': {kk: show(v) for kk, v in k.items()}})
            raise Stop()
        return f
    import pharmpy.internals.math as pim
    import pharmpy.modeling as pmod
    import pharmpy.tools.bootstrap.results as pb
    import pharmpy.tools.cdd.results as pc
    import pharmpy.tools.simeval.results as psim
    saved = [(psim, 'calculate_results'), (pc, 'compute_covariance_ratios'), (pc, 'compute_delta_ofv'), (pb, 'calculate_results'), (pc, 'compute_cook_scores'), (pc, 'compute_jackknife_covariance_matrix'),
             (pmod, 'calculate_eta_shrinkage'), (pmod, 'calculate_individual_shrinkage'), (pim, 'se_delta_method')]
    olds = [(m, n, getattr(m, n)) for m, n in saved]
    try:
        for m, n in saved:
            setattr(m, n, recorder(n))
        try:
            gen()
        except Stop:
            pass
        except Exception as e:
            rec.append({'describe_failed': repr(e)[:200]})
    finally:
        for m, n, o in olds:
            setattr(m, n, o)
    return rec


def model_batch(ctx, n):
    """cases of the MODELLED statistics, compared inside Coq"""
    from harness.lib import coqterm as ct
    names = ct.Names()
    ids = lambda s: names.p(str(s))
    kinds = ['boot', 'boot', 'jack', 'cook', 'shrink', 'ishr', 'delta', 'pct', 'sim']
    terms, ks, seeds = [], [], []
    nraise = 0
    for i in range(n):
        k = kinds[i % len(kinds)]
        seed = f'{ctx.seed}-statmodel-{k}-{i}'
        try:
            term = model_case(random.Random(seed), k, ids)
        except Exception as e:
            # the generated inputs are valid for every tool: an exception out of the tool function is an oracle failure,
            # reported with the input (kind + seed regenerate it); the remaining cases are still evaluated
            import traceback
            nraise += 1
            ctx.violation(f'tool statistic raises on valid input: {k} ({type(e).__name__})',
                          {'stats_model': {'kind': k, 'seed': seed}, 'exception': f'{type(e).__name__}: {e}',
                           'where': traceback.format_exc().strip().split('\n')[-3:], 'input': describe_case(k, seed)})
            continue
        terms.append(term)
        ks.append(k)
        seeds.append(seed)
    first = [i for i, k in enumerate(ks) if k not in ('pct', 'sim')]
    second = [i for i, k in enumerate(ks) if k in ('pct', 'sim')]
    v1 = ctx.run_cases('statmodel', 'C19.Model C19.Stats', 'stcase', [terms[i] for i in first], 'stverdict', shard=60)
    v2 = ctx.run_cases('statmodel2', 'C19.Model C19.Stats C19.Stats2', 'st2case', [terms[i] for i in second], 'stverdict2', shard=60)
    verdicts = [None] * len(ks)
    for i, v in zip(first, v1):
        verdicts[i] = v
    for i, v in zip(second, v2):
        verdicts[i] = v
    nbad = 0
    for k, seed, v in zip(ks, seeds, verdicts):
        if 41 in v or 42 in v:
            ctx.violation('statistic does not equal its documented formula by name: ' + k,
                          {'stats_model': {'kind': k, 'seed': seed}, 'tags': v, 'input': describe_case(k, seed)})
            nbad += 1
        elif v:
            ctx.broken.append(f'correspondence C19 statistics model vs implementation ({k}, tags {sorted(set(v))}, seed {seed})')
            nbad += 1
    ctx.coverage['statistics_model_cases'] = {'cases': n, 'by_kind': {k: ks.count(k) for k in sorted(set(ks))},
                                              'tool_raised': nraise, 'disagreements': nbad}
    ctx.coverage['evaluations'] += n
    ctx.log('modelled statistics cases done', ctx.coverage['statistics_model_cases'])
