"""C07 — refactorings and pharmpy's own evaluators preserve the model function.
Model: coq/theories/C07 (Model.v, Check.v); theorems in Properties.v / Refuted.v.
Tie (correspondence): generated statement programs wrapped into a real pharmpy Model; the real
make_declarative / cleanup_model / rename_symbols / remove_unused_parameters_and_rvs are run, the statements
before/after are exported and compared with the Gallina model inside Coq by exact evaluation, and the
property itself (same values before/after) is evaluated on the implementation's own output.
Oracle-only part (validation): the other refactorings of the property on corpus models (see corpus_*)."""
import json
import random
from fractions import Fraction as F

import sympy
from sympy.core.function import AppliedUndef

from harness.lib import coqterm as ct
from harness.lib import sym2coq as sc
from harness.lib.core import VERIF, source_sha

LEVEL = 'proof'
IMPORTS = 'Base.PyData Base.Expr Base.Interp Base.Stmts C07.Model C07.Check'

THETAS = ['TH1', 'TH2', 'TH3', 'TH4']
OMEGAS = ['OM1', 'OM2', 'OM3', 'OM12', 'OM13', 'OM23']
SIGMAS = ['SI1']
ETAS = ['ETA1', 'ETA2', 'ETA3']
EPSS = ['EPS1']
COLS = ['ID', 'TIME', 'AMT', 'WGT', 'APGR', 'DV']
LEAVES = THETAS + ETAS + EPSS + ['WGT', 'APGR']
VARS = ['A', 'B', 'C', 'D', 'CL', 'V', 'S1', 'F', 'IPRED', 'W', 'Y']
NEWNAMES = ['N1', 'N2', 'N3', 'N4']
AMOUNTS = ['A_CENTRAL(t)', 'A_DEPOT(t)']
VALUES = [F(1), F(2), F(4), F(1, 2), F(-1), F(-2), F(3), F(8), F(0), F(5)]
INITS = [0.5, 2.0, 0.25, 3.0, 1.0]

TAGS = {
    1: 'make_declarative differs from model', 2: 'cleanup_model differs from model',
    3: 'rename_symbols statements differ from model', 4: 'rename_symbols parameter/rv names differ from model',
    5: 'remove_unused_parameters_and_rvs parameters differ from model',
    6: 'remove_unused_parameters_and_rvs random variables differ from model',
    7: 'get_observation_expression differs from model',
    8: 'get_individual_prediction_expression differs from model',
    9: 'get_population_prediction_expression differs from model',
    21: 'get_observation_expression does not evaluate like the model statements',
    22: 'get_individual_prediction_expression does not evaluate like the statements at eps = 0',
    23: 'get_population_prediction_expression does not evaluate like the statements at eps = eta = 0',
    11: 'make_declarative changes the value of a symbol',
    12: 'cleanup_model changes the value of a symbol it still defines',
    13: 'cleanup_model drops the definition of a dependent variable',
    14: 'make_declarative raises on a valid model',
    15: 'cleanup_model raises on a valid model',
    16: 'rename_symbols (injective, fresh) changes a value modulo the renaming',
    17: 'rename_symbols raises on an injective renaming',
    18: 'make_declarative result still assigns a symbol twice',
    19: 'remove_unused_parameters_and_rvs removes a parameter or rv that a statement mentions',
    20: 'remove_unused_parameters_and_rvs raises',
}
CORR = (1, 2, 3, 4, 5, 6, 7, 8, 9)
# oracle tag -> (correspondence tag that must be absent for the model to explain it,
#                [(guard tag that must be present = guard conjunct false, finding id), ...])
STALE = (201, 'C07-DECL-STALE-CAPTURE')
CHAIN = (202, 'C07-CLEANUP-ALIAS-CHAIN')
DROPDV = (205, 'C07-CLEANUP-DROPS-DV')
FIRSTY = (207, 'C07-OBS-EXPR-FIRST-ASSIGNMENT')
ORACLE = {
    11: (1, [STALE]), 12: (2, [STALE, CHAIN]), 13: (2, [DROPDV]), 14: (1, [STALE]), 15: (2, [STALE, CHAIN]),
    16: (3, []), 17: (3, []), 18: (1, []), 19: (5, []), 20: (5, []),
    21: (7, [FIRSTY]), 22: (8, [FIRSTY]), 23: (9, [FIRSTY]),
}


# ------------------------------------------------------------------ generator
def rexpr(rng, syms, depth, family='pw', incond=False):
    """Two disjoint families (CONVENTIONS.md, "sympy folds fully numeric relationals with REAL arithmetic"):
    'tr' = transcendental functions allowed, no Piecewise; 'pw' = Piecewise with conditions, rational
    arithmetic only.  The family is fixed per PROGRAM because the refactorings substitute across statements."""
    if depth == 0 or rng.random() < 0.3:
        if rng.random() < 0.2:
            return str(rng.choice([1, 2, 3]))
        return rng.choice(syms)
    kinds = ['add', 'add', 'mul', 'mul', 'div', 'pow', 'neg', 'sub']
    if family == 'tr':
        kinds += ['exp', 'log', 'sqrt']
    elif not incond:
        kinds += ['pw', 'pw']
    k = rng.choice(kinds)
    a, b = rexpr(rng, syms, depth - 1, family, incond), rexpr(rng, syms, depth - 1, family, incond)
    if k == 'add':
        return f'({a} + {b})'
    if k == 'sub':
        return f'({a} - {b})'
    if k == 'mul':
        return f'({a})*({b})'
    if k == 'div':
        return f'({a})/({b})'
    if k == 'pow':
        return f'({a})**{rng.choice([2, 3, -1])}'
    if k == 'exp':
        return f'exp({a})'
    if k == 'log':
        return f'log({a})'
    if k == 'neg':
        return f'-({a})'
    if k == 'sqrt':
        return f'sqrt({a})'
    c, d = rexpr(rng, syms, depth - 1, family, True), rexpr(rng, syms, depth - 1, family, True)
    op = rng.choice(['<', '<=', '>', '>=', 'Eq', 'Ne'])
    cond = f'{op}({c}, {d})' if op in ('Eq', 'Ne') else f'({c}) {op} ({d})'
    return f'Piecewise(({a}, {cond}), ({b}, True))'


def gen_spec(rng):
    """A valid model: every symbol read is a parameter / rv / column or assigned earlier."""
    n = rng.choice([2, 3, 4, 5, 6, 7, 8, 10, 12, 14])
    style = rng.choice(['ssa', 'redefine', 'redefine', 'alias', 'alias', 'mixed', 'mixed'])
    fam = rng.choice(['tr', 'pw'])
    stmts, defined = [], []
    ode_at = rng.randrange(1, n) if rng.random() < 0.3 and n >= 4 else None
    pool = VARS[:-1]
    for i in range(n):
        if i == ode_at:
            syms = LEAVES + defined
            ode = {'ke': rexpr(rng, syms, 1, fam), 'ka': rexpr(rng, syms, 1, fam) if rng.random() < 0.5 else None,
                   'lag': rexpr(rng, syms, 1, fam) if rng.random() < 0.3 else None,
                   'bio': rexpr(rng, syms, 1, fam) if rng.random() < 0.3 else None}
            stmts.append(['ODE', ode])
            defined.append('A_CENTRAL(t)')
            if ode['ka'] is not None:
                defined.append('A_DEPOT(t)')
            continue
        syms = LEAVES + defined
        if style == 'ssa':
            cand = [v for v in pool if v not in defined]
            if not cand:
                break
            lhs = rng.choice(cand)
        elif style == 'redefine':
            lhs = rng.choice(pool[:5])
        else:
            lhs = rng.choice(pool)
        if rng.random() < 0.03:
            lhs = rng.choice(['WGT', 'TH1'])       # shadowing a column / parameter
        alias_p = {'alias': 0.5, 'mixed': 0.25}.get(style, 0.08)
        if rng.random() < alias_p:
            cands = [d for d in defined if d != lhs] or LEAVES
            rhs = rng.choice(cands if rng.random() < 0.7 else LEAVES + cands)
        else:
            rhs = rexpr(rng, syms, rng.choice([1, 1, 2, 2, 3]), fam)
        stmts.append([lhs, rhs])
        if lhs not in defined:
            defined.append(lhs)
    # the observation
    last = [d for d in defined if '(' not in d] or ['TH1']
    ychoice = rng.random()
    if ychoice < 0.1:
        stmts.append(['Y', rng.choice(last)])                      # Y is a pure alias
    else:
        f = rng.choice(last)
        stmts.append(['Y', f'{f} + {f}*EPS1' if rng.random() < 0.6 else rexpr(rng, LEAVES + defined, 2, fam)])
    if rng.random() < 0.12:      # IF (...) Y = ...
        # the condition reads only symbols that are never assigned, rational arithmetic only
        cl = ['APGR', 'ETA1', 'ETA2', 'TH2', 'TH3']
        c, d = rexpr(rng, cl, 1, 'pw', True), rexpr(rng, cl, 1, 'pw', True)
        stmts.append(['Y', f'Piecewise(({rexpr(rng, LEAVES + defined, 2, fam, True)}, ({c}) > ({d})), (Y, True))'])
    fix = {}
    for th in THETAS:
        if rng.random() < 0.2:
            fix[th] = rng.choice(INITS)
    rv = rng.choice(['sep', 'sep', 'joint3', 'joint2'])
    if rng.random() < 0.25:
        if rv == 'sep':
            fix[rng.choice(['OM1', 'OM2', 'OM3'])] = 0.0
        elif rng.random() < 0.5:
            fix['OM3' if rv == 'joint2' else 'SI1'] = 0.0
    if rng.random() < 0.1:
        fix['SI1'] = 0.0
    renames = []
    for _ in range(2):
        cand = THETAS + ETAS + EPSS + [d for d in defined if '(' not in d and d not in COLS] + ['Y']
        keys = rng.sample(cand, min(len(cand), rng.choice([1, 2, 3])))
        if rng.random() < 0.15:
            vals = [rng.choice(cand + NEWNAMES) for _ in keys]       # possible clash
        else:
            vals = rng.sample(NEWNAMES, len(keys))
        renames.append([[k, v] for k, v in zip(keys, vals)])
    return {'stmts': stmts, 'fix': fix, 'rvs': rv, 'renames': renames, 'family': fam}


class InvalidSpec(Exception):
    pass


# ------------------------------------------------------------------ implementation side
def build_model(spec):
    from pharmpy.basic import Expr
    from pharmpy.model import (Assignment, Bolus, Compartment, CompartmentalSystem, CompartmentalSystemBuilder,
                               DataInfo, JointNormalDistribution, Model, NormalDistribution, Parameter, Parameters,
                               RandomVariables, Statements, output)
    S = Expr.symbol
    fix = spec.get('fix', {})
    rv = spec.get('rvs', 'sep')
    omegas = {'sep': ['OM1', 'OM2', 'OM3'], 'joint3': OMEGAS, 'joint2': ['OM1', 'OM2', 'OM3', 'OM12']}[rv]
    plist = []
    for n in THETAS + omegas + SIGMAS:
        if n in fix:
            plist.append(Parameter.create(n, fix[n], fix=True))
        else:
            plist.append(Parameter.create(n, 0.0625 if len(n) == 4 else 0.5))
    params = Parameters.create(plist)
    if rv == 'sep':
        dists = [NormalDistribution.create(f'ETA{i}', 'iiv', 0, S(f'OM{i}')) for i in (1, 2, 3)]
    elif rv == 'joint3':
        dists = [JointNormalDistribution.create(
            ETAS, 'iiv', [0, 0, 0],
            [[S('OM1'), S('OM12'), S('OM13')], [S('OM12'), S('OM2'), S('OM23')], [S('OM13'), S('OM23'), S('OM3')]])]
    else:
        dists = [JointNormalDistribution.create(['ETA1', 'ETA2'], 'iiv', [0, 0],
                                                [[S('OM1'), S('OM12')], [S('OM12'), S('OM2')]]),
                 NormalDistribution.create('ETA3', 'iiv', 0, S('OM3'))]
    dists.append(NormalDistribution.create('EPS1', 'ruv', 0, S('SI1')))
    rvs = RandomVariables.create(dists)
    di = DataInfo.create(COLS)
    out = []
    for lhs, rhs in spec['stmts']:
        if lhs == 'ODE':
            cb = CompartmentalSystemBuilder()
            kw = {}
            if rhs.get('lag') is not None:
                kw['lag_time'] = Expr(sympy.sympify(rhs['lag']))
            if rhs.get('bio') is not None:
                kw['bioavailability'] = Expr(sympy.sympify(rhs['bio']))
            if rhs.get('ka') is not None:
                c = Compartment.create('CENTRAL')
                d = Compartment.create('DEPOT', doses=(Bolus.create('AMT'),), **kw)
                cb.add_compartment(c)
                cb.add_compartment(d)
                cb.add_flow(d, c, Expr(sympy.sympify(rhs['ka'])))
            else:
                c = Compartment.create('CENTRAL', doses=(Bolus.create('AMT'),), **kw)
                cb.add_compartment(c)
            cb.add_flow(c, output, Expr(sympy.sympify(rhs['ke'])))
            out.append(CompartmentalSystem(cb))
        else:
            out.append(Assignment.create(lhs, Expr(sympy.sympify(rhs))))
    return Model.create(name='gen', parameters=params, random_variables=rvs, datainfo=di,
                        statements=Statements(out), dependent_variables={S('Y'): 1})


def opaque(e):
    """sympy tree with applied undefined functions (A_CENTRAL(t)) turned into opaque symbols"""
    e = sc.to_sympy(e)
    return e.replace(lambda x: isinstance(x, AppliedUndef), lambda x: sympy.Symbol(str(x)))


def cexpr(e, names):
    return sc.expr(opaque(e), names)


def ode_args(cs):
    """The expressions a compartmental system is built from, in a canonical order."""
    from pharmpy.model import Infusion, output
    comps = sorted(cs.compartment_names)
    args = []
    for name in comps:
        c = cs.find_compartment(name)
        for d in c.doses:
            args.append(d.amount)
            if isinstance(d, Infusion):
                args.append(d.rate if d.rate is not None else d.duration)
        args += [c.lag_time, c.bioavailability, c.input]
    for u in comps:
        cu = cs.find_compartment(u)
        for v in comps:
            if v != u:
                args.append(cs.get_flow(cu, cs.find_compartment(v)))
        args.append(cs.get_flow(cu, output))
    return args


def stm_term(st, names):
    from pharmpy.model import Assignment
    if isinstance(st, Assignment):
        return f"(SAssign {names.p(str(opaque(st.symbol)))} {cexpr(st.expression, names)})"
    amts = [names.p(str(sc.to_sympy(a))) for a in st.amounts]
    return f"(SOde {ct.lst(amts)} {ct.lst([cexpr(a, names) for a in ode_args(st)])})"


def stms_term(stmts, names):
    return ct.lst([stm_term(s, names) for s in stmts])


def obs_of(thunk, conv, info, what):
    try:
        r = thunk()
    except ValueError as e:
        info['errors'].append(f'{what}:ValueError')
        return 'OValueError'
    except sc.Unconvertible:
        raise
    except Exception as e:      # internal error class
        info['errors'].append(f'{what}:{type(e).__name__}')
        return 'OOther'
    return f'(OOk {conv(r)})'


def rdist_term(d, names):
    from pharmpy.model import JointNormalDistribution
    if isinstance(d, JointNormalDistribution):
        n = len(d.names)
        rows = []
        for i in range(n):
            rows.append(ct.lst([sc.symset(d.variance[i, j].free_symbols, names) for j in range(n)]))
        return f"(DJoint {ct.lst([names.p(x) for x in d.names])} {ct.lst(rows)})"
    return f"(DNormal {names.p(d.names[0])} {sc.symset(d.variance.free_symbols, names)})"


def gen_points(rng, names_list, pins):
    pts = []
    for _ in range(8):
        p = {n: rng.choice(VALUES) for n in names_list}
        p.update(pins)
        pts.append(p)
    return pts


def observe(spec, points_rng, mods=None):
    """Run the implementation on a spec; returns (coq case term, info).  mods: optional dict of replacement
    callables (used only by the sensitivity self-test)."""
    from pharmpy.modeling import (cleanup_model, get_individual_prediction_expression,
                                  get_observation_expression, get_population_prediction_expression,
                                  make_declarative, remove_unused_parameters_and_rvs, rename_symbols)
    fn = {'make_declarative': make_declarative, 'cleanup_model': cleanup_model, 'rename_symbols': rename_symbols,
          'remove_unused_parameters_and_rvs': remove_unused_parameters_and_rvs,
          'get_observation_expression': get_observation_expression,
          'get_individual_prediction_expression': get_individual_prediction_expression,
          'get_population_prediction_expression': get_population_prediction_expression}
    fn.update(mods or {})
    names = ct.Names()
    for n in THETAS + OMEGAS + SIGMAS + ETAS + EPSS + COLS + ['t'] + AMOUNTS + VARS + NEWNAMES:
        names.get(n)
    try:
        model = build_model(spec)
    except ValueError as e:      # Model.create refuses the program (not a valid model)
        raise InvalidSpec(str(e))
    info = {'n': len(model.statements), 'errors': []}
    known = model.parameters.names + model.random_variables.names + COLS + ['t'] + AMOUNTS
    fixed = [(p.name, F(str(p.init))) for p in model.parameters if p.fix]
    dists = [f"(mkDist {ct.lst([names.p(x) for x in d.names])} {ct.lst([names.p(x) for x in d.parameter_names])})"
             for d in model.random_variables]
    prog = stms_term(model.statements, names)
    decl = obs_of(lambda: fn['make_declarative'](model).statements, lambda r: stms_term(r, names), info, 'decl')
    clean = obs_of(lambda: fn['cleanup_model'](model).statements, lambda r: stms_term(r, names), info, 'clean')
    rens = []
    for ren in spec.get('renames', []):
        d = {k: v for k, v in ren}
        ren = list(d.items())        # a dict: the last value of a repeated key wins

        def conv(m2):
            return (stms_term(m2.statements, names), ct.lst([names.p(x) for x in m2.parameters.names]),
                    ct.lst([names.p(x) for x in m2.random_variables.names]))
        try:
            m2 = fn['rename_symbols'](model, d)
            st, ps, rv = conv(m2)
            o = f'(OOk {st})'
        except ValueError:
            info['errors'].append('rename:ValueError')
            o, ps, rv = 'OValueError', '[]', '[]'
        except sc.Unconvertible:
            raise
        except Exception as e:
            info['errors'].append(f'rename:{type(e).__name__}')
            o, ps, rv = 'OOther', '[]', '[]'
        rens.append(ct.tup(ct.lst([ct.pair(names.p(k), names.p(v)) for k, v in ren]), o, ps, rv))
    unused = obs_of(lambda: fn['remove_unused_parameters_and_rvs'](model),
                    lambda m2: ct.pair(ct.lst([names.p(x) for x in m2.parameters.names]),
                                       ct.lst([names.p(x) for x in m2.random_variables.names])), info, 'unused')
    extr = [obs_of(lambda k=k: fn[k](model), lambda r: cexpr(r, names), info, k.split('_')[1])
            for k in ('get_observation_expression', 'get_individual_prediction_expression',
                      'get_population_prediction_expression')]
    pins = {n: q for n, q in fixed}
    zero = set()
    for d in model.random_variables:
        if all(model.parameters[p].fix and model.parameters[p].init == 0 for p in d.parameter_names):
            zero.update(d.names)
    pins.update({n: F(0) for n in zero})
    info['nonrandom'] = len(zero)
    info['fixed'] = len(fixed)
    allnames = [names.name(i) for i in range(1, names.next)]
    pts = gen_points(points_rng, allnames, pins)
    term = ("(mkCase " + ct.lst([names.p(k) for k in known]) + " " + ct.lst([names.p('Y')]) + "\n  "
            + ct.lst([ct.pair(names.p(n), ct.q(q)) for n, q in fixed]) + " " + ct.lst(dists) + "\n  " + prog
            + "\n  " + decl + "\n  " + clean + "\n  " + ct.lst(rens) + "\n  "
            + ct.lst([names.p(x) for x in model.parameters.names]) + " "
            + ct.lst([names.p(x) for x in model.random_variables.names]) + " "
            + ct.lst([rdist_term(d, names) for d in model.random_variables]) + "\n  " + unused + "\n  "
            + ct.lst([names.p(x) for x in model.random_variables.epsilons.names]) + " "
            + ct.lst([names.p(x) for x in model.random_variables.etas.names]) + "\n  " + "\n  ".join(extr) + "\n  "
            + ct.lst([sc.env(p, names) for p in pts]) + ")")
    info['nqueries'] = 6 + len(rens)
    info['shrunk'] = (len(model.parameters), len(model.random_variables.names))
    return term, info


# ------------------------------------------------------------------ classification
def classify(ctx, spec, tags, info):
    tags = set(tags)
    corr = sorted(t for t in tags if t in CORR)
    oracle = sorted(t for t in tags if t in ORACLE)
    status = 'ok'
    for t in oracle:
        need_absent, causes = ORACLE[t]
        explained = need_absent not in tags
        hit = [fid for (g, fid) in causes if g in tags and ctx.open_finding(fid)]
        if explained and hit:
            kh = ctx.coverage.setdefault('known_hits', {})
            kh[hit[0]] = kh.get(hit[0], 0) + 1
            if status == 'ok':
                status = 'known'
        elif explained and 208 in tags and t in (11, 12, 14, 15):
            # a statement assigns a parameter / rv / column: outside the property's domain (the theorems'
            # guards g_no_stale_capture / g_inline_ok are false there, tags 201 / 204)
            if not ({201, 204} & tags):
                ctx.violation(TAGS[t] + ' (shadowing program, guards true)', {'spec': spec, 'tags': sorted(tags)})
                status = 'violation'
            else:
                ctx.coverage['out_of_domain_shadowing'] = ctx.coverage.get('out_of_domain_shadowing', 0) + 1
        else:
            ctx.violation(TAGS[t], {'spec': spec, 'tags': sorted(tags), 'tag_meaning': TAGS[t]})
            status = 'violation'
    if corr and status != 'violation':
        ctx.broken.append('correspondence C07 model vs implementation: ' + ', '.join(TAGS[t] for t in corr)
                          + ' on ' + json.dumps(spec)[:600])
        ctx.coverage.setdefault('corr_disagreements', []).append({'spec': spec, 'tags': sorted(tags)})
        status = 'broken'
    return status


def run_specs(ctx, specs, label, quiet=False, mods=None):
    terms, kept, infos = [], [], []
    skipped = {}
    prng = random.Random(f'{ctx.seed}-{label}-pts')
    for spec in specs:
        try:
            term, info = observe(spec, prng, mods)
        except (sc.Unconvertible, InvalidSpec, ZeroDivisionError, sympy.SympifyError, TypeError) as e:
            skipped[type(e).__name__] = skipped.get(type(e).__name__, 0) + 1
            continue
        terms.append(term)
        kept.append(spec)
        infos.append(info)
    verdicts = ctx.run_cases(label, IMPORTS, 'case', terms, 'verdict', shard=40)
    if quiet:
        return kept, verdicts, infos, None
    sk = ctx.coverage.setdefault('skipped_invalid_or_unconvertible', {})
    for k, v in skipped.items():
        sk[k] = sk.get(k, 0) + v
    stats = {'ok': 0, 'known': 0, 'violation': 0, 'broken': 0}
    for spec, tags, info in zip(kept, verdicts, infos):
        stats[classify(ctx, spec, tags, info)] += 1
    inconcl = sum(1 for v in verdicts for t in v if 1000 <= t < 2000)
    ctx.coverage['inconclusive_subchecks'] = ctx.coverage.get('inconclusive_subchecks', 0) + inconcl
    return kept, verdicts, infos, stats


def finding_probes(ctx):
    """Replay the stored witness of every open finding on the real code."""
    for f in ctx.findings:
        if f.get('status') != 'open':
            continue
        kept, verdicts, _, _ = run_specs(ctx, [f['witness']], 'finding-' + f['id'], quiet=True)
        tags = set(verdicts[0]) if verdicts else set()
        need_absent, causes = ORACLE.get(f['expect_tag'], (None, []))
        gtags = [g for (g, fid) in causes if fid == f['id']]
        if f['expect_tag'] in tags and need_absent not in tags and all(g in tags for g in gtags):
            ctx.known(f['id'])
        else:
            ctx.notes.append(f"finding_not_reproduced {f['id']} (tags {sorted(tags)})")


def run(ctx):
    ctx.build_gate(['C07'])
    ctx.trusted += [
        'harness/lib/sym2coq.py + coqterm.py (conversion of real sympy trees to Gallina terms); applied functions '
        'A_x(t) exported as opaque symbols',
        'harness/props/c07.py generator, model builder, export of compartmental systems as the ordered list of their '
        'expressions, classification',
        'Base/Interp.v exact interpretation of exp/log/sqrt/pow used only for comparing expressions by evaluation',
    ]
    ctx.assumptions += [
        'symengine/sympy substitution, piecewise_fold and canonicalisation are engines: statements are exported '
        'after the refactoring and compared by exact evaluation over Q at 8 points',
        'the ODE solver is an oracle: every amount is an arbitrary function of the values of the expressions the '
        'compartmental system is built from (rates, doses, lag times, bioavailabilities)',
    ]
    ctx.coverage['source_sha'] = source_sha('src/pharmpy/modeling/expressions.py', 'src/pharmpy/modeling/common.py',
                                            'src/pharmpy/modeling/parameters.py',
                                            'src/pharmpy/modeling/random_variables.py')
    finding_probes(ctx)
    reg = sorted((VERIF / 'regress' / 'C07').glob('*.json'))
    specs = [json.loads(p.read_text()) for p in reg]
    n = 400 if ctx.tier == 'quick' else 5000
    specs += [gen_spec(ctx.rng) for _ in range(n)]
    kept, verdicts, infos, stats = run_specs(ctx, specs, 'gen')
    ctx.coverage['evaluations'] = sum(i['nqueries'] for i in infos)
    distinct = {json.dumps(s['stmts']) for s, i in zip(kept, infos) if i['n'] >= 3}
    ctx.coverage['distinct_nontrivial'] = len(distinct)
    ctx.coverage['programs'] = len(kept)
    ctx.coverage['rule'] = ('random valid statement programs (3-15 statements; styles ssa/redefine/alias/mixed; '
                            'optional compartmental system with depot/lag/bioavailability; fixed thetas, zero-fixed '
                            'omegas, separate or joint etas) from VERIF_SEED, wrapped into a pharmpy Model; '
                            'non-trivial = at least three statements; distinct by statement text')
    ctx.coverage['case_status'] = stats
    ctx.coverage['input_distribution'] = {
        'length_hist': {str(k): sum(1 for i in infos if i['n'] == k) for k in sorted({i['n'] for i in infos})},
        'with_ode': sum(1 for s in kept if any(l == 'ODE' for l, _ in s['stmts'])),
        'with_fixed_theta': sum(1 for i in infos if i['fixed']),
        'with_nonrandom_rv': sum(1 for i in infos if i['nonrandom']),
        'rv_layout': {k: sum(1 for s in kept if s.get('rvs') == k) for k in ('sep', 'joint2', 'joint3')},
        'impl_errors': {k: sum(1 for i in infos for e in i['errors'] if e == k)
                        for k in sorted({e for i in infos for e in i['errors']})},
        'guard_no_stale_capture_false': sum(1 for v in verdicts if 201 in v),
        'guard_no_alias_chain_false': sum(1 for v in verdicts if 202 in v),
        'guard_rename_not_injective': sum(1 for v in verdicts for t in v if t == 203),
        'guard_inline_false': sum(1 for v in verdicts if 204 in v),
        'dv_is_alias': sum(1 for v in verdicts if 205 in v),
        'dv_assigned_twice': sum(1 for v in verdicts if 207 in v),
        'shadowing_programs': sum(1 for v in verdicts if 208 in v),
        'family': {k: sum(1 for s in kept if s.get('family') == k) for k in ('tr', 'pw')},
        'reassigning_programs': sum(1 for s in kept if len({l for l, _ in s['stmts']}) < len(s['stmts'])),
    }
    ctx.coverage['samples'] = [{'spec': s, 'tags': v} for s, v in list(zip(kept, verdicts))[:4]]


def replay(ctx, rep):
    spec = rep['spec']
    kept, verdicts, _, _ = run_specs(ctx, [spec], 'replay', quiet=True)
    tags = verdicts[0]
    print('spec', json.dumps(spec))
    print('tags', tags, [TAGS.get(t, t) for t in tags])
    return 1 if any(t in ORACLE or t in CORR for t in tags) else 0
