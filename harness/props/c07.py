"""C07 — refactorings and pharmpy's own evaluators preserve the model function.
Model: coq/theories/C07 (Model.v, Check.v); theorems in Properties.v / Refuted.v.
Tie (correspondence): generated statement programs wrapped into a real pharmpy Model; the real
make_declarative / cleanup_model / rename_symbols / remove_unused_parameters_and_rvs are run, the statements
before/after are exported and compared with the Gallina model inside Coq by exact evaluation, and the
property itself (same values before/after) is evaluated on the implementation's own output.
Oracle-only part (validation): the other refactorings of the property on corpus models (see corpus_*)."""
import json
import random
import re
from fractions import Fraction as F

import sympy
from sympy.core.function import AppliedUndef

from harness.lib import coqterm as ct
from harness.lib import sym2coq as sc
from harness.lib.core import VERIF, source_sha

LEVEL = 'proof'
IMPORTS = 'Base.PyData Base.Expr Base.Interp Base.Stmts C07.Model C07.Check'

THETAS = ['TH1', 'TH2', 'TH3', 'TH4']
OMEGAS = ['OM1', 'OM2', 'OM3', 'OM12', 'OM13', 'OM23']
SIGMAS = ['SI1']
ETAS = ['ETA1', 'ETA2', 'ETA3']
EPSS = ['EPS1']
COLS = ['ID', 'TIME', 'AMT', 'WGT', 'APGR', 'DV']
LEAVES = THETAS + ETAS + EPSS + ['WGT', 'APGR']
VARS = ['A', 'B', 'C', 'D', 'CL', 'V', 'S1', 'F', 'IPRED', 'W', 'Y']
NEWNAMES = ['N1', 'N2', 'N3', 'N4']
AMOUNTS = ['A_CENTRAL(t)', 'A_DEPOT(t)']
VALUES = [F(1), F(2), F(4), F(1, 2), F(-1), F(-2), F(3), F(8), F(0), F(5)]
INITS = [0.5, 2.0, 0.25, 3.0, 1.0]

TAGS = {
    1: 'make_declarative differs from model', 2: 'cleanup_model differs from model',
    3: 'rename_symbols statements differ from model', 4: 'rename_symbols parameter/rv names differ from model',
    5: 'remove_unused_parameters_and_rvs parameters differ from model',
    6: 'remove_unused_parameters_and_rvs random variables differ from model',
    7: 'get_observation_expression differs from model',
    8: 'get_individual_prediction_expression differs from model',
    9: 'get_population_prediction_expression differs from model',
    10: 'cleanup_model parameters differ from model',
    24: 'cleanup_model leaves a distribution whose variance parameter is no longer a parameter',
    21: 'get_observation_expression does not evaluate like the model statements',
    22: 'get_individual_prediction_expression does not evaluate like the statements at eps = 0',
    23: 'get_population_prediction_expression does not evaluate like the statements at eps = eta = 0',
    11: 'make_declarative changes the value of a symbol',
    12: 'cleanup_model changes the value of a symbol it still defines',
    13: 'cleanup_model drops the definition of a dependent variable',
    14: 'make_declarative raises on a valid model',
    15: 'cleanup_model raises on a valid model',
    16: 'rename_symbols (injective, fresh) changes a value modulo the renaming',
    17: 'rename_symbols raises on an injective renaming',
    18: 'make_declarative result still assigns a symbol twice',
    19: 'remove_unused_parameters_and_rvs removes a parameter or rv that a statement mentions',
    20: 'remove_unused_parameters_and_rvs raises',
}
CORR = (1, 2, 3, 4, 5, 6, 7, 8, 9, 10)
# oracle tag -> (correspondence tag that must be absent for the model to explain it,
#                [(guard tag that must be present = guard conjunct false, finding id), ...])
# (C07-DECL-STALE-CAPTURE, C07-CLEANUP-ALIAS-CHAIN, C07-OBS-EXPR-FIRST-ASSIGNMENT, C07-FIXED-THETAS-REMOVES-OMEGAS and
#  C07-CLEANUP-DROPS-DV are fixed in /repo: nothing excuses an oracle tag of the generated stream any more, a
#  recurrence is a VIOLATION)
ORACLE = {
    11: (1, []), 12: (2, []), 13: (2, []), 14: (1, []), 15: (2, []),
    16: (3, []), 17: (3, []), 18: (1, []), 19: (5, []), 20: (5, []),
    21: (7, []), 22: (8, []), 23: (9, []), 24: (2, []),
}


# ------------------------------------------------------------------ generator
def rexpr(rng, syms, depth, family='pw', incond=False):
    """Two disjoint families (CONVENTIONS.md, "sympy folds fully numeric relationals with REAL arithmetic"):
    'tr' = transcendental functions allowed, no Piecewise; 'pw' = Piecewise with conditions, rational
    arithmetic only.  The family is fixed per PROGRAM because the refactorings substitute across statements."""
    if depth == 0 or rng.random() < 0.3:
        if rng.random() < 0.2:
            return str(rng.choice([1, 2, 3]))
        return rng.choice(syms)
    kinds = ['add', 'add', 'mul', 'mul', 'div', 'pow', 'neg', 'sub']
    if family == 'tr':
        kinds += ['exp', 'log', 'sqrt']
    elif not incond:
        kinds += ['pw', 'pw']
    k = rng.choice(kinds)
    a, b = rexpr(rng, syms, depth - 1, family, incond), rexpr(rng, syms, depth - 1, family, incond)
    if k == 'add':
        return f'({a} + {b})'
    if k == 'sub':
        return f'({a} - {b})'
    if k == 'mul':
        return f'({a})*({b})'
    if k == 'div':
        return f'({a})/({b})'
    if k == 'pow':
        return f'({a})**{rng.choice([2, 3, -1])}'
    if k == 'exp':
        return f'exp({a})'
    if k == 'log':
        return f'log({a})'
    if k == 'neg':
        return f'-({a})'
    if k == 'sqrt':
        return f'sqrt({a})'
    c, d = rexpr(rng, syms, depth - 1, family, True), rexpr(rng, syms, depth - 1, family, True)
    op = rng.choice(['<', '<=', '>', '>=', 'Eq', 'Ne'])
    cond = f'{op}({c}, {d})' if op in ('Eq', 'Ne') else f'({c}) {op} ({d})'
    return f'Piecewise(({a}, {cond}), ({b}, True))'


def gen_spec(rng):
    """A valid model: every symbol read is a parameter / rv / column or assigned earlier."""
    n = rng.choice([2, 3, 4, 5, 6, 7, 8, 10, 12, 14])
    style = rng.choice(['ssa', 'redefine', 'redefine', 'alias', 'alias', 'mixed', 'mixed'])
    fam = rng.choice(['tr', 'pw'])
    fix = {}
    for th in THETAS:
        if rng.random() < 0.2:
            fix[th] = rng.choice(INITS)
    rv = rng.choice(['sep', 'sep', 'joint3', 'joint2', 'iov', 'iovfirst'])
    if rng.random() < 0.25:
        if rv == 'sep':
            fix[rng.choice(['OM1', 'OM2', 'OM3'])] = 0.0
        elif rng.random() < 0.5:
            fix['OM3' if rv == 'joint2' else 'SI1'] = 0.0
    if rng.random() < 0.1:
        fix['SI1'] = 0.0
    if rng.random() < 0.1:                      # an omega fixed to a non-zero value stays random
        fix.setdefault(rng.choice(['OM1', 'OM2', 'OM3']), 0.5)
    leaves = list(LEAVES)
    if rng.random() < 0.15:                     # statements that mention variance parameters (W = sqrt(SIGMA))
        leaves += ['SI1'] + {'sep': ['OM1', 'OM3'], 'joint2': ['OM12', 'OM3'], 'joint3': ['OM12', 'OM23'],
                             'iov': ['OM1', 'OM2'], 'iovfirst': ['OM1', 'OM2']}[rv]
    stmts, defined = [], []
    ode_at = rng.randrange(1, n) if rng.random() < 0.3 and n >= 4 else None
    pool = VARS[:-1]
    for i in range(n):
        if i == ode_at:
            syms = leaves + defined
            ode = {'ke': rexpr(rng, syms, 1, fam), 'ka': rexpr(rng, syms, 1, fam) if rng.random() < 0.5 else None,
                   'lag': rexpr(rng, syms, 1, fam) if rng.random() < 0.3 else None,
                   'bio': rexpr(rng, syms, 1, fam) if rng.random() < 0.3 else None}
            stmts.append(['ODE', ode])
            defined.append('A_CENTRAL(t)')
            if ode['ka'] is not None:
                defined.append('A_DEPOT(t)')
            continue
        syms = leaves + defined
        if style == 'ssa':
            cand = [v for v in pool if v not in defined]
            if not cand:
                break
            lhs = rng.choice(cand)
        elif style == 'redefine':
            lhs = rng.choice(pool[:5])
        else:
            lhs = rng.choice(pool)
        if rng.random() < 0.03:
            lhs = rng.choice(['WGT', 'TH1'])       # shadowing a column / parameter
        alias_p = {'alias': 0.5, 'mixed': 0.25}.get(style, 0.08)
        if rng.random() < alias_p:
            cands = [d for d in defined if d != lhs] or leaves
            rhs = rng.choice(cands if rng.random() < 0.7 else leaves + cands)
        else:
            rhs = rexpr(rng, syms, rng.choice([1, 1, 2, 2, 3]), fam)
        stmts.append([lhs, rhs])
        if lhs not in defined:
            defined.append(lhs)
    # the observation
    last = [d for d in defined if '(' not in d] or ['TH1']
    ychoice = rng.random()
    if ychoice < 0.1:
        stmts.append(['Y', rng.choice(last)])                      # Y is a pure alias
    else:
        f = rng.choice(last)
        stmts.append(['Y', f'{f} + {f}*EPS1' if rng.random() < 0.6 else rexpr(rng, leaves + defined, 2, fam)])
    if rng.random() < 0.12:      # IF (...) Y = ...
        # the condition reads only symbols that are never assigned, rational arithmetic only
        cl = ['APGR', 'ETA1', 'ETA2', 'TH2', 'TH3']
        c, d = rexpr(rng, cl, 1, 'pw', True), rexpr(rng, cl, 1, 'pw', True)
        if rng.random() < 0.5:
            stmts.append(['Y', f'Piecewise(({rexpr(rng, LEAVES + defined, 2, fam, True)}, ({c}) > ({d})), (Y, True))'])
        else:                    # a second assignment that READS the first (Y = Y*a + b)
            stmts.append(['Y', f'(Y)*({rexpr(rng, cl, 1, "pw", True)}) + {rexpr(rng, LEAVES + defined, 1, fam, True)}'])
    renames = []
    for _ in range(2):
        cand = THETAS + ETAS + EPSS + ['OM1', 'SI1'] + [d for d in defined if '(' not in d and d not in COLS] + ['Y']
        cand = sorted(set(cand))
        keys = rng.sample(cand, min(len(cand), rng.choice([1, 2, 3])))
        if rng.random() < 0.15:
            vals = [rng.choice(cand + NEWNAMES) for _ in keys]       # possible clash
        else:
            vals = rng.sample(NEWNAMES, len(keys))
        renames.append([[k, v] for k, v in zip(keys, vals)])
    return {'stmts': stmts, 'fix': fix, 'rvs': rv, 'renames': renames, 'family': fam}


class InvalidSpec(Exception):
    pass


class EngineRefusal(Exception):
    pass


# ------------------------------------------------------------------ implementation side
def build_model(spec):
    from pharmpy.basic import Expr
    from pharmpy.model import (Assignment, Bolus, Compartment, CompartmentalSystem, CompartmentalSystemBuilder,
                               DataInfo, JointNormalDistribution, Model, NormalDistribution, Parameter, Parameters,
                               RandomVariables, Statements, output)
    S = Expr.symbol
    fix = spec.get('fix', {})
    rv = spec.get('rvs', 'sep')
    omegas = {'sep': ['OM1', 'OM2', 'OM3'], 'joint3': OMEGAS, 'joint2': ['OM1', 'OM2', 'OM3', 'OM12'],
              'iov': ['OM1', 'OM2', 'OM3'], 'iovfirst': ['OM1', 'OM2', 'OM3']}[rv]
    sigmas = SIGMAS + (['SI2'] if spec.get('eps2') else [])
    plist = []
    for n in THETAS + omegas + sigmas:
        if n in fix:
            plist.append(Parameter.create(n, fix[n], fix=True))
        else:
            plist.append(Parameter.create(n, 0.0625 if len(n) == 4 else 0.5))
    params = Parameters.create(plist)
    if rv == 'sep':
        dists = [NormalDistribution.create(f'ETA{i}', 'iiv', 0, S(f'OM{i}')) for i in (1, 2, 3)]
    elif rv == 'iov':          # one IIV eta, two occasions of one IOV eta ($OMEGA BLOCK(1) SAME)
        dists = [NormalDistribution.create('ETA1', 'iiv', 0, S('OM1')),
                 NormalDistribution.create('ETA2', 'iov', 0, S('OM2')),
                 NormalDistribution.create('ETA3', 'iov', 0, S('OM2'))]
    elif rv == 'iovfirst':     # etas declared in IOV-first order
        dists = [NormalDistribution.create('ETA1', 'iov', 0, S('OM1')),
                 NormalDistribution.create('ETA2', 'iiv', 0, S('OM2')),
                 NormalDistribution.create('ETA3', 'iov', 0, S('OM1'))]
    elif rv == 'joint3':
        dists = [JointNormalDistribution.create(
            ETAS, 'iiv', [0, 0, 0],
            [[S('OM1'), S('OM12'), S('OM13')], [S('OM12'), S('OM2'), S('OM23')], [S('OM13'), S('OM23'), S('OM3')]])]
    else:
        dists = [JointNormalDistribution.create(['ETA1', 'ETA2'], 'iiv', [0, 0],
                                                [[S('OM1'), S('OM12')], [S('OM12'), S('OM2')]]),
                 NormalDistribution.create('ETA3', 'iiv', 0, S('OM3'))]
    dists.append(NormalDistribution.create('EPS1', 'ruv', 0, S('SI1')))
    if spec.get('eps2'):
        dists.append(NormalDistribution.create('EPS2', 'ruv', 0, S('SI2')))
    rvs = RandomVariables.create(dists)
    di = DataInfo.create(COLS)
    out = []
    for lhs, rhs in spec['stmts']:
        if lhs == 'ODE':
            cb = CompartmentalSystemBuilder()
            kw = {}
            if rhs.get('lag') is not None:
                kw['lag_time'] = Expr(sympy.sympify(rhs['lag']))
            if rhs.get('bio') is not None:
                kw['bioavailability'] = Expr(sympy.sympify(rhs['bio']))
            if rhs.get('ka') is not None:
                c = Compartment.create('CENTRAL')
                d = Compartment.create('DEPOT', doses=(Bolus.create('AMT'),), **kw)
                cb.add_compartment(c)
                cb.add_compartment(d)
                cb.add_flow(d, c, Expr(sympy.sympify(rhs['ka'])))
            else:
                c = Compartment.create('CENTRAL', doses=(Bolus.create('AMT'),), **kw)
                cb.add_compartment(c)
            cb.add_flow(c, output, Expr(sympy.sympify(rhs['ke'])))
            out.append(CompartmentalSystem(cb))
        else:
            out.append(Assignment.create(lhs, Expr(sympy.sympify(rhs))))
    return Model.create(name='gen', parameters=params, random_variables=rvs, datainfo=di,
                        statements=Statements(out), dependent_variables={S('Y'): 1})


def opaque(e):
    """sympy tree prepared for harness/lib/sym2coq (which is fail-closed on these nodes):
    applied undefined functions (A_CENTRAL(t)) -> opaque symbols; E -> the symbol __EXP1 (pinned to 2 = the value
    Base/Interp.v gives exp(1)); zoo / nan -> symbols that never get a value (undefined); ITE -> And/Or/Not."""
    from sympy.logic.boolalg import ITE
    e = sc.to_sympy(e)
    e = e.replace(lambda x: isinstance(x, AppliedUndef), lambda x: sympy.Symbol(str(x)))
    if e.has(ITE):
        e = e.replace(lambda x: isinstance(x, ITE), lambda x: x.to_nnf(simplify=False))
    if e.has(sympy.E) or e.has(sympy.zoo) or e.has(sympy.nan):
        e = e.xreplace({sympy.E: sympy.Symbol('__EXP1'), sympy.zoo: sympy.Symbol('__UNDEF'),
                        sympy.nan: sympy.Symbol('__UNDEF')})
    return e


def cexpr(e, names):
    return sc.expr(opaque(e), names)


def ode_args(cs):
    """The expressions a compartmental system is built from, in a canonical order."""
    from pharmpy.model import Infusion, output
    comps = sorted(cs.compartment_names)
    args = []
    for name in comps:
        c = cs.find_compartment(name)
        for d in c.doses:
            args.append(d.amount)
            if isinstance(d, Infusion):
                args.append(d.rate if d.rate is not None else d.duration)
        args += [c.lag_time, c.bioavailability, c.input]
    for u in comps:
        cu = cs.find_compartment(u)
        for v in comps:
            if v != u:
                args.append(cs.get_flow(cu, cs.find_compartment(v)))
        args.append(cs.get_flow(cu, output))
    return args


def stm_term(st, names):
    from pharmpy.model import Assignment
    if isinstance(st, Assignment):
        e = opaque(st.expression)
        t = sc.expr(e, names)
        if isinstance(e, sympy.Symbol) and not st.expression.is_symbol():
            # symengine keeps e.g. exp(log(X)) where sympy (the exporter) returns the bare symbol X: the
            # implementation's `is_symbol()` is False, keep that visible to the model (X + 0)
            t = f"(Add {t} (Num (0#1)%Q))"
        return f"(SAssign {names.p(str(opaque(st.symbol)))} {t})"
    amts = [names.p(str(sc.to_sympy(a))) for a in st.amounts]
    return f"(SOde {ct.lst(amts)} {ct.lst([cexpr(a, names) for a in ode_args(st)])})"


def stms_term(stmts, names):
    return ct.lst([stm_term(s, names) for s in stmts])


def obs_of(thunk, conv, info, what):
    try:
        r = thunk()
    except ValueError as e:
        info['errors'].append(f'{what}:ValueError')
        return 'OValueError'
    except sc.Unconvertible:
        raise
    except TypeError as e:
        if 'Cannot convert input to Expr' not in str(e):
            info['errors'].append(f'{what}:TypeError')
            return 'OOther'
        # sympy's piecewise_fold produced an ITE condition that symengine cannot represent: engine limitation
        info['errors'].append(f'{what}:engine-TypeError')
        return 'OEngine'
    except RuntimeError as e:
        # symengine refuses to evaluate (division by zero / "Invalid comparison of complex zoo" when an eta
        # fixed to zero is substituted, also in a branch that is never taken): counted, inconclusive
        info['errors'].append(f'{what}:engine-RuntimeError')
        return 'OEngine'
    except Exception as e:      # internal error class
        info['errors'].append(f'{what}:{type(e).__name__}')
        return 'OOther'
    return f'(OOk {conv(r)})'


def rdist_term(d, names):
    from pharmpy.model import JointNormalDistribution
    if isinstance(d, JointNormalDistribution):
        n = len(d.names)
        rows = []
        for i in range(n):
            rows.append(ct.lst([sc.symset(d.variance[i, j].free_symbols, names) for j in range(n)]))
        return f"(DJoint {ct.lst([names.p(x) for x in d.names])} {ct.lst(rows)})"
    return f"(DNormal {names.p(d.names[0])} {sc.symset(d.variance.free_symbols, names)})"


def gen_points(rng, names_list, pins):
    pts = []
    for _ in range(8):
        p = {n: rng.choice(VALUES) for n in names_list}
        p.update(pins)
        pts.append(p)
    return pts


def observe(spec, points_rng, mods=None):
    """Run the implementation on a spec; returns (coq case term, info).  mods: optional dict of replacement
    callables (used only by the sensitivity self-test)."""
    from pharmpy.modeling import (cleanup_model, get_individual_prediction_expression,
                                  get_observation_expression, get_population_prediction_expression,
                                  make_declarative, remove_unused_parameters_and_rvs, rename_symbols)
    fn = {'make_declarative': make_declarative, 'cleanup_model': cleanup_model, 'rename_symbols': rename_symbols,
          'remove_unused_parameters_and_rvs': remove_unused_parameters_and_rvs,
          'get_observation_expression': get_observation_expression,
          'get_individual_prediction_expression': get_individual_prediction_expression,
          'get_population_prediction_expression': get_population_prediction_expression}
    fn.update(mods or {})
    names = ct.Names()
    for n in THETAS + OMEGAS + SIGMAS + ETAS + EPSS + COLS + ['t'] + AMOUNTS + VARS + NEWNAMES:
        names.get(n)
    try:
        model = build_model(spec)
    except (ValueError, RecursionError, ZeroDivisionError, sympy.SympifyError) as e:
        # Model.create refuses the program (not a valid model), or sympy cannot even parse the text
        raise InvalidSpec(f'{type(e).__name__}: {e}'[:200])
    info = {'n': len(model.statements), 'errors': []}
    known = model.parameters.names + model.random_variables.names + COLS + ['t'] + AMOUNTS + ['__EXP1', '__UNDEF']
    fixed = [(p.name, F(str(p.init))) for p in model.parameters if p.fix]
    dists = [f"(mkDist {ct.lst([names.p(x) for x in d.names])} {ct.lst([names.p(x) for x in d.parameter_names])})"
             for d in model.random_variables]
    prog = stms_term(model.statements, names)
    decl = obs_of(lambda: fn['make_declarative'](model).statements, lambda r: stms_term(r, names), info, 'decl')
    def conv_clean(m2):
        dang = [p for p in m2.random_variables.parameter_names if p not in m2.parameters.names]
        return ct.tup(stms_term(m2.statements, names), ct.lst([names.p(x) for x in m2.parameters.names]),
                      ct.lst([names.p(x) for x in dang]))
    clean = obs_of(lambda: fn['cleanup_model'](model), conv_clean, info, 'clean')
    rens = []
    for ren in spec.get('renames', []):
        d = {k: v for k, v in ren}
        ren = list(d.items())        # a dict: the last value of a repeated key wins

        def conv(m2):
            return (stms_term(m2.statements, names), ct.lst([names.p(x) for x in m2.parameters.names]),
                    ct.lst([names.p(x) for x in m2.random_variables.names]))
        try:
            m2 = fn['rename_symbols'](model, d)
            st, ps, rv = conv(m2)
            o = f'(OOk {st})'
        except ValueError:
            info['errors'].append('rename:ValueError')
            o, ps, rv = 'OValueError', '[]', '[]'
        except sc.Unconvertible:
            raise
        except RuntimeError:
            info['errors'].append('rename:engine-RuntimeError')
            o, ps, rv = 'OEngine', '[]', '[]'
        except Exception as e:
            info['errors'].append(f'rename:{type(e).__name__}')
            o, ps, rv = 'OOther', '[]', '[]'
        rens.append(ct.tup(ct.lst([ct.pair(names.p(k), names.p(v)) for k, v in ren]), o, ps, rv))
    unused = obs_of(lambda: fn['remove_unused_parameters_and_rvs'](model),
                    lambda m2: ct.pair(ct.lst([names.p(x) for x in m2.parameters.names]),
                                       ct.lst([names.p(x) for x in m2.random_variables.names])), info, 'unused')
    extr = [obs_of(lambda k=k: fn[k](model), lambda r: cexpr(r, names), info, k.split('_')[1])
            for k in ('get_observation_expression', 'get_individual_prediction_expression',
                      'get_population_prediction_expression')]
    pins = {n: q for n, q in fixed}
    zero = set()
    for d in model.random_variables:
        if all(model.parameters[p].fix and model.parameters[p].init == 0 for p in d.parameter_names):
            zero.update(d.names)
    pins.update({n: F(0) for n in zero})
    info['nonrandom'] = len(zero)
    info['fixed'] = len(fixed)
    allnames = [names.name(i) for i in range(1, names.next)]
    pts = gen_points(points_rng, allnames, pins)
    for pt in pts:
        pt.pop('__UNDEF', None)
        if '__EXP1' in pt:
            pt['__EXP1'] = F(2)
    term = ("(mkCase " + ct.lst([names.p(k) for k in known]) + " " + ct.lst([names.p('Y')]) + "\n  "
            + ct.lst([ct.pair(names.p(n), ct.q(q)) for n, q in fixed]) + " " + ct.lst(dists) + "\n  " + prog
            + "\n  " + decl + "\n  " + clean + "\n  " + ct.lst(rens) + "\n  "
            + ct.lst([names.p(x) for x in model.parameters.names]) + " "
            + ct.lst([names.p(x) for x in model.random_variables.names]) + " "
            + ct.lst([rdist_term(d, names) for d in model.random_variables]) + "\n  "
            + ct.lst([names.p(str(opaque(x))) for x in sorted(model.statements.free_symbols, key=str)]) + "\n  "
            + unused + "\n  "
            + ct.lst([names.p(x) for x in model.random_variables.epsilons.names]) + " "
            + ct.lst([names.p(x) for x in model.random_variables.etas.names]) + "\n  " + "\n  ".join(extr) + "\n  "
            + ct.lst([sc.env(p, names) for p in pts]) + ")")
    info['nqueries'] = 6 + len(rens)
    info['shrunk'] = (len(model.parameters), len(model.random_variables.names))
    return term, info


# ------------------------------------------------------------------ classification
def classify(ctx, spec, tags, info):
    tags = set(tags)
    corr = sorted(t for t in tags if t in CORR)
    oracle = sorted(t for t in tags if t in ORACLE)
    status = 'ok'
    for t in oracle:
        need_absent, causes = ORACLE[t]
        explained = need_absent not in tags
        hit = [fid for (g, fid) in causes if g in tags and ctx.open_finding(fid)]
        if explained and hit:
            kh = ctx.coverage.setdefault('known_hits', {})
            kh[hit[0]] = kh.get(hit[0], 0) + 1
            if status == 'ok':
                status = 'known'
        elif explained and 208 in tags and t in (11, 12, 14, 15):
            # a statement assigns a parameter / rv / column: outside the property's domain (the theorems'
            # guards g_no_stale_capture / g_inline_ok are false there, tags 201 / 204)
            if not ({201, 204} & tags):
                ctx.violation(TAGS[t] + ' (shadowing program, guards true)', {'spec': spec, 'tags': sorted(tags)})
                status = 'violation'
            else:
                ctx.coverage['out_of_domain_shadowing'] = ctx.coverage.get('out_of_domain_shadowing', 0) + 1
        else:
            ctx.violation(TAGS[t], {'spec': spec, 'tags': sorted(tags), 'tag_meaning': TAGS[t]})
            status = 'violation'
    if corr and status != 'violation':
        ctx.broken.append('correspondence C07 model vs implementation: ' + ', '.join(TAGS[t] for t in corr)
                          + ' on ' + json.dumps(spec)[:600])
        ctx.coverage.setdefault('corr_disagreements', []).append({'spec': spec, 'tags': sorted(tags)})
        status = 'broken'
    return status


def _has_alias_chain(spec):
    al = set()
    for l, r in spec['stmts']:
        if l != 'ODE' and isinstance(r, str) and re.fullmatch(r'[A-Za-z_]\w*', r):
            if r in al:
                return True
            al.add(l)
    return False


def run_specs(ctx, specs, label, quiet=False, mods=None, verdict='verdict'):
    terms, kept, infos = [], [], []
    skipped = {}
    prng = random.Random(f'{ctx.seed}-{label}-pts')
    for spec in specs:
        try:
            term, info = observe(spec, prng, mods)
        except (sc.Unconvertible, InvalidSpec, EngineRefusal, ZeroDivisionError, sympy.SympifyError, TypeError,
                RecursionError) as e:      # RecursionError: sympy's Piecewise evaluation inside the exporter
            skipped[type(e).__name__] = skipped.get(type(e).__name__, 0) + 1
            continue
        terms.append(term)
        kept.append(spec)
        infos.append(info)
    verdicts = ctx.run_cases(label, IMPORTS, 'case', terms, verdict, shard=40)
    if quiet:
        return kept, verdicts, infos, None
    sk = ctx.coverage.setdefault('skipped_invalid_or_unconvertible', {})
    for k, v in skipped.items():
        sk[k] = sk.get(k, 0) + v
    stats = {'ok': 0, 'known': 0, 'violation': 0, 'broken': 0}
    for spec, tags, info in zip(kept, verdicts, infos):
        stats[classify(ctx, spec, tags, info)] += 1
    inconcl = sum(1 for v in verdicts for t in v if 1000 <= t < 2000)
    ctx.coverage['inconclusive_subchecks'] = ctx.coverage.get('inconclusive_subchecks', 0) + inconcl
    return kept, verdicts, infos, stats


def finding_probes(ctx):
    """Replay the stored witness of every open finding on the real code."""
    for f in ctx.findings:
        if f.get('status') != 'open':
            continue
        if 'mu_spec' in f['witness']:
            term, info = observe_mu(f['witness']['mu_spec'], random.Random('w'))
            tags = set(ctx.run_cases('finding-' + f['id'], MU_IMPORTS, 'mcase', [term], 'verdict_mu')[0])
            if f['expect_tag'] in tags and 50 not in tags:
                ctx.known(f['id'])
            else:
                ctx.notes.append(f"finding_not_reproduced {f['id']} (tags {sorted(tags)})")
            continue
        if 'corpus' in f['witness']:
            term, info = observe_pair(f['witness']['corpus'], random.Random('w'), corpus_dir(ctx))
            t = info.get('reparse') if f['witness'].get('reparse') else term
            tags = set(ctx.run_cases('finding-' + f['id'], IMPORTS, 'pcase', [t], 'verdict_pair')[0]) if t else set()
            if f['expect_tag'] in tags:
                ctx.known(f['id'])
            else:
                ctx.notes.append(f"finding_not_reproduced {f['id']} (tags {sorted(tags)})")
            continue
        kept, verdicts, _, _ = run_specs(ctx, [f['witness']], 'finding-' + f['id'], quiet=True)
        tags = set(verdicts[0]) if verdicts else set()
        need_absent, causes = ORACLE.get(f['expect_tag'], (None, []))
        gtags = [g for (g, fid) in causes if fid == f['id']]
        if f['expect_tag'] in tags and need_absent not in tags and all(g in tags for g in gtags):
            ctx.known(f['id'])
        else:
            ctx.notes.append(f"finding_not_reproduced {f['id']} (tags {sorted(tags)})")


# ------------------------------------------------------------------ oracle-only stream (validation)
POW2 = [F(1), F(2), F(4), F(8), F(1, 2), F(1, 4), F(16)]
SMALL = [F(0), F(1), F(-1), F(2), F(0), F(1)]
OTAGS = {33: 'make_declarative / cleanup_model raises ValueError on a corpus model',
         31: 'refactoring changes the value of a symbol on a corpus model',
         32: 'refactoring drops the definition of a dependent variable on a corpus model'}


CUTOFF_VARIANTS = {'pheno_le5': '.LE.5', 'pheno_ge7': '.GE.7', 'pheno_eq6': '.EQ.6', 'pheno_ne4': '.NE.4',
                   'pheno_gt3': '.GT.3'}
REGENERATING = ['make_declarative', 'cleanup_model', 'mu_reference_model', 'convert_model_generic_nonmem']


def corpus_dir(ctx):
    """pheno with `<=`, `>=`, `==`, `!=`, `>` cut-offs on the integer-valued covariate APGR, written next to a copy of
    the example dataset (under the run directory of this check)."""
    import shutil
    import pharmpy
    from pathlib import Path
    d = ctx.rundir / 'corpus'
    if not d.exists():
        d.mkdir(parents=True)
        ex = Path(pharmpy.__file__).parent / 'internals' / 'example_models'
        for f in ('pheno.dta', 'pheno.datainfo'):
            shutil.copy(ex / f, d / f)
        text = (ex / 'pheno.mod').read_text()
        assert 'IF(APGR.LT.5)' in text
        for name, op in CUTOFF_VARIANTS.items():
            (d / f'{name}.mod').write_text(text.replace('IF(APGR.LT.5)', f'IF(APGR{op})'))
    return d


def corpus_starts(cdir=None):
    from pharmpy.modeling import create_basic_pk_model, load_example_model, read_model
    starts = {
        'pheno': lambda: load_example_model('pheno'),
        'moxo': lambda: load_example_model('moxo'),
        'basic_iv': lambda: create_basic_pk_model('iv'),
        'basic_oral': lambda: create_basic_pk_model('oral'),
    }
    for name in CUTOFF_VARIANTS:
        starts[name] = (lambda n=name: read_model(cdir / f'{n}.mod'))
    return starts


def corpus_steps():
    import pharmpy.modeling as pm

    def first_theta(m):
        return pm.fix_parameters(m, [pm.get_thetas(m).names[0]])

    def joint2(m):
        etas = m.random_variables.etas.names
        return pm.create_joint_distribution(m, list(etas[:2]))

    def fix_sigma(m):
        return pm.fix_parameters(m, [pm.get_sigmas(m).names[0]])

    return {
        'add_peripheral_compartment': pm.add_peripheral_compartment,
        'set_first_order_absorption': pm.set_first_order_absorption,
        'set_zero_order_absorption': pm.set_zero_order_absorption,
        'add_lag_time': pm.add_lag_time,
        'set_transit_compartments_1': lambda m: pm.set_transit_compartments(m, 1),
        'set_michaelis_menten_elimination': pm.set_michaelis_menten_elimination,
        'set_proportional_error_model': pm.set_proportional_error_model,
        'set_additive_error_model': pm.set_additive_error_model,
        'set_combined_error_model': pm.set_combined_error_model,
        'set_iiv_on_ruv': pm.set_iiv_on_ruv,
        'set_power_on_ruv': pm.set_power_on_ruv,
        'add_covariate_effect_CL_WGT_pow': lambda m: pm.add_covariate_effect(m, 'CL', 'WGT', 'pow'),
        'add_covariate_effect_CL_WGT_lin': lambda m: pm.add_covariate_effect(m, 'CL', 'WGT', 'lin'),
        'fix_first_theta': first_theta,
        'fix_first_sigma': fix_sigma,
        'create_joint_distribution_2': joint2,
        'mu_reference_model': pm.mu_reference_model,
        'make_declarative': pm.make_declarative,
    }


def corpus_refactorings():
    import pharmpy.modeling as pm

    def there_and_back(m):
        if m.dataset is None:       # update_source of a NONMEM model may need the dataset (CMT column)
            raise NotImplementedError('no dataset')
        return pm.convert_model(pm.convert_model(m, 'generic'), 'nonmem')

    def unload_load(m):
        m2 = pm.unload_dataset(m)
        return pm.load_dataset(m2) if m.dataset is not None else m2

    def join_all(m):
        return pm.create_joint_distribution(m, list(m.random_variables.etas.names))

    return {
        'mu_reference_model': pm.mu_reference_model,
        'greekify_model': pm.greekify_model,
        'greekify_model_named': lambda m: pm.greekify_model(m, named_subscripts=True),
        'make_declarative': pm.make_declarative,
        'cleanup_model': pm.cleanup_model,
        'convert_model_generic': lambda m: pm.convert_model(m, 'generic'),
        'convert_model_generic_nonmem': there_and_back,
        'unload_load_dataset': unload_load,
        'remove_unused_parameters_and_rvs': pm.remove_unused_parameters_and_rvs,
        'create_joint_distribution': join_all,
        'split_joint_distribution': pm.split_joint_distribution,
        'replace_fixed_thetas': pm.replace_fixed_thetas,
        'replace_non_random_rvs': pm.replace_non_random_rvs,
    }


def gen_history(rng):
    steps = sorted(corpus_steps())
    k = rng.choice([0, 1, 1, 2, 2, 3])
    return {'start': rng.choice(['pheno', 'moxo', 'basic_iv', 'basic_oral'] + sorted(CUTOFF_VARIANTS)), 'history': [rng.choice(steps) for _ in range(k)],
            'refactoring': rng.choice(sorted(corpus_refactorings()))}


def cutoff_candidates(models):
    """column -> values that hit the numeric constants of the conditions it occurs in exactly (and +-1)"""
    from sympy.core.relational import Relational
    from pharmpy.model import Assignment
    cand = {}
    for m in models:
        cols = set(m.datainfo.names)
        for st in m.statements:
            if not isinstance(st, Assignment):
                continue
            for rel in sc.to_sympy(st.expression).atoms(Relational):
                nums = [x for x in rel.atoms(sympy.Number) if x.is_Rational]
                for sym in rel.free_symbols:
                    if sym.name in cols:
                        for x in nums:
                            q = F(int(x.p), int(x.q))
                            cand.setdefault(sym.name, [])
                            for v in (q, q - 1, q + 1):
                                if v not in cand[sym.name]:
                                    cand[sym.name].append(v)
    return cand


def observe_pair(hspec, prng, cdir=None):
    """Returns (term, info); info['error'] set when the refactoring raised; info['reparse'] = a second term comparing
    the refactored model with read_model_from_string(refactored.code) (NONMEM models only)."""
    from pharmpy.modeling import read_model_from_string
    starts, steps, refs = corpus_starts(cdir), corpus_steps(), corpus_refactorings()
    m = starts[hspec['start']]()
    applied = []
    for st in hspec['history']:
        try:
            m = steps[st](m)
            applied.append(st)
        except Exception:
            pass                      # the history step is not applicable to this model: skip the step
    info = {'applied': applied, 'error': None, 'n': len(m.statements), 'reparse': None}
    info['fixed_variance'] = any(p.fix and p.init != 0 and p.name in m.random_variables.parameter_names
                                 for p in m.parameters)
    info['already_mu'] = any(hasattr(st, 'symbol') and re.fullmatch(r'mu_\d+', str(st.symbol)) for st in m.statements)
    # NONMEM scaling factor defined as a pure alias (S1 = VC): cleanup_model inlines it away
    info['scaling_alias'] = any(hasattr(st, 'symbol') and re.fullmatch(r'S\d+', str(st.symbol))
                                and st.expression.is_symbol() for st in m.statements)
    names = ct.Names()
    try:
        m2 = refs[hspec['refactoring']](m)
    except Exception as e:
        info['error'] = f'{type(e).__name__}: {e}'[:200]
        if isinstance(e, ValueError) and hspec['refactoring'] in ('cleanup_model', 'make_declarative'):
            before = stms_term(m.statements, names)
            return f"(mkP {before} [] [] [] true [])", info
        return None, info
    m3 = None
    if 'nonmem' in type(m2).__module__:
        try:
            m3 = read_model_from_string(m2.code)
            if (m3.parameters.names != m2.parameters.names
                    or m3.random_variables.names != m2.random_variables.names):
                info['reparse_skipped'] = 'names differ after re-reading'
                m3 = None
        except Exception as e:
            info['reparse_error'] = f'{type(e).__name__}: {e}'[:200]
    before = stms_term(m.statements, names)
    after = stms_term(m2.statements, names)
    reparsed = stms_term(m3.statements, names) if m3 is not None else None
    ren = []
    if hspec['refactoring'].startswith('greekify'):
        for a, b in zip(m.parameters.names, m2.parameters.names):
            if a != b:
                ren.append((a, b))
        for a, b in zip(m.random_variables.names, m2.random_variables.names):
            if a != b:
                ren.append((a, b))
    pins = {p.name: F(str(p.init)) for p in m.parameters if p.fix}
    for d in m.random_variables:
        if all(m.parameters[p].fix and m.parameters[p].init == 0 for p in d.parameter_names):
            pins.update({n: F(0) for n in d.names})
    rvn = set(m.random_variables.names)
    for a, b in ren:
        names.get(a), names.get(b)
    allnames = [names.name(i) for i in range(1, names.next)]
    newnames = {b for _, b in ren}
    cand = cutoff_candidates([m, m2] + ([m3] if m3 is not None else []))
    info['cutoff_columns'] = sorted(cand)
    pts = []
    for i in range(12):
        pt = {n: (prng.choice(SMALL) if n in rvn else prng.choice(POW2)) for n in allnames if n not in newnames}
        for col, vals in cand.items():      # sample points that HIT the cut-off values exactly (and +-1)
            if col in pt:
                pt[col] = vals[i % len(vals)]
        pt.update({k: v for k, v in pins.items() if k in pt})
        pts.append(pt)
    outs = [str(opaque(y)) for y in m.dependent_variables]
    envs = ct.lst([sc.env(pt, names) for pt in pts])
    term = ("(mkP " + before + "\n  " + after + "\n  " + ct.lst([ct.pair(names.p(a), names.p(b)) for a, b in ren])
            + " " + ct.lst([names.p(y) for y in outs]) + " false\n  " + envs + ")")
    if reparsed is not None:
        # the refactored model against the model its regenerated NM-TRAN code reads back to (same names: checked)
        pts2 = [{ren_d.get(k, k): v for k, v in pt.items()} for pt in pts for ren_d in [dict(ren)]]
        info['reparse'] = ("(mkP " + after + "\n  " + reparsed + "\n  [] " + ct.lst([names.p(dict(ren).get(y, y)) for y in outs])
                           + " false\n  " + ct.lst([sc.env(pt, names) for pt in pts2]) + ")")
    info['changed_text'] = str(m.statements) != str(m2.statements)
    return term, info


def corpus_oracle(ctx, n):
    """Validation only: the refactorings that are not modelled, on corpus models reached by short histories;
    statements before / after are evaluated with the Coq evaluator (ODE amounts: position-sensitive oracle)."""
    prng = random.Random(f'{ctx.seed}-corpus-pts')
    cdir = corpus_dir(ctx)
    hs = [gen_history(ctx.rng) for _ in range(n)]
    # every refactoring at least once on the untouched start models; on the cut-off variants of pheno the
    # refactorings that regenerate the NM-TRAN code of the conditional statement
    base = ['pheno', 'moxo', 'basic_iv', 'basic_oral']
    hs = ([{'start': s, 'history': [], 'refactoring': r} for s in base for r in sorted(corpus_refactorings())]
          + [{'start': s, 'history': [], 'refactoring': r} for s in sorted(CUTOFF_VARIANTS) for r in REGENERATING]
          + hs)
    hs.append({'start': 'pheno', 'history': ['fix_first_sigma'], 'refactoring': 'cleanup_model'})
    hs.append({'start': 'pheno', 'history': ['add_peripheral_compartment'], 'refactoring': 'cleanup_model'})
    hs.append({'start': 'pheno', 'history': ['mu_reference_model'], 'refactoring': 'mu_reference_model'})
    terms, kept, infos = [], [], []
    stats = {'refactoring_raised': {}, 'unconvertible': 0, 'compared': 0, 'inconclusive': 0, 'dv_points_compared': 0,
             'per_refactoring': {}, 'text_changed': 0, 'known': 0, 'reparse_compared': 0, 'reparse_skipped': {},
             'reparse_dv_points': 0, 'pairs_with_cutoff_points': 0}
    for h in hs:
        try:
            term, info = observe_pair(h, prng, cdir)
        except sc.Unconvertible:
            stats['unconvertible'] += 1
            continue
        if term is None:
            cls = info['error'].split(':')[0]
            key = h['refactoring'] + ': ' + cls
            stats['refactoring_raised'][key] = stats['refactoring_raised'].get(key, 0) + 1
            h2 = dict(h, applied=info['applied'], error=info['error'])
            stats.setdefault('raised_samples', [])
            if len(stats['raised_samples']) < 6:
                stats['raised_samples'].append(h2)
            if cls not in ('ValueError', 'NotImplementedError'):
                # an internal error; explained only by the open finding about fixed variance parameters
                if (h['refactoring'] in ('cleanup_model', 'replace_fixed_thetas') and info.get('fixed_variance')
                        and ctx.open_finding('C07-FIXED-THETAS-REMOVES-OMEGAS')):
                    stats['known'] += 1
                else:
                    ctx.violation(f"{h['refactoring']} raises {info['error']} on a corpus model "
                                  f"(after {info['applied']} on {h['start']})", {'corpus': h})
            continue
        terms.append(term)
        kept.append(h)
        infos.append(info)
    verdicts = ctx.run_cases('corpus', IMPORTS, 'pcase', terms, 'verdict_pair', shard=12)
    for h, v, info in zip(kept, verdicts, infos):
        tags = set(v)
        if 33 in tags:
            key = h['refactoring'] + ': ' + info['error'][:60]
            stats['refactoring_raised'][key] = stats['refactoring_raised'].get(key, 0) + 1
            fid = None      # the findings that explained such refusals are fixed in /repo
            if fid and ctx.open_finding(fid):
                stats['known'] += 1
                kh = ctx.coverage.setdefault('known_hits', {})
                kh[fid] = kh.get(fid, 0) + 1
            else:
                ctx.violation(f"{h['refactoring']} raises {info['error']} on a corpus model "
                              f"(after {info['applied']} on {h['start']})", {'corpus': h, 'tags': sorted(tags)})
            continue
        stats['per_refactoring'][h['refactoring']] = stats['per_refactoring'].get(h['refactoring'], 0) + 1
        stats['text_changed'] += 1 if info.get('changed_text') else 0
        stats['dv_points_compared'] += sum(t - 2000 for t in tags if t >= 2000)
        if 1031 in tags:
            stats['inconclusive'] += 1
        else:
            stats['compared'] += 1
        if (31 in tags and h['refactoring'] == 'mu_reference_model' and info.get('already_mu')
                and ctx.open_finding('C07-MU-REFERENCE-NOT-IDEMPOTENT')):
            stats['known'] += 1
            kh = ctx.coverage.setdefault('known_hits', {})
            kh['C07-MU-REFERENCE-NOT-IDEMPOTENT'] = kh.get('C07-MU-REFERENCE-NOT-IDEMPOTENT', 0) + 1
            continue
        for t in (31, 32):
            if t in tags:
                ctx.violation(OTAGS[t] + f" ({h['refactoring']} after {info['applied']} on {h['start']})",
                              {'corpus': h, 'tags': sorted(tags)})
    # the regenerated NM-TRAN code read back: eval(read_model_from_string(r(M).code)) == eval(r(M)) (== eval(M) above)
    rp = [(h, info) for h, info in zip(kept, infos) if info.get('reparse')]
    for h, info in zip(kept, infos):
        stats['pairs_with_cutoff_points'] += 1 if info.get('cutoff_columns') else 0
        for k in ('reparse_skipped', 'reparse_error'):
            if info.get(k):
                key = k + ': ' + info[k][:50]
                stats['reparse_skipped'][key] = stats['reparse_skipped'].get(key, 0) + 1
    rverdicts = ctx.run_cases('reparse', IMPORTS, 'pcase', [info['reparse'] for _, info in rp], 'verdict_pair', shard=12)
    for (h, info), v in zip(rp, rverdicts):
        tags = set(v)
        stats['reparse_dv_points'] += sum(t - 2000 for t in tags if t >= 2000)
        if 1031 not in tags:
            stats['reparse_compared'] += 1
        if ({31, 32} & tags and h['refactoring'] == 'cleanup_model' and info.get('scaling_alias')
                and ctx.open_finding('C07-CLEANUP-CODE-LOSES-SCALING')):
            stats['known'] += 1
            kh = ctx.coverage.setdefault('known_hits', {})
            kh['C07-CLEANUP-CODE-LOSES-SCALING'] = kh.get('C07-CLEANUP-CODE-LOSES-SCALING', 0) + 1
            continue
        for t in (31, 32):
            if t in tags:
                ctx.violation('the NM-TRAN code regenerated by a refactoring does not read back to the same model '
                              f"function ({h['refactoring']} after {info['applied']} on {h['start']})",
                              {'corpus': h, 'reparse': True, 'tags': sorted(tags)})
    ctx.coverage['corpus_oracle'] = stats
    return len(kept) + len(rp)


# ------------------------------------------------------------------ oracle-only: gradient extractors
def gen_grad_spec(rng):
    """Statements affine in the etas/eps; Y = affine*affine + affine*EPS1 (degree <= 2 in every eta)."""
    def free(depth=1):       # an expression without etas / eps
        return rexpr(rng, THETAS + ['WGT', 'APGR'], depth, 'pw', True)
    stmts, aff = [], []
    for v in rng.sample(['A', 'B', 'C', 'D', 'CL', 'V'], rng.choice([2, 3, 4])):
        k = rng.random()
        if k < 0.5 or not aff:
            e = f'({free()}) + ({free()})*{rng.choice(ETAS)}'
        elif k < 0.8:
            e = f'({rng.choice(aff)}) + ({free()})*{rng.choice(ETAS)}'
        else:
            e = f'({rng.choice(aff)})*({free()}) - {rng.choice(aff)}'
        stmts.append([v, e])
        aff.append(v)
    stmts.append(['IPRED', f'({rng.choice(aff)})*({rng.choice(aff)}) + {free()}'])
    stmts.append(['W', f'{rng.choice(aff)} + {free(0)}'])
    eps2 = rng.random() < 0.5
    stmts.append(['Y', 'IPRED + W*EPS1 + (' + free(0) + ')*EPS2' if eps2 else 'IPRED + W*EPS1'])
    # IIV-only, IOV etas (two occasions sharing an omega), etas declared IOV-first; one or two epsilons
    return {'stmts': stmts, 'fix': {}, 'rvs': rng.choice(['sep', 'joint3', 'iov', 'iov', 'iovfirst', 'iovfirst']),
            'renames': [], 'eps2': eps2}


def observe_grad(spec, prng):
    from pharmpy.modeling import calculate_epsilon_gradient_expression, calculate_eta_gradient_expression
    names = ct.Names()
    try:
        model = build_model(spec)
    except RecursionError as e:
        raise ValueError(str(e)[:100])
    etag = calculate_eta_gradient_expression(model)
    epsg = calculate_epsilon_gradient_expression(model)
    etas, epss = model.random_variables.etas.names, model.random_variables.epsilons.names
    prog = stms_term(model.statements, names)
    # entry i of the gradient is claimed to be the derivative w.r.t. the i-th eta / epsilon of the model
    t1 = ct.lst([ct.pair(names.p(n), cexpr(g, names)) for n, g in zip(etas, etag)])
    t2 = ct.lst([ct.pair(names.p(n), cexpr(g, names)) for n, g in zip(epss, epsg)])
    counts = ct.tup(ct.pair(ct.nat(len(etas)), ct.nat(len(etag))), ct.pair(ct.nat(len(epss)), ct.nat(len(epsg))))
    allnames = [names.name(i) for i in range(1, names.next)]
    pts = [{n: prng.choice(VALUES) for n in allnames} for _ in range(6)]
    return (f"(mkG {prog} {names.p('Y')} {ct.lst([names.p(e) for e in epss])}\n  {t1}\n  {t2}\n  {counts}\n  "
            + ct.lst([sc.env(pt, names) for pt in pts]) + ")")


def gradient_oracle(ctx, n):
    prng = random.Random(f'{ctx.seed}-grad-pts')
    specs, terms = [], []
    for _ in range(n):
        spec = gen_grad_spec(ctx.rng)
        try:
            terms.append(observe_grad(spec, prng))
            specs.append(spec)
        except (sc.Unconvertible, ValueError, ZeroDivisionError, TypeError, sympy.SympifyError):
            ctx.coverage['gradient_skipped'] = ctx.coverage.get('gradient_skipped', 0) + 1
    verdicts = ctx.run_cases('grad', IMPORTS, 'gcase', terms, 'verdict_grad', shard=25)
    pts = 0
    for spec, v in zip(specs, verdicts):
        pts += sum(t - 2000 for t in v if t >= 2000)
        for t, what in ((41, 'calculate_eta_gradient_expression differs from the exact central difference'),
                        (42, 'calculate_epsilon_gradient_expression differs from the exact central difference'),
                        (43, 'calculate_eta_gradient_expression: number of entries differs from the number of etas'),
                        (44, 'calculate_epsilon_gradient_expression: number of entries differs from the number of '
                             'epsilons')):
            if t in v:
                ctx.violation(what, {'grad_spec': spec, 'tags': v})
    ctx.coverage['gradient_oracle'] = {'programs': len(specs), 'defined_points': pts,
                                       'layouts': {k: sum(1 for s in specs if s['rvs'] == k)
                                                   for k in ('sep', 'joint3', 'iov', 'iovfirst')},
                                       'two_epsilons': sum(1 for s in specs if s.get('eps2'))}
    return len(specs)


# ------------------------------------------------------------------ mu_reference_model (modelled: tags 50-54)
MU_IMPORTS = IMPORTS          # the definitions live in C07.Model / C07.Check
MTAGS = {50: 'mu_reference_model differs from model (selection / insertion / skip rule)',
         51: 'mu_reference_model changes the value of a symbol of the original program',
         52: "mu_reference_model: sympy's (mu_expr, new_def) do not solve new_def[mu := mu_expr] = old_def",
         53: 'mu_reference_model raises', 54: 'mu_reference_model introduces nan into the model'}


def gen_mu_spec(rng):
    """Parameter statements of the shapes mu-referencing meets: T*exp(eta), T + eta, T*(1 + eta), exp(T + eta), two
    etas, parameters that depend on other eta-parameters, etas hidden behind an alias, Piecewise definitions, already
    mu-referenced statements, reassignments; optional compartmental system; IIV / joint / IOV layouts."""
    rv = rng.choice(['sep', 'sep', 'joint3', 'iov', 'iovfirst'])
    stmts, params, tvs = [], [], []
    for k in range(rng.choice([0, 1, 2])):
        tv = f'TV{k + 1}'
        stmts.append([tv, rng.choice([f'TH{k + 1}*WGT', f'TH{k + 1}*(WGT/2)', f'TH{k + 1}',
                                      f'Piecewise((TH{k + 1}*2, APGR < 5), (TH{k + 1}, True))'])])
        tvs.append(tv)
    etas = rng.sample(ETAS, rng.choice([1, 2, 3]))
    names = ['CL', 'V', 'D']
    for eta, pn in zip(etas, names):
        T = rng.choice(tvs + [rng.choice(THETAS), f'{rng.choice(THETAS)}*WGT'])
        form = rng.choice(['exp', 'exp', 'exp', 'add', 'prop', 'expsum', 'two', 'dep', 'alias', 'pw', 'already',
                           'pow', 'reassign', 'depsame', 'reassignsame'])
        if form == 'exp':
            stmts.append([pn, f'({T})*exp({eta})'])
        elif form == 'add':
            stmts.append([pn, f'({T}) + {eta}'])
        elif form == 'prop':
            stmts.append([pn, f'({T})*(1 + {eta})'])
        elif form == 'expsum':
            stmts.append([pn, f'exp({T} + {eta})'])
        elif form == 'two':
            stmts.append([pn, f'({T})*exp({eta} + {rng.choice(ETAS)})'])
        elif form == 'dep' and params:
            stmts.append([pn, f'({rng.choice(params)})*exp({eta})'])
        elif form == 'depsame':          # a second statement with the SAME eta that reads the first one
            stmts.append(['B', f'({T}) + {eta}'])
            stmts.append([pn, f'B*exp({eta})'])
        elif form == 'reassignsame':     # the symbol is assigned twice, both times with the eta
            stmts.append([pn, f'({T})*exp({eta})'])
            stmts.append([pn, f'{pn}*exp({eta})'])
        elif form == 'alias':
            stmts.append(['A', eta])
            stmts.append([pn, f'({T})*exp(A)'])
        elif form == 'pw':
            stmts.append([pn, f'Piecewise((({T})*exp({eta}), WGT > 2), (({rng.choice(THETAS)})*exp({eta}), True))'])
        elif form == 'already':
            k = ETAS.index(eta) + 1
            stmts.append([f'mu_{k}', f'log({T})'])
            stmts.append([pn, f'exp(mu_{k} + {eta})'])
        elif form == 'pow':
            stmts.append([pn, f'({T})*{eta}**2'])
        else:
            stmts.append([pn, f'({T})*exp({eta})'])
            stmts.append([pn, f'{pn}*2'])
        params.append(pn)
    if rng.random() < 0.3:
        stmts.append(['ODE', {'ke': f'{params[0]}/{params[-1]}' if len(params) > 1 else params[0], 'ka': None,
                              'lag': None, 'bio': None}])
        stmts.append(['F', 'A_CENTRAL(t)/' + params[-1]])
        stmts.append(['Y', 'F + F*EPS1'])
    else:
        stmts.append(['IPRED', ' + '.join(params)])
        stmts.append(['Y', rng.choice(['IPRED + IPRED*EPS1', 'IPRED + EPS1', f'IPRED*exp({rng.choice(ETAS)}) + EPS1'])])
    return {'stmts': stmts, 'fix': {}, 'rvs': rv, 'renames': []}


def observe_mu(spec, prng, mods=None):
    from pharmpy.model import Assignment
    from pharmpy.modeling import mu_reference_model
    f = (mods or {}).get('mu_reference_model', mu_reference_model)
    names = ct.Names()
    try:
        model = build_model(spec)
    except (ValueError, RecursionError, ZeroDivisionError, sympy.SympifyError) as e:
        raise InvalidSpec(str(e)[:100])
    before = list(model.statements)
    etas = model.random_variables.etas.names
    info = {'errors': [], 'rewritten': 0}
    table = []
    try:
        after = list(f(model).statements)
    except RuntimeError:
        after_t = 'OEngine'
    except Exception as e:
        info['errors'].append(type(e).__name__)
        after_t = 'OOther'
    else:
        after_t = f'(OOk {stms_term(after, names)})'
        # read sympy's answers off the result: statement i became `mu_k = mu_expr ; P = new_def`
        j = 0
        for i, st in enumerate(before):
            if j >= len(after):
                break
            a = after[j]
            if (isinstance(st, Assignment) and isinstance(a, Assignment) and a.symbol != st.symbol
                    and re.fullmatch(r'mu_\d+', str(a.symbol)) and j + 1 < len(after)
                    and isinstance(after[j + 1], Assignment) and after[j + 1].symbol == st.symbol):
                table.append(ct.pair(ct.nat(i), ct.pair(cexpr(a.expression, names),
                                                        cexpr(after[j + 1].expression, names))))
                j += 2
            else:
                j += 1
        info['rewritten'] = len(table)
    prog = stms_term(before, names)
    etat = ct.lst([ct.pair(names.p(e), names.p(f'mu_{k}')) for k, e in enumerate(etas, 1)])
    rvn = set(model.random_variables.names)
    undef = names.p('__UNDEF')
    allnames = [names.name(i) for i in range(1, names.next)]
    pts = []
    for _ in range(8):
        pt = {n: (prng.choice(SMALL) if n in rvn or re.fullmatch(r'mu_\d+', n) else prng.choice(POW2))
              for n in allnames if n != '__UNDEF'}
        if '__EXP1' in pt:
            pt['__EXP1'] = F(2)
        pts.append(pt)
    term = (f"(mkM {prog}\n  {etat}\n  {ct.lst(table)}\n  {after_t} {undef}\n  "
            + ct.lst([sc.env(pt, names) for pt in pts]) + ")")
    return term, info


def mu_oracle(ctx, n, mods=None, label='mu'):
    prng = random.Random(f'{ctx.seed}-mu-pts')
    reg = [json.loads(p.read_text()) for p in sorted((VERIF / 'regress' / 'C07').glob('mu-*.json'))]
    specs, terms, infos = [], [], []
    for spec in reg + [gen_mu_spec(ctx.rng) for _ in range(n)]:
        try:
            term, info = observe_mu(spec, prng, mods)
        except (sc.Unconvertible, InvalidSpec, TypeError, RecursionError):
            ctx.coverage['mu_skipped'] = ctx.coverage.get('mu_skipped', 0) + 1
            continue
        specs.append(spec)
        terms.append(term)
        infos.append(info)
    verdicts = ctx.run_cases(label, MU_IMPORTS, 'mcase', terms, 'verdict_mu', shard=40)
    stats = {'programs': len(specs), 'rewritten_statements': 0, 'unchanged_programs': 0, 'inconclusive': 0,
             'raised': {}, 'mu_not_fresh': 0, 'known': 0}
    for spec, v, info in zip(specs, verdicts, infos):
        tags = set(v)
        stats['rewritten_statements'] += sum(t - 2000 for t in tags if t >= 2000)
        stats['unchanged_programs'] += 1 if info['rewritten'] == 0 else 0
        stats['inconclusive'] += 1 if 1050 in tags else 0
        stats['mu_not_fresh'] += 1 if 250 in tags else 0
        for e in info['errors']:
            stats['raised'][e] = stats['raised'].get(e, 0) + 1
        if 50 in tags:
            ctx.broken.append('correspondence C07 model vs implementation: ' + MTAGS[50] + ' on ' + json.dumps(spec['stmts']))
            ctx.coverage.setdefault('corr_disagreements', []).append({'mu_spec': spec, 'tags': sorted(tags)})
        for t in (51, 52, 53, 54):
            if t in tags:
                if t in (52, 54, 51) and (52 in tags or 54 in tags) and ctx.open_finding('C07-MU-REFERENCE-PIECEWISE-NAN') \
                        and any('Piecewise' in str(r) for l, r in spec['stmts'] if l != 'ODE'):
                    stats['known'] += 1
                    kh = ctx.coverage.setdefault('known_hits', {})
                    kh['C07-MU-REFERENCE-PIECEWISE-NAN'] = kh.get('C07-MU-REFERENCE-PIECEWISE-NAN', 0) + 1
                    break
                ctx.violation(MTAGS[t], {'mu_spec': spec, 'tags': sorted(tags)})
    ctx.coverage['mu_reference'] = stats
    return specs, verdicts


# ------------------------------------------------------------------ greekify_model: the renaming table (tags 60, 251-253)
def observe_greek(model, greekify=None):
    import pharmpy.modeling as pm
    cap = {}
    orig = pm.rename_symbols

    def spy(m, new_names):
        cap['d'] = [(str(opaque(k)), str(opaque(v))) for k, v in new_names.items()]
        return orig(m, new_names)
    pm.rename_symbols = spy
    try:
        (greekify or pm.greekify_model)(model)
    finally:
        pm.rename_symbols = orig
    names = ct.Names()
    thetas = pm.get_thetas(model).names
    cm = model.random_variables.covariance_matrix
    cov = []
    for r in range(cm.rows):
        for c in range(r + 1):
            if cm[r, c] != 0:
                cov.append((r + 1, c + 1, str(opaque(cm[r, c]))))
    etas, epss = model.random_variables.etas.names, model.random_variables.epsilons.names
    known = model.parameters.names + model.random_variables.names + model.datainfo.names + ['t']

    def nl(prefix, n):
        return ct.lst([ct.pair(ct.nat(i), names.p(f'{prefix}_{i}')) for i in range(1, n + 1)])

    def nl2(prefix):
        return ct.lst([ct.tup(ct.nat(r), ct.nat(c), names.p(f'{prefix}_{r}{c}')) for r, c, _ in cov])
    term = ("(mkK " + ct.lst([names.p(x) for x in thetas]) + " "
            + ct.lst([ct.tup(ct.nat(r), ct.nat(c), names.p(e)) for r, c, e in cov]) + " "
            + ct.lst([names.p(x) for x in etas]) + " " + ct.lst([names.p(x) for x in epss]) + "\n  "
            + nl('theta', len(thetas)) + " " + nl('eta', len(etas)) + " " + nl('epsilon', len(epss)) + "\n  "
            + nl2('omega') + " " + nl2('sigma') + "\n  "
            + ct.lst([ct.pair(names.p(k), names.p(v)) for k, v in cap['d']]) + "\n  "
            + ct.lst([names.p(x) for x in known]) + "\n  " + stms_term(model.statements, names) + ")")
    return term


def greek_oracle(ctx, n, greekify=None):
    cdir = corpus_dir(ctx)
    starts, steps = corpus_starts(cdir), corpus_steps()
    models = []
    for s in ('pheno', 'moxo', 'basic_iv', 'basic_oral'):
        models.append((s, starts[s]()))
    for st in ('create_joint_distribution_2', 'add_peripheral_compartment', 'set_combined_error_model', 'set_iiv_on_ruv',
               'fix_first_sigma', 'add_lag_time'):
        for s in ('pheno', 'basic_oral'):
            try:
                models.append((f'{s}+{st}', steps[st](starts[s]())))
            except Exception:
                pass
    for _ in range(n):
        spec = gen_spec(ctx.rng)
        try:
            models.append(('gen:' + spec['rvs'], build_model(spec)))
        except Exception:
            pass
    terms, kept = [], []
    for name, m in models:
        try:
            terms.append(observe_greek(m, greekify))
            kept.append(name)
        except (sc.Unconvertible, RecursionError, TypeError):
            ctx.coverage['greek_skipped'] = ctx.coverage.get('greek_skipped', 0) + 1
        except Exception as e:
            ctx.violation(f'greekify_model raises {type(e).__name__}: {e}'[:200], {'greek_model': name})
    verdicts = ctx.run_cases('greek', IMPORTS, 'kcase', terms, 'verdict_greek', shard=30)
    stats = {'models': len(kept), 'not_injective_on_model_names': 0, 'targets_not_distinct': 0, 'targets_not_fresh': 0}
    for name, v in zip(kept, verdicts):
        if 60 in v:
            ctx.broken.append(f'correspondence C07 model vs implementation: greekify_model renaming table differs from model on {name}')
        stats['not_injective_on_model_names'] += 1 if 251 in v else 0
        stats['targets_not_distinct'] += 1 if 252 in v else 0
        stats['targets_not_fresh'] += 1 if 253 in v else 0
    ctx.coverage['greekify_table'] = stats
    return len(kept)


# ------------------------------------------------------------------ oracle-only: solve_ode_system vs closed forms (tags 80, 81)
def observe_ode(model, prng):
    """One-compartment bolus / first-order absorption models only; returns a term or None (not eligible)."""
    from pharmpy.model import Bolus, output
    from pharmpy.modeling import solve_ode_system
    cs = model.statements.ode_system
    if cs is None or not set(cs.compartment_names) <= {'CENTRAL', 'DEPOT'} or 'CENTRAL' not in cs.compartment_names:
        return None
    cen = cs.find_compartment('CENTRAL')
    dep = cs.find_compartment('DEPOT') if 'DEPOT' in cs.compartment_names else None
    dosing = dep if dep is not None else cen
    for c in (cen, dep):
        if c is not None and (c.lag_time != 0 or c.bioavailability != 1 or c.input != 0):
            return None
    if len(dosing.doses) != 1 or not isinstance(dosing.doses[0], Bolus) or (dep is not None and cen.doses):
        return None
    ke = cs.get_flow(cen, output)
    ka = cs.get_flow(dep, cen) if dep is not None else None
    if dep is not None and (cs.get_flow(cen, dep) != 0 or cs.get_flow(dep, output) != 0):
        return None
    solved = solve_ode_system(model)
    if solved.statements.ode_system is not None:
        return None
    names = ct.Names()
    after = stms_term(solved.statements, names)
    t = str(cs.t)
    rvn = set(model.random_variables.names)
    term_ke, term_ka = cexpr(ke, names), (ct.opt(cexpr(ka, names)) if ka is not None else 'None')
    dose, tt = names.p(str(opaque(dosing.doses[0].amount))), names.p(t)
    ac = names.p('A_CENTRAL(t)')
    ad = ct.opt(names.p('A_DEPOT(t)')) if dep is not None else 'None'
    allnames = [names.name(i) for i in range(1, names.next)]
    pts = []
    for _ in range(16):
        pt = {n: (prng.choice([F(0), F(1), F(-1)]) if n in rvn else prng.choice([F(1), F(2), F(1, 2), F(4)]))
              for n in allnames if '(' not in n}
        pt[t] = prng.choice([F(4), F(8), F(2)])
        pts.append(pt)
    return (f"(mkO {after}\n  {term_ke} {term_ka} {dose} {tt} {ac} {ad}\n  "
            + ct.lst([sc.env(pt, names) for pt in pts]) + ")")


def ode_oracle(ctx, n):
    import pharmpy.modeling as pm
    prng = random.Random(f'{ctx.seed}-ode-pts')
    cdir = corpus_dir(ctx)
    starts, steps = corpus_starts(cdir), corpus_steps()
    keep = ['set_first_order_absorption', 'set_proportional_error_model', 'set_additive_error_model',
            'set_combined_error_model', 'add_covariate_effect_CL_WGT_pow', 'add_covariate_effect_CL_WGT_lin',
            'fix_first_theta', 'create_joint_distribution_2', 'mu_reference_model', 'make_declarative', 'set_iiv_on_ruv']
    hs = [(s, []) for s in ('pheno', 'basic_iv', 'basic_oral', 'pheno_le5')] + [('pheno', ['set_first_order_absorption'])]
    for _ in range(n):
        hs.append((ctx.rng.choice(['pheno', 'basic_iv', 'basic_oral', 'pheno_ge7']),
                   [ctx.rng.choice(keep) for _ in range(ctx.rng.choice([1, 2]))]))
    terms, kept = [], []
    stats = {'models': 0, 'not_eligible': 0, 'raised': {}, 'inconclusive': 0, 'points_compared': 0, 'oral': 0}
    for s, hist in hs:
        m = starts[s]()
        for st in hist:
            try:
                m = steps[st](m)
            except Exception:
                pass
        try:
            term = observe_ode(m, prng)
        except sc.Unconvertible:
            continue
        except Exception as e:
            stats['raised'][type(e).__name__] = stats['raised'].get(type(e).__name__, 0) + 1
            continue
        if term is None:
            stats['not_eligible'] += 1
            continue
        terms.append(term)
        kept.append({'start': s, 'history': hist})
        stats['oral'] += 1 if '(Some' in term.split('\n')[1] else 0
    verdicts = ctx.run_cases('ode', IMPORTS, 'ocase', terms, 'verdict_ode', shard=12)
    for h, v in zip(kept, verdicts):
        stats['models'] += 1
        stats['points_compared'] += sum(t - 2000 for t in v if t >= 2000)
        stats['inconclusive'] += 1 if 1080 in v else 0
        for t, what in ((80, 'solve_ode_system: A_CENTRAL(t) differs from the documented closed form'),
                        (81, 'solve_ode_system: A_DEPOT(t) differs from the documented closed form')):
            if t in v:
                ctx.violation(what, {'ode_model': h, 'tags': v})
    ctx.coverage['closed_form_oracle'] = stats
    return len(kept)


# ------------------------------------------------------------------ component level: convert_model round trip (tags 70-79),
#                                                                    split / create_joint_distribution (tags 90-97)
def pmodel_term(m, names):
    params = ct.lst([ct.tup(names.p(p.name), ct.q(F(str(p.init))), ct.boolean(p.fix)) for p in m.parameters])
    return ("(mkPM " + stms_term(m.statements, names) + "\n    " + params + "\n    "
            + ct.lst([rdist_term(d, names) for d in m.random_variables]) + " "
            + ct.lst([names.p(str(opaque(y))) for y in m.dependent_variables]) + " "
            + ct.pos({'PREDICTION': 1, 'LIKELIHOOD': 2, '-2LL': 3}.get(m.value_type, 4)) + ")")


def _obs_pm(thunk, names, refusal=(ValueError, NotImplementedError)):
    try:
        r = thunk()
    except refusal:
        return 'OValueError', None
    except sc.Unconvertible:
        raise
    except Exception as e:
        return 'OOther', f'{type(e).__name__}: {e}'[:160]
    return f'(OOk {pmodel_term(r, names)})', None


def _corpus_models(ctx, n, steps_allowed=None):
    cdir = corpus_dir(ctx)
    starts, steps = corpus_starts(cdir), corpus_steps()
    hs = [(s, []) for s in ('pheno', 'moxo', 'basic_iv', 'basic_oral', 'pheno_le5')]
    names = sorted(steps_allowed or steps)
    for _ in range(n):
        hs.append((ctx.rng.choice(['pheno', 'moxo', 'basic_iv', 'basic_oral', 'pheno_ne4']),
                   [ctx.rng.choice(names) for _ in range(ctx.rng.choice([1, 2]))]))
    for s, hist in hs:
        m = starts[s]()
        applied = []
        for st in hist:
            try:
                m = steps[st](m)
                applied.append(st)
            except Exception:
                pass
        yield {'start': s, 'history': applied}, m
    # a model whose value_type is not the default (convert_model must pass it on, commit 7115d86)
    yield {'start': 'pheno', 'history': ['value_type=LIKELIHOOD']}, starts['pheno']().replace(value_type='LIKELIHOOD')


def _points(names, rvn, prng, k=8):
    allnames = [names.name(i) for i in range(1, names.next)]
    return ct.lst([sc.env({n: (prng.choice(SMALL) if n in rvn else prng.choice(POW2)) for n in allnames
                           if n != '__UNDEF'}, names) for _ in range(k)])


def component_oracle(ctx, n):
    import pharmpy.modeling as pm
    prng = random.Random(f'{ctx.seed}-comp-pts')
    cterms, ckept, jterms, jkept = [], [], [], []
    stats = {'convert_models': 0, 'convert_back': 0, 'joint_models': 0, 'split_done': 0, 'create_done': 0,
             'create_refused': 0, 'errors': {}}
    for h, m in _corpus_models(ctx, n):
        try:
            names = ct.Names()
            before = pmodel_term(m, names)
            gen, err = _obs_pm(lambda: pm.convert_model(m, 'generic'), names)
            if m.dataset is not None:
                back, err2 = _obs_pm(lambda: pm.convert_model(pm.convert_model(m, 'generic'), 'nonmem'), names)
            else:
                back, err2 = 'OOther', None          # a NONMEM model may need the dataset: not attempted
            for e in (err, err2):
                if e:
                    stats['errors'][e[:60]] = stats['errors'].get(e[:60], 0) + 1
            cterms.append(f"(mkC {before}\n  {gen}\n  {back}\n  {_points(names, set(m.random_variables.names), prng)})")
            ckept.append(h)
            stats['convert_back'] += 1 if back.startswith('(OOk') else 0
            # split / create joint distribution on the IIV etas
            names = ct.Names()
            before = pmodel_term(m, names)
            iiv = list(m.random_variables.iiv.names)
            if len(iiv) >= 2:
                inds = ctx.rng.sample(iiv, ctx.rng.choice(range(2, len(iiv) + 1)))
                inds = [x for x in iiv if x in inds]
                spl, e1 = _obs_pm(lambda: pm.split_joint_distribution(m, inds), names)
                cre, e2 = _obs_pm(lambda: pm.create_joint_distribution(m, inds), names)
                for e in (e1, e2):
                    if e:
                        stats['errors'][e[:60]] = stats['errors'].get(e[:60], 0) + 1
                jterms.append(f"(mkJ {before}\n  {ct.lst([names.p(x) for x in inds])}\n  {spl}\n  {cre}\n  "
                              f"{_points(names, set(m.random_variables.names), prng)})")
                jkept.append(dict(h, inds=inds))
                stats['split_done'] += 1 if spl.startswith('(OOk') else 0
                stats['create_done'] += 1 if cre.startswith('(OOk') else 0
                stats['create_refused'] += 1 if cre == 'OValueError' else 0
        except (sc.Unconvertible, RecursionError):
            ctx.coverage['component_skipped'] = ctx.coverage.get('component_skipped', 0) + 1
    cv = ctx.run_cases('conv', IMPORTS, 'ccase', cterms, 'verdict_conv', shard=10)
    jv = ctx.run_cases('joint', IMPORTS, 'jcase', jterms, 'verdict_joint', shard=10)
    CT = {70: 'convert_model to generic changes the statements', 71: '... the parameters', 72: '... the random variables',
          73: '... the dependent variables', 170: 'convert_model to generic changes the value type', 175: 'convert_model generic -> '
          'nonmem changes the value type', 74: 'convert_model to generic raises',
          75: 'convert_model generic -> nonmem changes the statements', 76: '... the parameters',
          77: '... the random variables', 78: '... the dependent variables', 79: 'convert_model generic -> nonmem refuses'}
    JT = {90: 'split_joint_distribution: statements differ from model (must be untouched)',
          91: 'split_joint_distribution: parameters differ from model', 92: 'split_joint_distribution: random variables differ '
          'from model (unjoin)', 93: 'split_joint_distribution: dependent variables changed', 190: 'split_joint_distribution changes the value type', 94: 'split_joint_distribution raises',
          95: 'create_joint_distribution changes the statements', 96: 'create_joint_distribution changes dependent variables, rv '
          'names or loses a parameter', 97: 'create_joint_distribution raises an internal error'}
    for h, v in zip(ckept, cv):
        stats['convert_models'] += 1
        stats['roundtrip_adds_noop_statement'] = stats.get('roundtrip_adds_noop_statement', 0) + (1 if 2075 in v else 0)
        for t in v:
            if t in CT:
                ctx.violation('convert_model round trip: ' + CT[t], {'component_model': h, 'tags': v})
    for h, v in zip(jkept, jv):
        stats['joint_models'] += 1
        for t in v:
            if t in JT:
                ctx.violation(JT[t], {'component_model': h, 'tags': v})
    ctx.coverage['component_level'] = stats
    return len(ckept) + len(jkept)


def run(ctx):
    # the staging file known_findings.d/C07.json replaces entries of known_findings.json by id (as the maintainer's
    # merge does)
    byid = {}
    for f in ctx.findings:
        byid[f['id']] = f
    ctx.findings = list(byid.values())
    ctx.build_gate(['C07'])
    ctx.trusted += [
        'harness/lib/sym2coq.py + coqterm.py (conversion of real sympy trees to Gallina terms); applied functions '
        'A_x(t) exported as opaque symbols',
        'harness/props/c07.py generator, model builder, export of compartmental systems as the ordered list of their '
        'expressions, classification',
        'Base/Interp.v exact interpretation of exp/log/sqrt/pow used only for comparing expressions by evaluation',
    ]
    ctx.assumptions += [
        'symengine/sympy substitution, piecewise_fold and canonicalisation are engines: statements are exported '
        'after the refactoring and compared by exact evaluation over Q at 8 points',
        'the ODE solver is an oracle: every amount is an arbitrary function of the values of the expressions the '
        'compartmental system is built from (rates, doses, lag times, bioavailabilities)',
    ]
    ctx.coverage['source_sha'] = source_sha('src/pharmpy/modeling/expressions.py', 'src/pharmpy/modeling/common.py',
                                            'src/pharmpy/modeling/parameters.py',
                                            'src/pharmpy/modeling/random_variables.py')
    finding_probes(ctx)
    reg = [p for p in sorted((VERIF / 'regress' / 'C07').glob('*.json')) if not p.name.startswith('mu-')]
    specs = [json.loads(p.read_text()) for p in reg]
    n = 240 if ctx.tier == 'quick' else 4000
    specs += [gen_spec(ctx.rng) for _ in range(n)]
    kept, verdicts, infos, stats = run_specs(ctx, specs, 'gen')
    ctx.coverage['evaluations'] = sum(i['nqueries'] for i in infos)
    distinct = {json.dumps(s['stmts']) for s, i in zip(kept, infos) if i['n'] >= 3}
    ctx.coverage['distinct_nontrivial'] = len(distinct)
    ctx.coverage['programs'] = len(kept)
    ctx.coverage['rule'] = ('random valid statement programs (3-15 statements; styles ssa/redefine/alias/mixed; '
                            'optional compartmental system with depot/lag/bioavailability; fixed thetas, zero-fixed '
                            'omegas, separate or joint etas) from VERIF_SEED, wrapped into a pharmpy Model; '
                            'non-trivial = at least three statements; distinct by statement text')
    ctx.coverage['case_status'] = stats
    ctx.coverage['input_distribution'] = {
        'length_hist': {str(k): sum(1 for i in infos if i['n'] == k) for k in sorted({i['n'] for i in infos})},
        'with_ode': sum(1 for s in kept if any(l == 'ODE' for l, _ in s['stmts'])),
        'with_fixed_theta': sum(1 for i in infos if i['fixed']),
        'with_nonrandom_rv': sum(1 for i in infos if i['nonrandom']),
        'rv_layout': {k: sum(1 for s in kept if s.get('rvs') == k) for k in ('sep', 'joint2', 'joint3', 'iov', 'iovfirst')},
        'impl_errors': {k: sum(1 for i in infos for e in i['errors'] if e == k)
                        for k in sorted({e for i in infos for e in i['errors']})},
        'guard_no_stale_capture_false': sum(1 for v in verdicts if 201 in v),
        'guard_rename_not_injective': sum(1 for v in verdicts for t in v if t == 203),
        'guard_inline_false': sum(1 for v in verdicts if 204 in v),
        'dv_is_alias': sum(1 for s in kept if re.fullmatch(r'[A-Za-z_]\w*', [r for l, r in s['stmts'] if l == 'Y'][-1])),
        'dv_assigned_twice': sum(1 for s in kept if sum(1 for l, _ in s['stmts'] if l == 'Y') > 1),
        'alias_chains': sum(1 for s in kept if _has_alias_chain(s)),
        'shadowing_programs': sum(1 for v in verdicts if 208 in v),
        'fixed_variance_parameter': sum(1 for s in kept if any(k[:2] in ('OM', 'SI') and v != 0 for k, v in s.get('fix', {}).items())),
        'strictly_valid_programs': sum(1 for v in verdicts if 211 not in v),
        'family': {k: sum(1 for s in kept if s.get('family') == k) for k in ('tr', 'pw')},
        'reassigning_programs': sum(1 for s in kept if len({l for l, _ in s['stmts']}) < len(s['stmts'])),
    }
    ctx.coverage['samples'] = [{'spec': s, 'tags': v} for s, v in list(zip(kept, verdicts))[:4]]
    ncorp = corpus_oracle(ctx, 25 if ctx.tier == 'quick' else 400)
    ctx.coverage['evaluations'] += ncorp
    ctx.coverage['evaluations'] += gradient_oracle(ctx, 60 if ctx.tier == 'quick' else 600)
    mspecs, _ = mu_oracle(ctx, 120 if ctx.tier == 'quick' else 1000)
    ctx.coverage['evaluations'] += greek_oracle(ctx, 20 if ctx.tier == 'quick' else 200)
    ctx.coverage['evaluations'] += component_oracle(ctx, 12 if ctx.tier == 'quick' else 150)
    ctx.coverage['evaluations'] += ode_oracle(ctx, 8 if ctx.tier == 'quick' else 80)
    ctx.coverage['evaluations'] += len(mspecs)


def replay(ctx, rep):
    if 'corpus' in rep:
        prng = random.Random(f'{ctx.seed}-corpus-pts')
        term, info = observe_pair(rep['corpus'], prng, corpus_dir(ctx))
        print('corpus', json.dumps(rep['corpus']), {k: v for k, v in info.items() if k != 'reparse'})
        if term is None:
            return 1
        if rep.get('reparse'):
            term = info['reparse']
        tags = ctx.run_cases('replay', IMPORTS, 'pcase', [term], 'verdict_pair')[0]
        print('tags', tags, [OTAGS.get(t, t) for t in tags])
        return 1 if any(t in OTAGS for t in tags) else 0
    if 'mu_spec' in rep:
        term, info = observe_mu(rep['mu_spec'], random.Random('r'))
        tags = ctx.run_cases('replay', MU_IMPORTS, 'mcase', [term], 'verdict_mu')[0]
        print('mu_spec', json.dumps(rep['mu_spec']), 'tags', tags, [MTAGS.get(t, t) for t in tags])
        return 1 if {50, 51, 52, 53, 54} & set(tags) else 0
    if 'grad_spec' in rep:
        tags = ctx.run_cases('replay', IMPORTS, 'gcase', [observe_grad(rep['grad_spec'], random.Random('r'))],
                             'verdict_grad')[0]
        print('grad_spec', json.dumps(rep['grad_spec']), 'tags', tags)
        return 1 if {41, 42, 43, 44} & set(tags) else 0
    spec = rep['spec']
    kept, verdicts, _, _ = run_specs(ctx, [spec], 'replay', quiet=True)
    tags = verdicts[0]
    print('spec', json.dumps(spec))
    print('tags', tags, [TAGS.get(t, t) for t in tags])
    return 1 if any(t in ORACLE or t in CORR for t in tags) else 0
