"""Reference reader of NM-TRAN abbreviated code for C02 (part of the trusted tie; written from the
NM-TRAN documentation, independent of pharmpy's lark grammar).

  parse_code(text)      -> list of statements of $PK / $PRED / $ERROR / $DES text
  split_records(text)   -> [(record name, raw text)] of a control stream
  term(stmts, names)    -> Gallina term  list nmstmt   (PV.C02.Model)

AST (Python tuples)
  expression : ('num', Fraction) | ('sym', NAME) | ('fn', NAME, [args]) | ('add'|'sub'|'mul'|'div'|'pow', a, b)
               | ('neg', a)
  condition  : ('rel', OP, a, b) | ('and', a, b) | ('or', a, b) | ('not', a)
  statement  : ('assign', NAME, e) | ('if', c, NAME, e)
               | ('block', [(c, [simple...]), ...], None | [simple...])
Fortran rules: ** binds tighter than unary minus and is right associative; * / left associative;
+ - left associative; relational operators bind looser than arithmetic; .NOT. > .AND. > .OR.;
names are case insensitive (upper-cased); THETA(i), ETA(i), EPS(i)/ERR(i), A(i), DADT(i), A_0(i),
OMEGA(i,j), SIGMA(i,j) are subscripted variables and become symbols with that spelling.
Anything else (DO WHILE, CALL, EXIT, verbatim code, nested blocks) raises Unsupported.
"""
import re
from fractions import Fraction

from harness.lib import coqterm as ct


class Unsupported(Exception):
    pass


class ParseError(Exception):
    pass


SUBSCRIPTED = {'THETA', 'ETA', 'EPS', 'ERR', 'A', 'DADT', 'A_0', 'OMEGA', 'SIGMA', 'A_INITIAL'}
# NM-TRAN function name -> (function id of Base/Interp.v, arity)
FUNCS = {
    'EXP': (1, 1), 'LOG': (2, 1), 'SQRT': (3, 1), 'ABS': (4, 1), 'FLOOR': (6, 1), 'MOD': (8, 2),
    'SIN': (9, 1), 'COS': (10, 1), 'TAN': (11, 1), 'ASIN': (12, 1), 'ACOS': (13, 1), 'ATAN': (14, 1),
    'INT': (15, 1), 'GAMMA': (16, 1), 'MAX': (17, 2), 'MIN': (18, 2), 'CEILING': (19, 1),
    # functions without an exact interpretation: evaluation is undefined, points are skipped
    'LOG10': (30, 1), 'GAMLN': (31, 1), 'LOGGAMMA': (31, 1), 'PHI': (32, 1), 'SIGN': (33, 1),
    'PEXP': (34, 1), 'PLOG': (35, 1), 'PSQRT': (36, 1), 'PLOG10': (37, 1),
    'PDZ': (38, 1), 'PZR': (39, 1), 'PNP': (40, 1), 'PHE': (41, 1), 'PNG': (42, 1),
}
RELOPS = {'.EQ.': 'OEq', '.NE.': 'ONe', '.LT.': 'OLt', '.LE.': 'OLe', '.GT.': 'OGt', '.GE.': 'OGe',
          '==': 'OEq', '/=': 'ONe', '<': 'OLt', '<=': 'OLe', '>': 'OGt', '>=': 'OGe',
          '.EQN.': 'OEq', '.NEN.': 'ONe'}

TOKEN_RE = re.compile(r'''
    (?P<num>(?:\d+\.?\d*|\.\d+)(?:[EeDd][+-]?\d+)?)
  | (?P<dotop>\.(?:EQN|NEN|EQ|NE|LT|LE|GT|GE|AND|OR|NOT)\.)
  | (?P<name>[A-Za-z_][A-Za-z0-9_]*)
  | (?P<op>\*\*|==|/=|<=|>=|[-+*/()<>,=])
  | (?P<ws>[ \t]+)
''', re.X | re.I)


def tokenize(line):
    toks = []
    i = 0
    # a number directly followed by a dotted operator: '5.EQ.' must not eat the dot as a decimal point
    while i < len(line):
        m = TOKEN_RE.match(line, i)
        if not m:
            raise ParseError(f'bad character {line[i]!r} in {line!r}')
        kind = m.lastgroup
        text = m.group(0)
        if kind == 'num':
            # "0.AND." / "5.EQ.3": the dot belongs to the operator when letters follow it
            m2 = re.match(r'(\d+)\.(?=(?:EQN|NEN|EQ|NE|LT|LE|GT|GE|AND|OR|NOT)\.)', line[i:], re.I)
            if m2:
                text = m2.group(1)
                toks.append(('num', text))
                i += len(text)
                continue
        if kind != 'ws':
            toks.append((kind, text.upper() if kind in ('name', 'dotop') else text))
        i = m.end()
    return toks


def number(text):
    t = text.upper().replace('D', 'E')
    if re.fullmatch(r'\d+', t):
        return Fraction(int(t))
    # the double NONMEM reads
    return Fraction(float(t))


class P:
    def __init__(self, toks):
        self.t = toks
        self.i = 0

    def peek(self):
        return self.t[self.i] if self.i < len(self.t) else (None, None)

    def next(self):
        tok = self.peek()
        self.i += 1
        return tok

    def accept(self, text):
        if self.peek()[1] == text:
            self.i += 1
            return True
        return False

    def expect(self, text):
        if not self.accept(text):
            raise ParseError(f'expected {text!r} at {self.t[self.i:self.i + 3]}')

    def at_end(self):
        return self.i >= len(self.t)

    # ---- arithmetic
    def expr(self):
        k, v = self.peek()
        if v == '-':
            self.next()
            left = ('neg', self.term())
        elif v == '+':
            self.next()
            left = self.term()
        else:
            left = self.term()
        while self.peek()[1] in ('+', '-'):
            op = self.next()[1]
            right = self.term()
            left = ('add' if op == '+' else 'sub', left, right)
        return left

    def term(self):
        left = self.factor()
        while self.peek()[1] in ('*', '/'):
            op = self.next()[1]
            right = self.factor()
            left = ('mul' if op == '*' else 'div', left, right)
        return left

    def factor(self):
        base = self.primary()
        if self.accept('**'):
            # right associative; a sign is allowed in the exponent (common extension)
            if self.peek()[1] == '-':
                self.next()
                ex = ('neg', self.factor())
            elif self.peek()[1] == '+':
                self.next()
                ex = self.factor()
            else:
                ex = self.factor()
            return ('pow', base, ex)
        return base

    def primary(self):
        k, v = self.next()
        if k == 'num':
            return ('num', number(v))
        if v == '(':
            e = self.expr()
            self.expect(')')
            return e
        if k == 'name':
            if self.peek()[1] == '(':
                self.next()
                args = [self.expr()]
                while self.accept(','):
                    args.append(self.expr())
                self.expect(')')
                if v in SUBSCRIPTED:
                    idx = []
                    for a in args:
                        if a[0] != 'num' or a[1].denominator != 1:
                            raise Unsupported(f'non-literal subscript of {v}')
                        idx.append(str(a[1].numerator))
                    name = 'EPS' if v == 'ERR' else v
                    return ('sym', f'{name}({",".join(idx)})')
                if v in FUNCS:
                    fid, ar = FUNCS[v]
                    if len(args) != ar:
                        raise ParseError(f'{v} takes {ar} argument(s), got {len(args)}')
                    return ('fn', v, args)
                raise Unsupported(f'unknown function {v}')
            return ('sym', v)
        raise ParseError(f'unexpected token {v!r}')

    # ---- logical
    def cond(self):
        left = self.cand()
        while self.peek()[1] == '.OR.':
            self.next()
            left = ('or', left, self.cand())
        return left

    def cand(self):
        left = self.cnot()
        while self.peek()[1] == '.AND.':
            self.next()
            left = ('and', left, self.cnot())
        return left

    def cnot(self):
        if self.peek()[1] == '.NOT.':
            self.next()
            return ('not', self.cnot())
        # parenthesised condition or a relation starting with a parenthesised arithmetic expression
        if self.peek()[1] == '(':
            save = self.i
            try:
                self.next()
                c = self.cond()
                self.expect(')')
                if self.peek()[1] not in RELOPS and self.peek()[1] not in ('+', '-', '*', '/', '**'):
                    return c
            except ParseError:
                pass
            self.i = save
        a = self.expr()
        k, v = self.next()
        if v not in RELOPS:
            raise ParseError(f'expected a relational operator, got {v!r}')
        b = self.expr()
        return ('rel', RELOPS[v], a, b)


def logical_lines(text):
    """Strip comments, join continuation lines, drop blanks; verbatim lines are unsupported."""
    out = []
    pending = ''
    for raw in text.split('\n'):
        line = raw.split(';', 1)[0].rstrip()
        if not line.strip():
            continue
        if line.lstrip().startswith('"'):
            raise Unsupported('verbatim code')
        if line.rstrip().endswith('&'):
            pending += line.rstrip()[:-1] + ' '
            continue
        out.append(pending + line)
        pending = ''
    if pending:
        out.append(pending)
    return out


def _split_if(toks):
    """toks of a line starting with IF ( ... ) : returns (condition tokens, rest tokens)."""
    assert toks[0][1] == 'IF' and toks[1][1] == '('
    depth = 0
    for j in range(1, len(toks)):
        if toks[j][1] == '(':
            depth += 1
        elif toks[j][1] == ')':
            depth -= 1
            if depth == 0:
                return toks[2:j], toks[j + 1:]
    raise ParseError('unbalanced IF condition')


def _assignment(toks):
    p = P(toks)
    k, v = p.next()
    if k != 'name':
        raise Unsupported(f'statement starting with {v!r}')
    name = v
    if p.peek()[1] == '(':
        p.next()
        k2, v2 = p.next()
        if k2 != 'num' or name not in SUBSCRIPTED:
            raise Unsupported(f'assignment to {name}(...)')
        idx = [v2]
        while p.accept(','):
            idx.append(p.next()[1])
        p.expect(')')
        name = f'{name}({",".join(idx)})'
    if not p.accept('='):
        raise Unsupported(f'not an assignment: {name}')
    e = p.expr()
    if not p.at_end():
        raise ParseError(f'trailing tokens {p.t[p.i:]}')
    return name, e


def _cond(toks):
    p = P(toks)
    c = p.cond()
    if not p.at_end():
        raise ParseError(f'trailing tokens in condition {p.t[p.i:]}')
    return c


def parse_code(text):
    lines = logical_lines(text)
    stmts = []
    i = 0

    def simple(toks):
        if toks[0][1] == 'IF' and len(toks) > 1 and toks[1][1] == '(':
            ctoks, rest = _split_if(toks)
            if not rest or rest[0][1] == 'THEN':
                raise Unsupported('nested block IF')
            x, e = _assignment(rest)
            return ('if', _cond(ctoks), x, e)
        x, e = _assignment(toks)
        return ('assign', x, e)

    while i < len(lines):
        toks = tokenize(lines[i])
        i += 1
        if not toks:
            continue
        head = toks[0][1]
        if head == 'IF' and len(toks) > 1 and toks[1][1] == '(':
            ctoks, rest = _split_if(toks)
            if len(rest) == 1 and rest[0][1] == 'THEN':
                branches = [(_cond(ctoks), [])]
                els = None
                cur = branches[0][1]
                while True:
                    if i >= len(lines):
                        raise ParseError('missing ENDIF')
                    t2 = tokenize(lines[i])
                    i += 1
                    if not t2:
                        continue
                    h = [v for _, v in t2]
                    if h == ['ENDIF'] or h == ['END', 'IF']:
                        break
                    if h[0] == 'ELSEIF' or h[:2] == ['ELSE', 'IF']:
                        if els is not None:
                            raise ParseError('ELSE IF after ELSE')
                        k = 1 if h[0] == 'ELSEIF' else 2
                        c2, rest2 = _split_if([('name', 'IF')] + t2[k:])
                        if [v for _, v in rest2] != ['THEN']:
                            raise ParseError('ELSE IF without THEN')
                        branches.append((_cond(c2), []))
                        cur = branches[-1][1]
                        continue
                    if h == ['ELSE']:
                        if els is not None:
                            raise ParseError('two ELSE')
                        els = []
                        cur = els
                        continue
                    cur.append(simple(t2))
                stmts.append(('block', branches, els))
            else:
                stmts.append(simple(toks))
        elif head in ('DO', 'DOWHILE', 'ENDDO', 'CALL', 'EXIT', 'RETURN', 'WRITE', 'PRINT', 'OPEN', 'CLOSE',
                      'REWIND', 'COMRES', 'COMSAV'):
            raise Unsupported(head)
        elif head in ('ELSE', 'ELSEIF', 'ENDIF', 'END', 'THEN'):
            raise ParseError(f'{head} outside a block IF')
        else:
            stmts.append(simple(toks))
    return stmts


# ------------------------------------------------------------------ control stream level
def split_records(text):
    recs = []
    cur = None
    for line in text.split('\n'):
        m = re.match(r'\s*\$([A-Za-z]+)(.*)', line)
        if m:
            cur = [m.group(1).upper(), m.group(2) + '\n']
            recs.append(cur)
        elif cur is not None:
            cur[1] += line + '\n'
    return [(n, t) for n, t in recs]


def record_kind(name):
    """NM-TRAN record names may be abbreviated to their first three (or more) letters."""
    if name == 'PK':
        return 'PK'
    for full in ('PROBLEM', 'INPUT', 'DATA', 'SUBROUTINES', 'MODEL', 'ABBREVIATED', 'PRED', 'ERROR', 'DES',
                 'THETA', 'OMEGA', 'SIGMA', 'ESTIMATION', 'COVARIANCE', 'TABLE', 'SIZES', 'SIMULATION', 'ETAS',
                 'MIX', 'AES', 'AESINITIAL', 'INFN', 'TOL', 'DESIGN', 'ESTIMATE', 'ESTM'):
        if len(name) >= 3 and full.startswith(name):
            return 'ESTIMATION' if full in ('ESTIMATE', 'ESTM') else full
    return name


def abbr_replace_map(records):
    m = {}
    for n, t in records:
        if record_kind(n) == 'ABBREVIATED':
            for a, b in re.findall(r'REPLACE\s+([A-Za-z_][A-Za-z0-9_]*)\s*=\s*([A-Za-z]+\(\s*\d+\s*\))', t, re.I):
                m[a.upper()] = b.upper().replace(' ', '')
    return m


def rename(stmts, m):
    def e_(e):
        k = e[0]
        if k == 'sym':
            return ('sym', m.get(e[1], e[1]))
        if k == 'num':
            return e
        if k == 'fn':
            return ('fn', e[1], [e_(a) for a in e[2]])
        if k == 'neg':
            return ('neg', e_(e[1]))
        return (k, e_(e[1]), e_(e[2]))

    def c_(c):
        k = c[0]
        if k == 'rel':
            return ('rel', c[1], e_(c[2]), e_(c[3]))
        if k == 'not':
            return ('not', c_(c[1]))
        return (k, c_(c[1]), c_(c[2]))

    def s_(s):
        if s[0] == 'assign':
            return ('assign', m.get(s[1], s[1]), e_(s[2]))
        return ('if', c_(s[1]), m.get(s[2], s[2]), e_(s[3]))

    out = []
    for s in stmts:
        if s[0] == 'block':
            out.append(('block', [(c_(c), [s_(x) for x in body]) for c, body in s[1]],
                        None if s[2] is None else [s_(x) for x in s[2]]))
        else:
            out.append(s_(s))
    return out


def assigned(stmts):
    out = []
    for s in stmts:
        if s[0] == 'block':
            for _, body in s[1]:
                out += [x[1] if x[0] == 'assign' else x[2] for x in body]
            if s[2]:
                out += [x[1] if x[0] == 'assign' else x[2] for x in s[2]]
        else:
            out.append(s[1] if s[0] == 'assign' else s[2])
    seen, res = set(), []
    for x in out:
        if x not in seen:
            seen.add(x)
            res.append(x)
    return res


def symbols(stmts):
    acc = set()

    def e_(e):
        k = e[0]
        if k == 'sym':
            acc.add(e[1])
        elif k == 'fn':
            for a in e[2]:
                e_(a)
        elif k == 'neg':
            e_(e[1])
        elif k != 'num':
            e_(e[1])
            e_(e[2])

    def c_(c):
        if c[0] == 'rel':
            e_(c[2])
            e_(c[3])
        elif c[0] == 'not':
            c_(c[1])
        else:
            c_(c[1])
            c_(c[2])

    def s_(s):
        if s[0] == 'assign':
            acc.add(s[1])
            e_(s[2])
        else:
            c_(s[1])
            acc.add(s[2])
            e_(s[3])

    for s in stmts:
        if s[0] == 'block':
            for c, body in s[1]:
                c_(c)
                for x in body:
                    s_(x)
            for x in (s[2] or []):
                s_(x)
        else:
            s_(s)
    return acc


# ------------------------------------------------------------------ Gallina terms
def e_term(e, names):
    k = e[0]
    if k == 'num':
        return f'(Num {ct.q(e[1])})'
    if k == 'sym':
        return f'(Sym {names.p(e[1])})'
    if k == 'neg':
        return f'(Neg {e_term(e[1], names)})'
    if k == 'fn':
        fid, ar = FUNCS[e[1]]
        args = [e_term(a, names) for a in e[2]]
        if ar == 1:
            return f'(Fn1 {fid}%positive {args[0]})'
        return f'(Fn2 {fid}%positive {args[0]} {args[1]})'
    a, b = e_term(e[1], names), e_term(e[2], names)
    if k == 'add':
        return f'(Add {a} {b})'
    if k == 'sub':
        return f'(Add {a} (Neg {b}))'
    if k == 'mul':
        return f'(Mul {a} {b})'
    if k == 'div':
        return f'(Div {a} {b})'
    if k == 'pow':
        return f'(Fn2 5%positive {a} {b})'
    raise AssertionError(k)


def c_term(c, names):
    k = c[0]
    if k == 'rel':
        return f'(CRel {c[1]} {e_term(c[2], names)} {e_term(c[3], names)})'
    if k == 'not':
        return f'(CNot {c_term(c[1], names)})'
    if k == 'and':
        return f'(CAnd {c_term(c[1], names)} {c_term(c[2], names)})'
    if k == 'or':
        return f'(COr {c_term(c[1], names)} {c_term(c[2], names)})'
    raise AssertionError(k)


def simple_term(s, names):
    if s[0] == 'assign':
        return f'(SAssign {names.p(s[1])} {e_term(s[2], names)})'
    return f'(SIf {c_term(s[1], names)} {names.p(s[2])} {e_term(s[3], names)})'


def stmt_term(s, names):
    if s[0] == 'block':
        brs = ct.lst([ct.pair(c_term(c, names), ct.lst([simple_term(x, names) for x in body])) for c, body in s[1]])
        els = 'None' if s[2] is None else f'(Some {ct.lst([simple_term(x, names) for x in s[2]])})'
        return f'(NBlock {brs} {els})'
    return f'(NS {simple_term(s, names)})'


def term(stmts, names):
    return ct.lst([stmt_term(s, names) for s in stmts])
