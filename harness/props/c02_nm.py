"""Tokenizer of NM-TRAN abbreviated code for C02 (the only Python-side part of the reference reader; the
grammar — operator precedence, IF blocks — is the Coq reader coq/theories/C02/Read.v).

  tokens(text, abbr)    -> list of tokens of $PK / $PRED / $ERROR / $DES text
  split_records(text)   -> [(record name, raw text)] of a control stream
  toks_term(toks, names)-> Gallina term  list tok  (PV.C02.Read)

Lexical work done here (trusted): comments (;...) and blank lines dropped, continuation lines (&) joined,
names upper-cased, numbers converted (integers exactly, decimals as the double NONMEM reads),
THETA(i) / ETA(i) / EPS(i)|ERR(i) / A(i) / DADT(i) / A_0(i) / OMEGA(i,j) / SIGMA(i,j) with literal
subscripts fused into one symbol, $ABBR REPLACE names substituted, function names mapped to the function
identifiers of Base/Interp.v, keywords IF THEN ELSE ELSEIF|ELSE IF ENDIF|END IF, operator spellings
(.GT. and >, ...), one KNl token per logical line.  Verbatim code, DO WHILE, CALL, EXIT ... raise
Unsupported (the case is skipped and counted).

token = ('num', Fraction) | ('sym', NAME) | ('fn', NAME) | ('op', one of + - * / ** ( ) ,) | ('rel', OP)
        | ('kw', one of AND OR NOT IF THEN ELSE ELSEIF ENDIF EQ NL)
"""
import re
from fractions import Fraction

from harness.lib import coqterm as ct


class Unsupported(Exception):
    pass


class ParseError(Exception):
    pass


SUBSCRIPTED = {'THETA', 'ETA', 'EPS', 'ERR', 'A', 'DADT', 'A_0', 'OMEGA', 'SIGMA', 'A_INITIAL'}
# NM-TRAN function name -> (function id of Base/Interp.v, arity)
FUNCS = {
    'EXP': (1, 1), 'LOG': (2, 1), 'SQRT': (3, 1), 'ABS': (4, 1), 'FLOOR': (6, 1), 'MOD': (8, 2),
    'SIN': (9, 1), 'COS': (10, 1), 'TAN': (11, 1), 'ASIN': (12, 1), 'ACOS': (13, 1), 'ATAN': (14, 1),
    'INT': (15, 1), 'GAMMA': (16, 1), 'MAX': (17, 2), 'MIN': (18, 2), 'CEILING': (19, 1),
    # functions without an exact interpretation: evaluation is undefined, points are skipped
    'LOG10': (30, 1), 'GAMLN': (31, 1), 'LOGGAMMA': (31, 1), 'PHI': (32, 1), 'SIGN': (33, 1),
    'PEXP': (34, 1), 'PLOG': (35, 1), 'PSQRT': (36, 1), 'PLOG10': (37, 1),
    'PDZ': (38, 1), 'PZR': (39, 1), 'PNP': (40, 1), 'PHE': (41, 1), 'PNG': (42, 1),
}
RELOPS = {'.EQ.': 'OEq', '.NE.': 'ONe', '.LT.': 'OLt', '.LE.': 'OLe', '.GT.': 'OGt', '.GE.': 'OGe',
          '==': 'OEq', '/=': 'ONe', '<': 'OLt', '<=': 'OLe', '>': 'OGt', '>=': 'OGe',
          '.EQN.': 'OEq', '.NEN.': 'ONe'}

TOKEN_RE = re.compile(r'''
    (?P<num>(?:\d+\.?\d*|\.\d+)(?:[EeDd][+-]?\d+)?)
  | (?P<dotop>\.(?:EQN|NEN|EQ|NE|LT|LE|GT|GE|AND|OR|NOT)\.)
  | (?P<name>[A-Za-z_][A-Za-z0-9_]*)
  | (?P<op>\*\*|==|/=|<=|>=|[-+*/()<>,=])
  | (?P<ws>[ \t]+)
''', re.X | re.I)


def tokenize(line):
    toks = []
    i = 0
    # a number directly followed by a dotted operator: '5.EQ.' must not eat the dot as a decimal point
    while i < len(line):
        m = TOKEN_RE.match(line, i)
        if not m:
            raise ParseError(f'bad character {line[i]!r} in {line!r}')
        kind = m.lastgroup
        text = m.group(0)
        if kind == 'num':
            # "0.AND." / "5.EQ.3": the dot belongs to the operator when letters follow it
            m2 = re.match(r'(\d+)\.(?=(?:EQN|NEN|EQ|NE|LT|LE|GT|GE|AND|OR|NOT)\.)', line[i:], re.I)
            if m2:
                text = m2.group(1)
                toks.append(('num', text))
                i += len(text)
                continue
        if kind != 'ws':
            toks.append((kind, text.upper() if kind in ('name', 'dotop') else text))
        i = m.end()
    return toks


def number(text):
    t = text.upper().replace('D', 'E')
    if re.fullmatch(r'\d+', t):
        return Fraction(int(t))
    # the double NONMEM reads
    return Fraction(float(t))


def logical_lines(text):
    """Strip comments, join continuation lines, drop blanks; verbatim lines are unsupported."""
    out = []
    pending = ''
    for raw in text.split('\n'):
        line = raw.split(';', 1)[0].rstrip()
        if not line.strip():
            continue
        if line.lstrip().startswith('"'):
            raise Unsupported('verbatim code')
        if line.rstrip().endswith('&'):
            pending += line.rstrip()[:-1] + ' '
            continue
        out.append(pending + line)
        pending = ''
    if pending:
        out.append(pending)
    return out



KW = {'IF', 'THEN', 'ELSE', 'ELSEIF', 'ENDIF'}
BAD_HEADS = {'DO', 'DOWHILE', 'ENDDO', 'CALL', 'EXIT', 'RETURN', 'WRITE', 'PRINT', 'OPEN', 'CLOSE', 'REWIND', 'COMRES', 'COMSAV'}


def tokens(text, abbr=None):
    """token list of a code record's text"""
    abbr = abbr or {}
    out = []
    for line in logical_lines(text):
        raw = tokenize(line)
        if not raw:
            continue
        if raw[0][1] in BAD_HEADS:
            raise Unsupported(raw[0][1])
        i = 0
        n = len(raw)
        while i < n:
            k, v = raw[i]
            nxt = raw[i + 1][1] if i + 1 < n else None
            if k == 'num':
                out.append(('num', number(v)))
            elif k == 'dotop':
                if v in RELOPS:
                    out.append(('rel', RELOPS[v]))
                else:
                    out.append(('kw', v.strip('.')))
            elif k == 'name':
                if v == 'ELSE' and nxt == 'IF':
                    out.append(('kw', 'ELSEIF'))
                    i += 1
                elif v == 'END' and nxt == 'IF':
                    out.append(('kw', 'ENDIF'))
                    i += 1
                elif v in KW:
                    out.append(('kw', v))
                elif nxt == '(' and v in SUBSCRIPTED:
                    j = i + 2
                    idx = []
                    while j < n and raw[j][1] != ')':
                        if raw[j][0] == 'num' and re.fullmatch(r'\d+', raw[j][1]):
                            idx.append(raw[j][1])
                        elif raw[j][1] != ',':
                            raise Unsupported(f'non-literal subscript of {v}')
                        j += 1
                    if j >= n:
                        raise ParseError('unbalanced subscript')
                    out.append(('sym', f"{'EPS' if v == 'ERR' else v}({','.join(idx)})"))
                    i = j
                elif nxt == '(':
                    if v not in FUNCS:
                        raise Unsupported(f'unknown function {v}')
                    out.append(('fn', v))
                else:
                    out.append(('sym', abbr.get(v, v)))
            else:
                if v in RELOPS:
                    out.append(('rel', RELOPS[v]))
                elif v == '=':
                    out.append(('kw', 'EQ'))
                else:
                    out.append(('op', v))
            i += 1
        out.append(('kw', 'NL'))
    return out


def assigned(toks):
    """names that stand left of an assignment sign (lexical scan: NAME = at line start or after IF (...))"""
    res = []
    for i in range(len(toks) - 1):
        if toks[i][0] == 'sym' and toks[i + 1] == ('kw', 'EQ') and toks[i][1] not in res:
            res.append(toks[i][1])
    return res


def symbols(toks):
    return {v for k, v in toks if k == 'sym'}


OPTOK = {'+': 'KPlus', '-': 'KMinus', '*': 'KTimes', '/': 'KDiv', '**': 'KPow', '(': 'KLp', ')': 'KRp', ',': 'KComma'}
KWTOK = {'AND': 'KAnd', 'OR': 'KOr', 'NOT': 'KNot', 'IF': 'KIf', 'THEN': 'KThen', 'ELSE': 'KElse', 'ELSEIF': 'KElseIf',
         'ENDIF': 'KEndIf', 'EQ': 'KEq', 'NL': 'KNl'}


def tok_term(t, names):
    k, v = t
    if k == 'num':
        return f'(KNum {ct.q(v)})'
    if k == 'sym':
        return f'(KSym {names.p(v)})'
    if k == 'fn':
        return f'(KFn {FUNCS[v][0]}%positive)'
    if k == 'op':
        return OPTOK[v]
    if k == 'rel':
        return f'(KRel {v})'
    return KWTOK[v]


def toks_term(toks, names):
    return ct.lst([tok_term(t, names) for t in toks])

# ------------------------------------------------------------------ control stream level
def split_records(text):
    recs = []
    cur = None
    for line in text.split('\n'):
        m = re.match(r'\s*\$([A-Za-z]+)(.*)', line)
        if m:
            cur = [m.group(1).upper(), m.group(2) + '\n']
            recs.append(cur)
        elif cur is not None:
            cur[1] += line + '\n'
    return [(n, t) for n, t in recs]


def record_kind(name):
    """NM-TRAN record names may be abbreviated to their first three (or more) letters."""
    if name == 'PK':
        return 'PK'
    for full in ('PROBLEM', 'INPUT', 'DATA', 'SUBROUTINES', 'MODEL', 'ABBREVIATED', 'PRED', 'ERROR', 'DES',
                 'THETA', 'OMEGA', 'SIGMA', 'ESTIMATION', 'COVARIANCE', 'TABLE', 'SIZES', 'SIMULATION', 'ETAS',
                 'MIX', 'AES', 'AESINITIAL', 'INFN', 'TOL', 'DESIGN', 'ESTIMATE', 'ESTM'):
        if len(name) >= 3 and full.startswith(name):
            return 'ESTIMATION' if full in ('ESTIMATE', 'ESTM') else full
    return name


def abbr_replace_map(records):
    m = {}
    for n, t in records:
        if record_kind(n) == 'ABBREVIATED':
            for a, b in re.findall(r'REPLACE\s+([A-Za-z_][A-Za-z0-9_]*)\s*=\s*([A-Za-z]+\(\s*\d+\s*\))', t, re.I):
                m[a.upper()] = b.upper().replace(' ', '')
    return m


