"""Reference WRITER of NONMEM output files for the C20 check, following /repo/docs/NONMEM.rst
("phi files / File format", "cov, cor and coi files") and the layout of genuine NONMEM 7 output:

  title line   TABLE NO. %5d: <method>[: <design optimality>]: [Goal Function=<gf>: ]Problem=.. Subproblem=.. ...
  label line   one space, every column name but the last left justified in 13 characters, the last name bare
  data line    every field right justified in 13 characters, the last (OBJ) field of ext/phi in 22 characters
  numbers      integer | scientific with 5 decimals and a 2 digit exponent (d.dddddE+dd) | plain decimal (OBJ)

No float formatting is used anywhere: a number is a (kind, sign, digits, exponent) tuple that is rendered
character by character, so the exact decimal value that was WRITTEN is known (see dec_fraction).
The same renderer exists in Gallina (C20/Model.v: render_wfile); the check compares the two texts inside Coq.

Number forms (JSON-able lists):
  ['i', neg, digits]                     integer, digits = string of decimal digits (no sign)
  ['e', neg, digits6, eneg, e2]          d.dddddE[+-]ee   digits6 = 6 digit string, e2 = 2 digit string
  ['f', neg, intdigits, fracdigits]      plain decimal    e.g. 587.36644134661617
  ['s', text]                            a bare token (labels of the NAME column of cov files)
  ['x', neg, digits6, eneg, e3]          d.ddddd[+-]eee   what Fortran prints for a three digit exponent
"""
from fractions import Fraction


def num_text(x):
    k = x[0]
    if k == 'i':
        return ('-' if x[1] else '') + x[2]
    if k == 'e':
        return ('-' if x[1] else '') + x[2][0] + '.' + x[2][1:] + 'E' + ('-' if x[3] else '+') + x[4]
    if k == 'f':
        return ('-' if x[1] else '') + x[2] + '.' + x[3]
    if k == 's':
        return x[1]
    if k == 'x':      # Fortran 1PE12.5 with a three digit exponent: the E is dropped (1.00000-100)
        return ('-' if x[1] else '') + x[2][0] + '.' + x[2][1:] + ('-' if x[3] else '+') + x[4]
    raise ValueError(x)


def dec_fraction(x):
    """The exact rational that the written text denotes."""
    k = x[0]
    if k == 'i':
        v = Fraction(int(x[2]))
    elif k == 'e':
        e = int(x[4]) * (-1 if x[3] else 1)
        v = Fraction(int(x[2])) * Fraction(10) ** (e - 5)
    elif k == 'f':
        v = Fraction(int(x[2] + x[3]), 10 ** len(x[3]))
    else:
        raise ValueError(x)
    return -v if x[1] else v


def rjust(s, w):
    return ' ' * max(0, w - len(s)) + s


def ljust(s, w):
    return s + ' ' * max(0, w - len(s))


def title_line(t):
    """t: dict(number, method, design (or None), goal (or None), ids = 6 ints)"""
    if t.get('short'):
        return 'TABLE NO. ' + rjust(str(t['number']), 5) + '\n'
    s = 'TABLE NO. ' + rjust(str(t['number']), 5) + ': ' + t['method']
    if t.get('design') is not None:
        s += ': ' + t['design']
    s += ': '
    if t.get('goal') is not None:
        s += 'Goal Function=' + t['goal'] + ': '
    p = t['ids']
    s += (f'Problem={p[0]} Subproblem={p[1]} Superproblem1={p[2]} Iteration1={p[3]} '
          f'Superproblem2={p[4]} Iteration2={p[5]}')
    return s + '\n'


def label_line(labels):
    return ' ' + ''.join(ljust(lab, 13) for lab in labels[:-1]) + labels[-1] + '\n'


def data_line(cells, lastwide):
    out = []
    for i, c in enumerate(cells):
        w = 22 if (lastwide and i == len(cells) - 1) else 13
        out.append(rjust(num_text(c), w))
    return ''.join(out) + '\n'


def render_table(t):
    """t: dict(title=dict or None, labels=[...], rows=[[num...]], lastwide=bool, repeat=int (repeat the label
    line before every `repeat`-th row, 0 = never)"""
    s = ''
    if t.get('title') is not None:
        s += title_line(t['title'])
    show = t.get('showlabels', True)
    if show:
        s += label_line(t['labels'])
    rep = t.get('repeat', 0) if show else 0
    for i, r in enumerate(t['rows']):
        if rep and i > 0 and i % rep == 0:
            s += label_line(t['labels'])
        s += data_line(r, t.get('lastwide', False))
    return s


def render_file(tables):
    return ''.join(render_table(t) for t in tables)
