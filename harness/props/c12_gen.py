"""C12 helper (own module of property C12): JSON-able specs -> real pharmpy objects.  Used by the
check process and by the worker processes that compute model keys under other PYTHONHASHSEED
values, so that a model is rebuilt from its spec in a fresh interpreter."""
import warnings

warnings.filterwarnings('ignore')

BASES = ['pheno', 'moxo', 'pheno_linear', 'basic_iv', 'basic_oral']

# transformation name -> list of argument tuples the generator may pick from (per base model)
OPS = {
    'set_peripheral_compartments': [(1,), (2,)],
    'add_peripheral_compartment': [()],
    'remove_peripheral_compartment': [()],
    'set_first_order_absorption': [()],
    'set_zero_order_absorption': [()],
    'set_bolus_absorption': [()],
    'set_seq_zo_fo_absorption': [()],
    'add_lag_time': [()],
    'remove_lag_time': [()],
    'set_transit_compartments': [(1,), (2,)],
    'create_joint_distribution': [(None,)],
    'split_joint_distribution': [(None,)],
    'add_iov': [('APGR',)],
    'remove_iov': [()],
    'fix_parameters': [(['POP_CL'],), (['TVCL'],), (['THETA_1'],)],
    'unfix_parameters': [(['POP_CL'],), (['TVCL'],)],
    'set_initial_estimates': [({'POP_CL': 0.01},), ({'TVCL': 0.5},), ({'POP_VC': 1.25},)],
    'set_lower_bounds': [({'POP_CL': 0.001},), ({'TVCL': 0.001},)],
    'set_upper_bounds': [({'POP_CL': 1.0},), ({'TVCL': 100.0},)],
    'unconstrain_parameters': [(['POP_CL'],), (['TVCL'],)],
    'add_estimation_step': [('IMP',), ('SAEM',), ('FO',)],
    'remove_estimation_step': [(0,)],
    'set_simulation': [()],
    'add_derivative': [()],
    'add_predictions': [(['IPRED'],), (['PRED', 'CIPREDI'],)],
    'add_residuals': [(['IWRES'],), (['CWRES'],)],
    'add_parameter_uncertainty_step': [('SMAT',), ('RMAT',)],
    'set_michaelis_menten_elimination': [()],
    'set_mixed_mm_fo_elimination': [()],
    'set_first_order_elimination': [()],
    'set_zero_order_elimination': [()],
    'set_proportional_error_model': [()],
    'set_additive_error_model': [()],
    'set_combined_error_model': [()],
    'add_covariate_effect': [('CL', 'WGT', 'exp'), ('VC', 'WGT', 'pow'), ('CL', 'APGR', 'cat')],
    'set_tmdd': [('full',), ('qss',)],
    'add_metabolite': [()],
    'add_effect_compartment': [('linear',)],
    'add_indirect_effect': [('linear',)],
    'add_population_parameter': [('NEWP', 2.0)],
    'add_individual_parameter': [('NEWI',)],
    'set_iiv_on_ruv': [()],
    'set_power_on_ruv': [()],
    'transform_etas_boxcox': [()],
    'set_ode_solver': [('LSODA',), ('CVODES',)],
    'add_bioavailability': [()],
    'add_admid': [()],
    'add_allometry': [('WGT', 70)],
    'remove_iiv': [(['ETA_CL'],), (None,)],
    'set_name': [('renamed',)],
    'set_description': [('some text',)],
    # pseudo operations implemented below
    'x_estimation_options': [({'NITER': 5, 'ISAMPLE': 20},), ({'opt': [1, 2], 'nested': {'a': 1.5}},)],
    'x_iie': [(2,), (3,)],
    'x_depvars': [(['Y', 'Z'],), (['Z', 'Y'],)],
    'x_move_path': [('/somewhere/else/data.csv',)],
    'x_dataset_cell': [(0, 'DV', 1.0), (3, 'TIME', 0.25)],
    'x_categories_dict': [('APGR',)],
    'x_reverse_nodes': [()],
    'x_param_int': [()],
    'x_value_type': [('LIKELIHOOD',), ('-2LL',)],
}

_cache = {}


def base_model(name):
    from pharmpy.modeling import create_basic_pk_model, load_example_model
    if name not in _cache:
        if name == 'basic_iv':
            m = create_basic_pk_model('iv')
        elif name == 'basic_oral':
            m = create_basic_pk_model('oral')
        else:
            m = load_example_model(name)
        _cache[name] = m
    m = _cache[name]
    # some transformations (add_admid, ...) write into model.dataset in place (a C06 matter): hand out a private
    # copy of the frame so that one case cannot change the data of the next
    if m.dataset is not None:
        m = m.replace(dataset=m.dataset.copy())
    return m


def apply_op(m, name, args):
    import pandas as pd

    import pharmpy.modeling as pm
    from pharmpy.basic import Expr
    from pharmpy.model import (CompartmentalSystem, CompartmentalSystemBuilder, Parameter, Parameters,
                               Statements)
    args = list(args)
    if name == 'create_joint_distribution':
        etas = [n for d in m.random_variables.etas for n in d.names][:2]
        return pm.create_joint_distribution(m, etas)
    if name == 'split_joint_distribution':
        return pm.split_joint_distribution(m)
    if name == 'remove_iiv' and args[0] is None:
        return pm.remove_iiv(m)
    if name == 'x_estimation_options':
        return pm.set_estimation_step(m, m.execution_steps[0].method, 0, tool_options=args[0])
    if name == 'x_iie':
        etas = [n for d in m.random_variables.etas for n in d.names][:2]
        df = pd.DataFrame({e: [0.125 * (i + 1) * (k + 1) for i in range(args[0])] for k, e in enumerate(etas)},
                          index=list(range(1, args[0] + 1)))
        return m.replace(initial_individual_estimates=df)
    if name == 'x_depvars':
        y = list(m.dependent_variables.keys())[0]
        dv = {}
        for i, n in enumerate(args[0]):
            s = y if n == 'Y' else Expr.symbol(n)
            dv[s] = 1 if n == 'Y' else 2
        return m.replace(dependent_variables=dv)
    if name == 'x_value_type':
        return m.replace(value_type=args[0])
    if name == 'x_move_path':
        return m.replace(datainfo=m.datainfo.replace(path=args[0]))
    if name == 'x_dataset_cell':
        row, col, val = args
        m = pm.load_dataset(m) if m.dataset is None else m
        df = m.dataset.copy()
        df.loc[df.index[row], col] = df.loc[df.index[row], col] + val
        return m.replace(dataset=df)
    if name == 'x_categories_dict':
        di = m.datainfo
        col = di[args[0]]
        col = col.replace(categories={int(c): f'level{c}' for c in col.categories})
        return m.replace(datainfo=di.set_column(col))
    if name == 'x_reverse_nodes':
        # the same system entered into a fresh builder in the opposite compartment order
        ode = m.statements.ode_system
        from pharmpy.model.statements import Output
        cb = CompartmentalSystemBuilder()
        comps = [n for n in ode._g.nodes if not isinstance(n, Output)]
        for c in reversed(comps):
            cb.add_compartment(c)
        for u, v, rate in reversed(list(ode._g.edges.data('rate'))):
            cb.add_flow(u, v, rate)
        new = CompartmentalSystem(cb, t=ode.t)
        return m.replace(statements=m.statements.before_odes + new + m.statements.after_odes)
    if name == 'x_param_int':
        # the non-validating constructor keeps an int where create() would store a float
        ps = list(m.parameters)
        p = ps[0]
        ps[0] = Parameter(p.name, 1, p.lower, p.upper, p.fix) if p.lower <= 1 <= p.upper else p
        return m.replace(parameters=Parameters(tuple(ps)))
    return getattr(pm, name)(m, *args)


def build_model(spec):
    m = base_model(spec['base'])
    for name, args in spec.get('ops', []):
        m = apply_op(m, name, args)
    return m


# ---------------------------------------------------------------- synthetic components
def build_component(spec):
    """spec: {'kind': ..., ...} built by the generator in c12.py from plain data."""
    from pharmpy.basic import Expr
    from pharmpy.model import (Assignment, Bolus, ColumnInfo, Compartment, CompartmentalSystem,
                               CompartmentalSystemBuilder, DataInfo, EstimationStep, ExecutionSteps,
                               Infusion, JointNormalDistribution, NormalDistribution, Parameter, Parameters,
                               RandomVariables, SimulationStep, Statements, output)
    import sympy
    k = spec['kind']

    def E(s):
        # names that sympy's parser would read as its own objects are symbols here
        loc = {n: sympy.Symbol(n) for n in ('Q', 'S', 'N', 'E', 'I', 'O', 'F', 'V', 'CL', 'KA')}
        return Expr(sympy.sympify(s, locals=loc))

    def flt(x):
        return float(x) if isinstance(x, str) else x

    if k == 'parameter':
        if spec.get('raw'):
            return Parameter(spec['name'], flt(spec['init']), flt(spec['lower']), flt(spec['upper']), spec['fix'])
        return Parameter.create(spec['name'], flt(spec['init']), flt(spec['lower']), flt(spec['upper']), spec['fix'])
    if k == 'parameters':
        return Parameters(tuple(build_component(p) for p in spec['items']))
    if k == 'dist':
        if 'names' in spec:
            return JointNormalDistribution.create(spec['names'], spec['level'], spec['mean'],
                                                  [[E(x) for x in row] for row in spec['variance']])
        return NormalDistribution.create(spec['name'], spec['level'], E(spec['mean']), E(spec['variance']))
    if k == 'rvs':
        return RandomVariables.create([build_component(d) for d in spec['items']])
    if k == 'assignment':
        if spec.get('symengine'):
            return Assignment.create(spec['symbol'], Expr(spec['expression']))
        return Assignment.create(spec['symbol'], E(spec['expression']))
    if k == 'dose':
        if spec['class'] == 'Bolus':
            return Bolus.create(spec['amount'], admid=spec['admid'])
        return Infusion.create(spec['amount'], admid=spec['admid'], rate=spec.get('rate'), duration=spec.get('duration'))
    if k == 'compartment':
        return Compartment.create(spec['name'], doses=tuple(build_component(d) for d in spec.get('doses', [])),
                                  input=E(spec.get('input', '0')), lag_time=E(spec.get('lag_time', '0')),
                                  bioavailability=E(spec.get('bioavailability', '1')))
    if k == 'csys':
        cb = CompartmentalSystemBuilder()
        comps = {}
        for op in spec['ops']:
            if op[0] == 'add':
                c = build_component(op[1])
                comps[op[1]['name']] = c
                cb.add_compartment(c)
            elif op[0] == 'flow':
                dst = output if op[2] == 'OUTPUT' else comps[op[2]]
                cb.add_flow(comps[op[1]], dst, E(op[3]))
            elif op[0] == 'remove_flow':
                dst = output if op[2] == 'OUTPUT' else comps[op[2]]
                cb.remove_flow(comps[op[1]], dst)
            elif op[0] == 'set_dose':
                comps[op[1]] = cb.set_dose(comps[op[1]], build_component(op[2]))
            elif op[0] == 'set_lag':
                comps[op[1]] = cb.set_lag_time(comps[op[1]], E(op[2]))
            elif op[0] == 'set_bio':
                comps[op[1]] = cb.set_bioavailability(comps[op[1]], E(op[2]))
            elif op[0] == 'remove':
                cb.remove_compartment(comps.pop(op[1]))
            else:
                raise ValueError(op[0])
        return CompartmentalSystem(cb, t=Expr.symbol(spec.get('t', 't')))
    if k == 'statements':
        return Statements(tuple(build_component(s) for s in spec['items']))
    if k == 'step':
        if spec['class'] == 'sim':
            return SimulationStep.create(n=spec['n'], seed=spec['seed'], solver=spec.get('solver'),
                                         tool_options=spec.get('tool_options', {}))
        derivs = tuple(tuple(Expr.symbol(s) for s in d) for d in spec.get('derivatives', []))
        return EstimationStep.create(
            spec['method'], interaction=spec.get('interaction', False),
            parameter_uncertainty_method=spec.get('pum'), evaluation=spec.get('evaluation', False),
            maximum_evaluations=spec.get('maxeval'), laplace=spec.get('laplace', False), isample=spec.get('isample'),
            niter=spec.get('niter'), auto=spec.get('auto'), keep_every_nth_iter=spec.get('keep'),
            residuals=spec.get('residuals', ()), predictions=spec.get('predictions', ()), solver=spec.get('solver'),
            solver_rtol=spec.get('rtol'), solver_atol=spec.get('atol'), tool_options=spec.get('tool_options', {}),
            derivatives=derivs, individual_eta_samples=spec.get('ies', False))
    if k == 'steps':
        return ExecutionSteps(tuple(build_component(s) for s in spec['items']))
    if k == 'column':
        cats = spec.get('categories')
        if isinstance(cats, dict):
            cats = {(int(a) if spec.get('int_keys') else a): b for a, b in cats.items()}
        elif isinstance(cats, list):
            cats = tuple(cats)
        return ColumnInfo.create(spec['name'], type=spec.get('type', 'unknown'), unit=spec.get('unit', '1'),
                                 scale=spec.get('scale', 'ratio'), continuous=spec.get('continuous'),
                                 categories=cats, drop=spec.get('drop', False),
                                 datatype=spec.get('datatype', 'float64'), descriptor=spec.get('descriptor'))
    if k == 'datainfo':
        return DataInfo.create([build_component(c) for c in spec['items']], path=spec.get('path'),
                               separator=spec.get('separator', ','))
    if k == 'model':
        return build_model(spec)
    raise ValueError(k)


CLASSES = {
    'parameter': 'Parameter', 'parameters': 'Parameters', 'rvs': 'RandomVariables', 'assignment': 'Assignment',
    'compartment': 'Compartment', 'csys': 'CompartmentalSystem', 'statements': 'Statements',
    'steps': 'ExecutionSteps', 'column': 'ColumnInfo', 'datainfo': 'DataInfo', 'model': 'Model',
}


def from_dict_of(kind, x):
    """The from_dict that reads back objects of x's class (the dispatching ones for the unions)."""
    import pharmpy.model as pmod
    from pharmpy.model import (Bolus, EstimationStep, Infusion, JointNormalDistribution, NormalDistribution,
                               SimulationStep)
    if kind == 'dist':
        return NormalDistribution.from_dict if isinstance(x, NormalDistribution) else JointNormalDistribution.from_dict
    if kind == 'dose':
        return Bolus.from_dict if isinstance(x, Bolus) else Infusion.from_dict
    if kind == 'step':
        return EstimationStep.from_dict if isinstance(x, EstimationStep) else SimulationStep.from_dict
    return getattr(pmod, CLASSES[kind]).from_dict


def build_frame(spec):
    """spec: {'columns': [..], 'dtypes': [..], 'rows': [[..]], 'index': {'range': [a, b, c]} | {'labels': [..]},
    'how': 'dict' | 'records', 'attrs': bool, 'columns_name': str | None, 'index_name': str | None}.
    Floats are given as hex strings (float.hex) so that -0.0 and NaN survive the JSON spec."""
    import numpy as np
    import pandas as pd

    def cell(v, dt):
        if dt.startswith('float'):
            return float.fromhex(v)
        return v
    cols, dts = spec['columns'], spec['dtypes']
    rows = [[cell(v, dt) for v, dt in zip(r, dts)] for r in spec['rows']]
    if spec.get('how') == 'records':
        df = pd.DataFrame.from_records([tuple(r) for r in rows], columns=cols)
    else:
        df = pd.DataFrame({c: [r[i] for r in rows] for i, c in enumerate(cols)})
    df = df.astype({c: dt for c, dt in zip(cols, dts)})
    ix = spec['index']
    if 'range' in ix:
        df.index = pd.RangeIndex(*ix['range'])
    else:
        df.index = pd.Index(ix['labels'], dtype='int64', name=spec.get('index_name'))
    if spec.get('attrs'):
        df.attrs['note'] = 'x'
    if spec.get('columns_name'):
        df.columns.name = spec['columns_name']
    return df


def csys_history(spec):
    """For a system spec whose operations are add / flow / remove_flow only: the builder history with the
    real objects, [('add', compartment) | ('flow', source, destination, Expr) | ('remove', source, destination)],
    built exactly as build_component builds them; None for histories with relabelling operations."""
    import sympy
    from pharmpy.basic import Expr
    from pharmpy.model import output
    if spec.get('kind') != 'csys' or any(op[0] not in ('add', 'flow', 'remove_flow') for op in spec['ops']):
        return None
    loc = {n: sympy.Symbol(n) for n in ('Q', 'S', 'N', 'E', 'I', 'O', 'F', 'V', 'CL', 'KA')}
    comps, hist = {}, []
    for op in spec['ops']:
        if op[0] == 'add':
            c = build_component(op[1])
            comps[op[1]['name']] = c
            hist.append(('add', c))
        else:
            dst = output if op[2] == 'OUTPUT' else comps[op[2]]
            if op[0] == 'flow':
                hist.append(('flow', comps[op[1]], dst, Expr(Expr(sympy.sympify(op[3], locals=loc)))))
            else:
                hist.append(('remove', comps[op[1]], dst))
    return hist
