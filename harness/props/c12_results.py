"""C12 helper (own module of property C12): a results class with free attributes, importable by the
ResultsJSONDecoder (it imports the module named in the JSON text), and spec -> results object."""
from dataclasses import dataclass
from typing import Any

from pharmpy.workflows.results import Results


@dataclass(frozen=True)
class ProbeResults(Results):
    a: Any = None
    b: Any = None
    c: Any = None
    d: Any = None


def build_value(vs):
    from pathlib import Path

    import numpy as np
    import pandas as pd
    if not isinstance(vs, dict) or 'kind' not in vs:
        raise ValueError(vs)
    k = vs['kind']
    if k == 'plain':
        return vs['value']
    if k == 'tuple':
        return tuple(vs['value'])
    if k == 'intkey':
        return {int(a): b for a, b in vs['value'].items()}
    if k == 'frame':
        df = pd.DataFrame({c: col for c, col in zip(vs['columns'], vs['data'])})
        if vs.get('index'):
            df.index = pd.Index(vs['index'])
        return df
    if k == 'series':
        return pd.Series(vs['data'], index=vs['index'], name=vs.get('name'))
    if k == 'log':
        from pharmpy.workflows import Log
        log = Log()
        for m in vs['messages']:
            log = log.log_warning(m)
        return log
    if k == 'model':
        from harness.props import c12_gen
        return c12_gen.base_model('pheno')
    if k == 'path':
        return Path(vs['value'])
    if k == 'set':
        return set(vs['value'])
    if k == 'ndarray':
        return np.array(vs['value'])
    if k == 'npint':
        return np.int64(vs['value'])
    raise ValueError(k)


def build_results(spec):
    from pharmpy.workflows.results import ModelfitResults
    vals = {n: build_value(v) for n, v in spec['fields'].items()}
    if spec['class'] == 'modelfit':
        return ModelfitResults(**vals)
    return ProbeResults(**vals)
