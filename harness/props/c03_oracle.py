"""C03 model-level oracle: update_source() of an unmodified model changes nothing; after a single-component
edit every record of an unrelated kind is byte-identical and in order.  Runs the real pharmpy modeling API on
layout-mutated copies of the example models (read from files next to their datasets) in worker processes, with the
four NMTranControlStream edit methods wrapped (harness side) so that every real call is exported."""
import os
import shutil
import traceback
from pathlib import Path

from harness.lib.core import REPO

EX = REPO / 'src/pharmpy/internals/example_models'
TD = REPO / 'tests/testdata/nonmem'
# (model file, data files to put next to it)
SEEDS = [
    ('pheno', EX / 'pheno.mod', [EX / 'pheno.dta', EX / 'pheno.datainfo']),
    ('pheno_real', TD / 'pheno_real.mod', [TD / 'pheno.dta', TD / 'pheno.datainfo']),
    ('moxo', EX / 'moxo.mod', [EX / 'moxo.csv']),
]

PARAM_KINDS = ['THETA', 'OMEGA', 'SIGMA']
EST_KINDS = ['ESTIMATION', 'COVARIANCE', 'SIMULATION', 'TABLE', 'MSFI', 'PROBLEM', 'DATA', 'INPUT', 'DESIGN']
CODE_KINDS = ['PK', 'PRED', 'ERROR', 'DES']
# edit name -> kinds of records that express the modified component
EDITS = {
    'set_initial_estimates_theta': PARAM_KINDS,
    'set_initial_estimates_omega': PARAM_KINDS,
    'fix_parameter': PARAM_KINDS,
    'unfix_parameter': PARAM_KINDS,
    'set_lower_bounds': PARAM_KINDS,
    'add_covariate_effect': CODE_KINDS + ['THETA', 'SIZES'],
    # pharmpy's component is the list of execution steps: $ESTIMATION, $COVARIANCE and the $TABLE records (predictions /
    # residuals of the step) are regenerated together
    'set_estimation_step': ['ESTIMATION', 'COVARIANCE', 'TABLE'],
    'add_estimation_step': ['ESTIMATION', 'COVARIANCE', 'TABLE'],
    'remove_parameter_uncertainty_step': ['ESTIMATION', 'COVARIANCE', 'TABLE'],
    'add_parameter_uncertainty_step': ['ESTIMATION', 'COVARIANCE', 'TABLE'],
    'add_iiv': CODE_KINDS + ['OMEGA', 'ABBREVIATED', 'THETA', 'SIZES'],
    'remove_iiv': CODE_KINDS + ['OMEGA', 'ABBREVIATED'],
    'create_joint_distribution': ['OMEGA'],
    'set_additive_error_model': CODE_KINDS + ['SIGMA', 'THETA'],
    'set_proportional_error_model': CODE_KINDS + ['SIGMA', 'THETA'],
    'set_description': ['PROBLEM'],
    'add_individual_parameter': CODE_KINDS + ['THETA', 'SIZES'],
}


def mutate_valid(rng, text):
    """Layout changes that keep the model valid."""
    lines = text.split('\n')
    for _ in range(rng.choice([0, 1, 2, 3, 4])):
        r = rng.random()
        rec_idx = [i for i, ln in enumerate(lines) if ln.startswith('$')]
        if r < 0.2 and rec_idx:
            i = rng.choice(rec_idx)
            lines.insert(i, rng.choice(['', '; a comment line', ';; 2. Description: x', '   ', ';$FAKE record in a comment']))
        elif r < 0.3:
            # an own-line comment or a verbatim line between the statements of a code record
            cand = []
            in_code = False
            for i, ln in enumerate(lines):
                if ln.lstrip().startswith('$'):
                    in_code = ln.lstrip().upper().startswith(('$PK', '$ERR', '$PRED', '$DES'))
                elif in_code and ln.strip() and not ln.startswith(' '):
                    cand.append(i)
            if cand:
                i = rng.choice(cand)
                lines.insert(i, rng.choice(['; own-line comment', ';;; another one', '"  FIRST', '" ! verbatim ; $x', '   ; indented comment']))
        elif r < 0.4:
            # ($ABBR REPLACE lines are left alone: the ANY terminal of the abbreviated grammar swallows a comment that is
            # attached without a blank, 'ETA(1);c' becomes the replacement text — a reading defect outside this property)
            cand = [i for i, ln in enumerate(lines) if ln.strip() and not ln.startswith('$PROB') and '"' not in ln
                    and 'REPLACE' not in ln]
            if cand:
                i = rng.choice(cand)
                lines[i] += rng.choice(['  ; trailing comment', ';c', '\t; tab'])
        elif r < 0.5 and rec_idx:
            i = rng.choice(rec_idx)
            w = lines[i].split(' ')[0]
            if len(w) > 5 and w.upper() not in ('$INPUT',):
                k = rng.randint(4, len(w))
                lines[i] = w[:k] + lines[i][len(w):]
        elif r < 0.6 and rec_idx:
            i = rng.choice(rec_idx)
            lines[i] = rng.choice([' ', '  ', '\t']) + lines[i]
        elif r < 0.7:
            cand = [i for i, ln in enumerate(lines) if ln.startswith(('$THETA', '$OMEGA', '$SIGMA', '$EST', '$TABLE', '$INPUT'))]
            if cand:
                i = rng.choice(cand)
                lines[i] = lines[i].replace(' ', rng.choice(['  ', '\t', '   ']), rng.randint(1, 3))
        elif r < 0.78:
            lines.insert(0, rng.choice([';; 1. Based on: 5', '; header comment', '']))
        elif r < 0.86 and rec_idx:
            i = rng.choice([j for j in rec_idx if j > 0] or rec_idx)
            lines.insert(i, rng.choice(['$PRIOR NWPRI', '$BIND DOSE', '$WARNINGS NONE']))
        elif r < 0.93:
            cand = [i for i, ln in enumerate(lines) if ' = ' in ln and not ln.startswith('$') and 'IF' not in ln]
            if cand:
                i = rng.choice(cand)
                a, b = lines[i].split(' = ', 1)
                lines[i] = a + ' = &\n   ' + b
        else:
            # move a $THETA record behind the first $OMEGA record (still a valid control stream)
            th = [i for i, ln in enumerate(lines) if ln.startswith('$THETA')]
            om = [i for i, ln in enumerate(lines) if ln.startswith('$OMEGA')]
            if len(th) >= 2 and om and om[0] > th[-1] and not lines[th[-1] + 1].strip().startswith(('(', '0', '1')):
                ln = lines.pop(th[-1])
                lines.insert(om[0], ln)
    return '\n'.join(lines)


def theta_model(n, sizes):
    """A $PRED model with n thetas (one $THETA record each); `sizes` puts the $SIZES record NONMEM needs at the top."""
    lines = []
    if sizes:
        lines.append(f'$SIZES LTH={n}')
    lines += ['$PROBLEM n thetas', '$INPUT ID TIME AMT WGT APGR DV FA1 FA2', '$DATA pheno.dta IGNORE=@', '$PRED']
    terms = [f'THETA({i})' for i in range(1, n + 1)]
    for k in range(0, n, 8):
        lines.append(f'T{k // 8} = ' + ' + '.join(terms[k:k + 8]))
    lines.append('Y = ' + ' + '.join(f'T{k // 8}' for k in range(0, n, 8)) + ' + ETA(1) + EPS(1)')
    lines += ['$THETA 0.1'] * n + ['$OMEGA 0.1', '$SIGMA 0.1', '$ESTIMATION METHOD=1 MAXEVAL=99']
    return '\n'.join(lines) + '\n'


def comp_model(n, sizes):
    """An ADVAN5 chain of n compartments (KiTj notation)."""
    lines = []
    if sizes:
        lines.append(f'$SIZES PC={n}')
    lines += ['$PROBLEM n compartments', '$INPUT ID TIME AMT WGT APGR DV FA1 FA2', '$DATA pheno.dta IGNORE=@',
              '$SUBROUTINE ADVAN5 TRANS1']
    lines.append('$MODEL ' + ' '.join(f'COMPARTMENT=(C{i}' + (' DEFDOSE' if i == 1 else '') + (' DEFOBS' if i == n else '') + ')'
                                      for i in range(1, n + 1)))
    lines += ['$PK', 'KT = THETA(1)*EXP(ETA(1))'] + [f'K{i}T{i + 1} = KT' for i in range(1, n)] + [f'K{n}T0 = THETA(2)']
    lines += ['$ERROR', 'Y = F + F*EPS(1)', '$THETA (0,1)', '$THETA (0,0.1)', '$OMEGA 0.1', '$SIGMA 0.1',
              '$ESTIMATION METHOD=1 MAXEVAL=99']
    return '\n'.join(lines) + '\n'


def boundary_specs():
    """Unmodified models at the limits tested by SizesRecord.set_LTH / set_PC (defaults LTH=100, PC=30)."""
    out = []
    for n in (99, 100, 101, 102):
        out.append({'seed': 'pheno', 'text': theta_model(n, n > 100), 'edits': [], 'boundary': f'thetas={n}'})
    for n in (29, 30, 31):
        out.append({'seed': 'pheno', 'text': comp_model(n, n > 30), 'edits': [], 'boundary': f'compartments={n}'})
    # crossing the limit by an edit: 100 thetas + one more
    out.append({'seed': 'pheno', 'text': theta_model(100, False), 'edits': [['add_individual_parameter', 1]],
                'boundary': 'thetas=100+1'})
    return out


def gen_history(rng):
    h = [['ins', rng.choice([0, 1, 1, 2]), rng.randrange(1000)]]
    for _ in range(rng.choice([1, 2])):
        h.append([rng.choice(['chg', 'chg', 'del', 'ins']), rng.randrange(3, 12), rng.randrange(1000)])
    return h


def gen_spec(rng):
    name, path, _ = rng.choice(SEEDS)
    text = path.read_text()
    if name == 'pheno' and rng.random() < 0.1:
        # variant with a non-REPLACE $ABBREVIATED record (kept by update_abbr_record)
        text = text.replace('$SUBROUTINE ADVAN1 TRANS2\n', '$SUBROUTINE ADVAN1 TRANS2\n$ABBR COMRES=1\n')
    elif name == 'pheno' and rng.random() < 0.5:
        # variant without $ABBREVIATED
        text = text.replace('$ABBREV REPLACE ETA_CL=ETA(1)\n$ABBREV REPLACE ETA_VC=ETA(2)\n\n', '')
        text = text.replace('ETA_CL', 'ETA(1)').replace('ETA_VC', 'ETA(2)')
    text = mutate_valid(rng, text)
    if rng.random() < 0.35:
        # a history of successive edits of the statements of the same code record
        return {'seed': name, 'text': text, 'edits': [], 'history': gen_history(rng)}
    edits = [[rng.choice(sorted(EDITS)), rng.randrange(1000)] for _ in range(rng.choice([2, 3, 4]))]
    return {'seed': name, 'text': text, 'edits': edits}


# ------------------------------------------------------------------ worker side
_WRAPPED = False
_CALLS = None
_UPDATES = None
_GENLOG = None
_ABBR = None
_IDS = None
_ALIVE = None


def _rid(r):
    if id(r) not in _IDS:
        _IDS[id(r)] = len(_IDS) + 1
        _ALIVE.append(r)
    return _IDS[id(r)]


def _recs(rs):
    return [[_rid(r), r.name] for r in rs]


def _wrap():
    """Wrap the four edit methods of NMTranControlStream (class attributes) to log every call."""
    global _WRAPPED
    if _WRAPPED:
        return
    from pharmpy.model.external.nonmem.nmtran_parser import NMTranControlStream as CS
    real = {k: getattr(CS, k) for k in ('insert_record', 'remove_records', 'replace_records', 'replace_all')}

    def insert_record(self, record, at_index=None):
        res, exc = None, None
        try:
            res = real['insert_record'](self, record, at_index)
        except Exception as e:
            exc = e
        if _CALLS is not None:
            _CALLS.append({'k': 1, 'before': _recs(self.records), 'new': _recs([record]), 'old': [], 'name': '',
                           'at': at_index, 'after': None if res is None else _recs(res.records),
                           'sizes': ([[k, int(v)] for k, v in record.option_pairs.items()] if record.name == 'SIZES' else None)})
        if exc is not None:
            raise exc
        return res

    def remove_records(self, records):
        res = real['remove_records'](self, records)
        if _CALLS is not None:
            _CALLS.append({'k': 2, 'before': _recs(self.records), 'new': [], 'old': _recs(records), 'name': '',
                           'at': None, 'after': _recs(res.records)})
        return res

    def replace_records(self, old, new):
        res = real['replace_records'](self, old, new)
        if _CALLS is not None:
            _CALLS.append({'k': 3, 'before': _recs(self.records), 'new': _recs(new), 'old': _recs(old), 'name': '',
                           'at': None, 'after': _recs(res.records)})
        return res

    def replace_all(self, name, new):
        res, exc = None, None
        try:
            res = real['replace_all'](self, name, new)
        except Exception as e:
            exc = e
        if _CALLS is not None:
            _CALLS.append({'k': 4, 'before': _recs(self.records), 'new': _recs(new), 'old': [], 'name': name,
                           'at': None, 'after': None if res is None else _recs(res.records)})
        if exc is not None:
            raise exc
        return res

    CS.insert_record, CS.remove_records, CS.replace_records, CS.replace_all = (
        insert_record, remove_records, replace_records, replace_all)

    from pharmpy.internals.parse import AttrTree
    from pharmpy.internals.sequence.lcs import diff
    from pharmpy.model.external.nonmem.records.code_record import CodeRecord
    real_us = CodeRecord.update_statements

    real_gen = CodeRecord._statement_to_nodes

    def _statement_to_nodes(self, defined_symbols, s, rvs, trans):
        nodes = real_gen(self, defined_symbols, s, rvs, trans)
        if _GENLOG is not None:
            _GENLOG.append((id(s), len(nodes)))
        return nodes

    def update_statements(self, new, rvs=None, trans=None):
        global _GENLOG
        outer = _GENLOG
        _GENLOG = []
        try:
            res = real_us(self, new, rvs=rvs, trans=trans)
            genlog = _GENLOG
        finally:
            _GENLOG = outer
        if _UPDATES is not None and res is not self:
            children = self.root.children
            pos = {id(c): i + 1 for i, c in enumerate(children)}
            old = self._statements
            entries = list(diff(old, new))
            script = [[int(op), k] for k, (op, _) in enumerate(entries)]
            where = {}
            for k, (op, st) in enumerate(entries):
                if op != -1:
                    where.setdefault(id(st), []).append(k)
            gen = []
            for sid, n in genlog:
                ks = where.get(sid, [])
                gen.append([ks.pop(0) if ks else -1, n])
            _UPDATES.append({
                'name': self.name,
                'verb': [isinstance(c, AttrTree) and c.rule == 'verbatim' for c in children],
                'index': [list(map(int, e)) for e in self._index],
                'script': script, 'gen': gen,
                'result': [pos.get(id(c), 0) for c in res.root.children],
                'new_index': [list(map(int, e)) for e in res._index],
            })
        return res

    CodeRecord._statement_to_nodes = _statement_to_nodes

    from pharmpy.model.external.nonmem import update as upd
    real_abbr = upd.update_abbr_record

    def update_abbr_record(model, rv_trans):
        recs = model.internals.control_stream.get_records('ABBREVIATED')
        rmaps = [[list(kv) for kv in rec.translate_to_pharmpy_names().items()] for rec in recs]
        rv = [list(kv) for kv in rv_trans.items()] if rv_trans else []
        res = real_abbr(model, rv_trans)
        if _ABBR is not None:
            after = res[0].internals.control_stream.records
            kept = [i + 1 for i, rec in enumerate(recs) if any(rec is r for r in after)]
            new = []
            for r in after:
                if r.name == 'ABBREVIATED' and not any(r is rec for rec in recs):
                    new += [list(kv) for kv in r.replaceopt.items()]
            _ABBR.append({'recs': rmaps, 'rv': rv, 'kept': kept, 'new': new})
        return res

    upd.update_abbr_record = update_abbr_record
    CodeRecord.update_statements = update_statements
    _WRAPPED = True


def _nonstmt(r):
    """Root-level children of a code record that are not statements and not blank: comments, verbatim, pseudo."""
    from pharmpy.internals.parse import AttrTree
    from pharmpy.model.external.nonmem.records.code_record import CodeRecord
    if not isinstance(r, CodeRecord):
        return []
    out = []
    for c in r.root.children:
        if isinstance(c, AttrTree) and c.rule == 'statement':
            continue
        t = str(c)
        if t.strip(' \t\r\n\x00'):
            out.append(t)
    return out


def _rec_list(records):
    return [[r.name, str(r), _nonstmt(r)] for r in records]


def _records_of(model):
    return _rec_list(model.internals.control_stream.records)


def _apply(m, name, k):
    import pharmpy.modeling as pm
    thetas = [p.name for p in m.parameters if p.symbol not in m.random_variables.free_symbols]
    omegas = [p.name for p in m.parameters if p.name not in thetas]
    etas = m.random_variables.etas.names
    cols = [c for c in m.datainfo.names if c not in ('ID', 'TIME', 'DV', 'AMT', 'EVID', 'MDV', 'CMT', 'RATE')]
    ind = [s.symbol.name for s in m.statements.before_odes if s.symbol.name in ('CL', 'V', 'VC', 'KA', 'S1', 'TVCL', 'TVV')]
    pick = lambda l: l[k % len(l)]
    if name == 'set_initial_estimates_theta':
        p = pick(thetas)
        v = m.parameters[p].init
        return pm.set_initial_estimates(m, {p: (v * 1.5 if v else 0.1)})
    if name == 'set_initial_estimates_omega':
        p = pick([o for o in omegas if m.parameters[o].init > 0] or omegas)
        return pm.set_initial_estimates(m, {p: m.parameters[p].init * 2})
    if name == 'fix_parameter':
        return pm.fix_parameters(m, [pick(thetas + omegas)])
    if name == 'unfix_parameter':
        return pm.unfix_parameters(m, [pick(thetas + omegas)])
    if name == 'set_lower_bounds':
        p = pick(thetas)
        return pm.set_lower_bounds(m, {p: min(m.parameters[p].init - 1, -5)})
    if name == 'add_covariate_effect':
        return pm.add_covariate_effect(m, pick(ind or ['CL']), pick(cols or ['WGT']), pick(['exp', 'lin', 'pow']))
    if name == 'set_estimation_step':
        return pm.set_estimation_step(m, pick(['FO', 'FOCE', 'IMP']), 0, interaction=bool(k % 2))
    if name == 'add_estimation_step':
        return pm.add_estimation_step(m, pick(['IMP', 'SAEM', 'FOCE']))
    if name == 'remove_parameter_uncertainty_step':
        return pm.remove_parameter_uncertainty_step(m)
    if name == 'add_parameter_uncertainty_step':
        return pm.add_parameter_uncertainty_step(m, pick(['SANDWICH', 'RMAT', 'SMAT']))
    if name == 'add_iiv':
        return pm.add_iiv(m, pick(ind or ['S1']), 'exp')
    if name == 'remove_iiv':
        return pm.remove_iiv(m, pick(etas))
    if name == 'create_joint_distribution':
        return pm.create_joint_distribution(m, list(etas)[:2])
    if name == 'set_additive_error_model':
        return pm.set_additive_error_model(m)
    if name == 'set_proportional_error_model':
        return pm.set_proportional_error_model(m)
    if name == 'set_description':
        return m.replace(description='new title ' + str(k)).update_source()
    if name == 'add_individual_parameter':
        return pm.add_individual_parameter(m, 'NEWP' + str(k % 7))
    raise KeyError(name)


def _sizes_in(m):
    from pharmpy.model import CompartmentalSystem
    odes = m.statements.ode_system
    thetas = [p for p in m.parameters if p.symbol not in m.random_variables.free_symbols]
    cs = odes is not None and isinstance(odes, CompartmentalSystem)
    return [len(thetas), len(odes) if cs else 0, bool(cs)]


COMPONENTS = ['random_variables', 'parameters', 'statements', 'datainfo', 'execution_steps', 'description', 'name',
              'initial_individual_estimates']


def _changed_components(a, b):
    """Which components of the model (the old_* snapshots update_source compares) differ between models a and b."""
    out = []
    for c in COMPONENTS:
        try:
            if c == 'initial_individual_estimates':
                diff = getattr(a, c) is not getattr(b, c)
            elif c == 'datainfo':
                diff = (a.datainfo != b.datainfo) or (a.dataset is not b.dataset)
            else:
                diff = getattr(a, c) != getattr(b, c)
        except Exception:
            diff = True
        if diff:
            out.append(c)
    return out


def _ids(model):
    return [_rid(r) for r in model.internals.control_stream.records]


def _reread_ok(m):
    from pharmpy.modeling import read_model_from_string
    try:
        return bool(read_model_from_string(m.code).statements == m.statements)
    except Exception:
        return False


def _history_step(cur, op, pos, k):
    from pharmpy.basic import Expr
    from pharmpy.model import Assignment, Statements
    sts = cur.statements
    if sts.ode_system is not None:
        part = list(sts.before_odes)
    else:
        part = list(sts)
    if op == 'del' and not any(st.symbol.name.startswith('ZZ') for st in part):
        op = 'ins'          # only statements inserted by the history are deleted (the model must stay consistent)
    if op == 'ins':
        pos = pos % (len(part) + 1)
        free = [c for c in ('WGT', 'APGR', 'AGE', 'WT') if c in cur.datainfo.names] or ['TIME']
        part.insert(pos, Assignment.create(Expr.symbol(f'ZZ{k}'), Expr.integer(k % 9 + 1) + Expr.symbol(free[0])))
    elif op == 'chg':
        pos = pos % len(part)
        st = part[pos]
        part[pos] = Assignment.create(st.symbol, st.expression + Expr.integer(1))
    else:
        zz = [i for i, st in enumerate(part) if st.symbol.name.startswith('ZZ')]
        del part[zz[pos % len(zz)]]
    if sts.ode_system is not None:
        new = Statements(part) + sts.ode_system + sts.after_odes
    else:
        new = Statements(part)
    return cur.replace(statements=new).update_source()


def run_spec(args):
    """Executed in a worker process.  args = (index, spec, directory)."""
    global _CALLS, _IDS, _ALIVE, _UPDATES, _GENLOG, _ABBR
    import warnings
    warnings.filterwarnings('ignore')
    idx, spec, workdir = args
    out = {'read_ok': False}
    try:
        from pharmpy.model.external.nonmem.nmtran_parser import NMTranParser
        from pharmpy.modeling import read_model
        _wrap()
        d = Path(workdir) / f'm{idx}'
        d.mkdir(parents=True, exist_ok=True)
        for name, _, files in SEEDS:
            if name == spec['seed']:
                for f in files:
                    if not (d / f.name).exists():
                        shutil.copy(f, d / f.name)
        path = d / 'model.mod'
        path.write_text(spec['text'])
        _CALLS, _IDS, _ALIVE = None, {}, []
        try:
            m = read_model(path)
            before = _rec_list(NMTranParser().parse(spec['text']).records)
        except Exception as e:
            out['read_error'] = f'{type(e).__name__}: {str(e)[:200]}'
            return out
        out['read_ok'] = True
        out['code_eq'] = (m.code == spec['text'])
        out['before'] = before
        _CALLS, _UPDATES, _ABBR = [], [], []
        ids0 = _ids(m)
        try:
            m_us = m.update_source()
            out['us'] = {'after': _records_of(m_us), 'calls': _CALLS, 'updates': _UPDATES, 'exc': None,
                         'sizes_in': _sizes_in(m_us), 'reread': True, 'abbr': _ABBR,
                         'ids0': ids0, 'ids1': _ids(m_us), 'comps': _changed_components(m, m_us)}
        except Exception as e:
            out['us'] = {'after': None, 'calls': _CALLS, 'updates': _UPDATES, 'exc': f'{type(e).__name__}: {str(e)[:200]}',
                         'sizes_in': None, 'reread': True, 'abbr': _ABBR, 'ids0': ids0, 'ids1': [], 'comps': []}
        out['edits'] = []
        for name, k in spec['edits']:
            _CALLS, _UPDATES, _ABBR = [], [], []
            sizes_in, ids1, comps = None, [], []
            try:
                m2 = _apply(m, name, k)
                after = _records_of(m2)
                sizes_in = _sizes_in(m2)
                ids1, comps = _ids(m2), _changed_components(m, m2)
                exc = None
            except Exception as e:
                after, exc = None, f'{type(e).__name__}: {str(e)[:200]}'
            out['edits'].append({'name': name, 'allowed': EDITS[name], 'after': after, 'calls': _CALLS,
                                 'updates': _UPDATES, 'exc': exc, 'sizes_in': sizes_in, 'reread': True, 'abbr': _ABBR,
                                 'ids0': ids0, 'ids1': ids1, 'comps': comps})
        # a history: every step edits the statements of the result of the previous step
        out['history'] = []
        cur = m
        for op, pos, k in spec.get('history', []):
            _CALLS, _UPDATES, _ABBR = [], [], []
            sizes_in, reread = None, True
            abbr = _ABBR
            hids0, hids1, comps = _ids(cur), [], []
            try:
                nxt = _history_step(cur, op, pos, k)
                after = _records_of(nxt)
                sizes_in = _sizes_in(nxt)
                hids1, comps = _ids(nxt), _changed_components(cur, nxt)
                calls, updates = _CALLS, _UPDATES
                _CALLS, _UPDATES, _ABBR = None, None, None
                reread = _reread_ok(nxt)
                cur = nxt
                exc = None
            except Exception as e:
                calls, updates = (_CALLS or []), (_UPDATES or [])
                after, exc = None, f'{type(e).__name__}: {str(e)[:200]}'
            out['history'].append({'name': f'history:{op}', 'allowed': CODE_KINDS, 'after': after, 'calls': calls,
                                   'updates': updates, 'exc': exc, 'sizes_in': sizes_in, 'reread': reread, 'abbr': abbr,
                                   'ids0': hids0, 'ids1': hids1, 'comps': comps})
        _CALLS, _UPDATES, _ABBR = None, None, None
        # every record object seen: identity -> (name, text)
        out['objs'] = [[_IDS[id(r)], r.name, str(r)] for r in _ALIVE]
    except Exception:
        out['harness_error'] = traceback.format_exc()[-800:]
    return out


def init_worker():
    os.environ['OMP_NUM_THREADS'] = '1'
