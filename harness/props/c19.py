"""C19 — ranking, selection criteria and result statistics follow their definitions.
Model: coq/theories/C19 (Model.v = the code, Spec.v = the documented reference, Check.v = in-Coq comparison);
theorems in Properties.v / Refuted.v.
Tie: (a) a fail-closed ast translator regenerates the strictness names / numeric defaults from the source and
Coq checks them against the model's tables; (b) correspondence of the hand-written model with rank_models,
is_strictness_fulfilled, calculate_aic/bic, lrt.*, create_results on synthetic candidate sets built from real
pharmpy models and real ModelfitResults objects; (c) the property statement evaluated on the implementation's
own output (oracle tags).  The resampling / diagnostic statistics are validation only (c19_stats.py)."""
import ast
import inspect
import json
import math
import random
import warnings
from fractions import Fraction as F

from harness.lib import coqterm as ct
from harness.lib.core import VERIF, coqc_file, source_sha

LEVEL = 'proof'
IMPORTS = 'Base.PyData Base.Expr Base.Interp C19.Model C19.Spec C19.Categorize C19.Check'

TAGS = {
    1: 'rank_models table differs from the model (membership / values / ranks / order modulo ties / error class)',
    2: 'is_strictness_fulfilled differs from the model',
    3: 'calculate_aic / calculate_bic differ from the model',
    4: 'lrt.degrees_of_freedom / cutoff / p_value / test / best_of_two / best_of_many differ from the model',
    5: 'create_results: final model differs from the model (idxmin of the rank column, base fallback, refusal)',
    6: 'create_results: summary_tool is not the rank_models table',
    7: 'summarize_tool: n_params / d_params are not the numbers of estimated parameters',
    11: 'ranked rows are not ordered by the criterion',
    12: 'rank is not 1 + number of strictly better ranked candidates (ties must share a rank)',
    13: 'table is not the reference table: a candidate is wrongly excluded / included, or value / delta / rank wrong',
    14: 'strictness expression is not evaluated as documented',
    15: 'an excluded candidate is listed above a ranked one',
    16: 'reported best model is not a top-ranked eligible candidate',
    17: 'AIC is not -2LL + 2 * number of estimated parameters',
    18: 'likelihood-ratio test does not follow its definition',
    19: 'strictness_eval_sound fails on the implementation: a further expression is not evaluated as documented',
    1001: 'oracle table does not cover a lookup (machinery)',
    1002: 'generated strictness expression is not well typed (machinery)',
}
CORR = (1, 2, 3, 4, 5, 6, 7)
# oracle tag -> correspondence tags that must be absent for the faithful model to explain it
ORACLE = {11: (1,), 12: (1,), 13: (1, 2), 14: (2,), 15: (1,), 16: (5, 1), 17: (3,), 18: (4,), 19: (2,)}

SNAMES = ['minimization_successful', 'rounding_errors', 'sigdigs', 'maxevals_exceeded', 'rse', 'rse_theta',
          'rse_omega', 'rse_sigma', 'condition_number', 'final_zero_gradient', 'final_zero_gradient_theta',
          'final_zero_gradient_omega', 'final_zero_gradient_sigma', 'estimate_near_boundary',
          'estimate_near_boundary_theta', 'estimate_near_boundary_omega', 'estimate_near_boundary_sigma']
SCONS = {n: 'S_' + n.replace('final_zero_gradient', 'fzg').replace('estimate_near_boundary', 'enb') for n in SNAMES}
NUMERIC = {'sigdigs', 'rse', 'rse_theta', 'rse_omega', 'rse_sigma', 'condition_number'}
BOOLEAN = [n for n in SNAMES if n not in NUMERIC]
CMP = {ast.Lt: 'CLt', ast.LtE: 'CLe', ast.Eq: 'CEq', ast.NotEq: 'CNe', ast.GtE: 'CGe', ast.Gt: 'CGt'}
REFLECT = {'CLt': 'CGt', 'CLe': 'CGe', 'CEq': 'CEq', 'CNe': 'CNe', 'CGe': 'CLe', 'CGt': 'CLt'}


class Refused(Exception):
    """fail-closed translator met a shape it does not know"""


_IMPL = {}


def impl():
    """The implementation under check.  Normally the modules of /repo/src.  For SENSITIVITY TESTING ONLY the environment
    variable VERIF_C19_MUTANT='run=/path/run.py,results=...,lrt=...,common=...' loads scratch copies of single source
    files under other module names and wires them together the way the originals are wired (never edits /repo)."""
    if _IMPL:
        return _IMPL
    import importlib.util
    import os
    import sys
    import pharmpy.modeling.lrt as lrt
    import pharmpy.modeling.results as results
    import pharmpy.tools.common as common
    import pharmpy.tools.run as run
    mods = {'run': run, 'results': results, 'lrt': lrt, 'common': common}
    pk = {'run': 'pharmpy.tools', 'results': 'pharmpy.modeling', 'lrt': 'pharmpy.modeling', 'common': 'pharmpy.tools'}
    mut = os.environ.get('VERIF_C19_MUTANT', '')
    loaded = {}
    for item in [x for x in mut.split(',') if x]:
        k, path = item.split('=', 1)
        name = f'{pk[k]}.c19mut_{k}'
        spec = importlib.util.spec_from_file_location(name, path)
        m = importlib.util.module_from_spec(spec)
        sys.modules[name] = m
        spec.loader.exec_module(m)
        loaded[k] = m
    if loaded:
        import copy
        # private copies of the modules that import from a mutated one
        for k in ('run', 'common'):
            if k not in loaded:
                name = f'{pk[k]}.c19mut_{k}'
                spec = importlib.util.spec_from_file_location(name, mods[k].__file__)
                m = importlib.util.module_from_spec(spec)
                sys.modules[name] = m
                spec.loader.exec_module(m)
                loaded[k] = m
        if 'results' in loaded:
            for a in ('calculate_aic', 'calculate_bic', 'check_parameters_near_bounds'):
                setattr(loaded['run'], a, getattr(loaded['results'], a))
        if 'lrt' in loaded:
            loaded['run'].lrt_df = loaded['lrt'].degrees_of_freedom
            loaded['run'].lrt_test = loaded['lrt'].test
        loaded['common'].rank_models = loaded['run'].rank_models
        mods.update(loaded)
    _IMPL.update(mods)
    return _IMPL


# ------------------------------------------------------------------ translators (source -> Coq obligations)
def _func_ast(module, name):
    src = inspect.getsource(module)
    tree = ast.parse(src)
    for node in tree.body:
        if isinstance(node, ast.FunctionDef) and node.name == name:
            return node
    raise Refused(f'{name} not found in {module.__name__}')


def translate_source():
    """Reads tools/run.py:is_strictness_fulfilled (allowed_args, unwanted_args), modeling/results.py
    (check_parameters_near_bounds defaults, calculate_aic's constant) and tools/run.py:rank_models (default alphas).
    Returns Coq text defining *_src tables."""
    mres, run = impl()['results'], impl()['run']
    out = []
    fn = _func_ast(run, 'is_strictness_fulfilled')
    found = {}
    for node in ast.walk(fn):
        if isinstance(node, ast.Assign) and len(node.targets) == 1 and isinstance(node.targets[0], ast.Name):
            nm = node.targets[0].id
            if nm in ('allowed_args', 'unwanted_args'):
                if not (isinstance(node.value, ast.Tuple)
                        and all(isinstance(e, ast.Constant) and isinstance(e.value, str) for e in node.value.elts)):
                    raise Refused(f'{nm} is not a tuple of string literals')
                if nm in found:
                    raise Refused(f'{nm} assigned twice')
                found[nm] = [e.value for e in node.value.elts]
    if set(found) != {'allowed_args', 'unwanted_args'}:
        raise Refused('allowed_args / unwanted_args not found')
    for v in found['allowed_args'] + found['unwanted_args']:
        if not all(c.isalnum() or c == '_' for c in v):
            raise Refused('unexpected character in name ' + v)
    out.append('Definition allowed_args_src : list String.string := ['
               + '; '.join(f'"{v}"%string' for v in found['allowed_args']) + '].')
    out.append('Definition unwanted_args_src : list String.string := ['
               + '; '.join(f'"{v}"%string' for v in found['unwanted_args']) + '].')
    # defaults of check_parameters_near_bounds(model, values, zero_limit=0.001, significant_digits=2)
    fn = _func_ast(mres, 'check_parameters_near_bounds')
    args = [a.arg for a in fn.args.args]
    defaults = fn.args.defaults
    if args != ['model', 'values', 'zero_limit', 'significant_digits'] or len(defaults) != 2 \
            or not all(isinstance(d, ast.Constant) and isinstance(d.value, (int, float)) for d in defaults):
        raise Refused('check_parameters_near_bounds signature')
    out.append(f'Definition zero_limit_src : Q := {ct.q(F(float(defaults[0].value)))}.')
    out.append(f'Definition significant_digits_src : Z := {ct.z(int(defaults[1].value))}.')
    # rank_models: co = 0.05 if lrt_df(...) >= 0 else 0.01
    fn = _func_ast(run, 'rank_models')
    alphas = []
    for node in ast.walk(fn):
        if isinstance(node, ast.IfExp) and isinstance(node.body, ast.Constant) and isinstance(node.orelse, ast.Constant):
            t = node.test
            if not (isinstance(t, ast.Compare) and len(t.ops) == 1 and isinstance(t.ops[0], ast.GtE)
                    and isinstance(t.comparators[0], ast.Constant) and t.comparators[0].value == 0
                    and isinstance(t.left, ast.Call) and getattr(t.left.func, 'id', None) == 'lrt_df'
                    and [getattr(a, 'id', None) for a in t.left.args] == ['parent_model', 'model']):
                raise Refused('default alpha condition')
            alphas.append((float(node.body.value), float(node.orelse.value)))
    if len(alphas) != 1:
        raise Refused('default alpha expression not found exactly once')
    out.append(f'Definition alpha_more_src : Q := {ct.q(F(alphas[0][0]))}.')
    out.append(f'Definition alpha_fewer_src : Q := {ct.q(F(alphas[0][1]))}.')
    # calculate_aic: return likelihood + 2 * len(parameters)
    fn = _func_ast(mres, 'calculate_aic')
    ret = [n for n in ast.walk(fn) if isinstance(n, ast.Return)]
    ok = False
    if len(ret) == 1 and isinstance(ret[0].value, ast.BinOp) and isinstance(ret[0].value.op, ast.Add):
        l, r = ret[0].value.left, ret[0].value.right
        if isinstance(l, ast.Name) and l.id == 'likelihood' and isinstance(r, ast.BinOp) and isinstance(r.op, ast.Mult) \
                and isinstance(r.left, ast.Constant) and isinstance(r.right, ast.Call) \
                and getattr(r.right.func, 'id', None) == 'len':
            out.append(f'Definition aic_factor_src : Z := {ct.z(int(r.left.value))}.')
            ok = True
    if not ok:
        raise Refused('calculate_aic return expression')
    # tools/cdd/results.py calculate_results: dofv_influential = [elt > 3.86 for elt in dofv]
    import pharmpy.tools.cdd.results as cddres
    fn = _func_ast(cddres, 'calculate_results')
    lims = []
    for node in ast.walk(fn):
        if isinstance(node, ast.Assign) and len(node.targets) == 1 and getattr(node.targets[0], 'id', None) == 'dofv_influential':
            v = node.value
            if not (isinstance(v, ast.ListComp) and isinstance(v.elt, ast.Compare) and len(v.elt.ops) == 1
                    and isinstance(v.elt.ops[0], ast.Gt) and isinstance(v.elt.left, ast.Name)
                    and isinstance(v.elt.comparators[0], ast.Constant) and len(v.generators) == 1
                    and getattr(v.generators[0].iter, 'id', None) == 'dofv' and not v.generators[0].ifs
                    and getattr(v.generators[0].target, 'id', None) == v.elt.left.id):
                raise Refused('dofv_influential expression')
            lims.append(float(v.elt.comparators[0].value))
    if len(lims) != 1:
        raise Refused('dofv_influential not assigned exactly once')
    out.append(f'Definition influence_limit_src : Q := {ct.q(F(lims[0]))}.')
    return '\n'.join(out) + '\n'


GEN_OBLIGATIONS = '''
Lemma gen_allowed_args : allowed_args_src = map sname_string all_snames.
Proof. vm_compute. reflexivity. Qed.
Lemma gen_unwanted_args : unwanted_args_src = ["and"; "or"; "not"]%string.
Proof. vm_compute. reflexivity. Qed.
Lemma gen_zero_limit : Qeq_bool zero_limit_src zero_limit = true.
Proof. vm_compute. reflexivity. Qed.
Lemma gen_significant_digits : significant_digits_src = 2%Z.
Proof. vm_compute. reflexivity. Qed.
Lemma gen_alpha_more : Qeq_bool alpha_more_src alpha_more = true /\\ Qeq_bool alpha_fewer_src alpha_fewer = true.
Proof. split; vm_compute; reflexivity. Qed.
Lemma gen_aic_factor : aic_factor_src = 2%Z.
Proof. vm_compute. reflexivity. Qed.
Lemma gen_influence_limit : Qeq_bool influence_limit_src influence_limit = true.
Proof. vm_compute. reflexivity. Qed.
'''
N_GEN_OBLIGATIONS = 7


def regenerated_obligations(ctx):
    ctx.obligations += N_GEN_OBLIGATIONS
    try:
        text = translate_source()
    except Refused as e:
        ctx.broken.append(f'TRANSLATOR-REFUSED: {e}')
        return
    f = ctx.rundir / 'Gen.v'
    f.write_text('From Coq Require Import QArith ZArith List.\nFrom Coq Require String.\nImport String.StringSyntax.\n'
                 'Delimit Scope string_scope with string.\nFrom PV Require Import C19.Model C19.Stats3.\nImport ListNotations.\n'
                 + text + GEN_OBLIGATIONS)
    rc, out = coqc_file(f)
    if rc != 0:
        ctx.broken.append('regenerated obligation (strictness names / defaults read from the source) fails: ' + out[-400:])
    else:
        ctx.discharged += N_GEN_OBLIGATIONS
    ctx.coverage['translator_sha'] = source_sha('src/pharmpy/tools/run.py', 'src/pharmpy/modeling/results.py')


# ------------------------------------------------------------------ model pool (real pharmpy models)
_POOL = {}


def pool():
    if _POOL:
        return _POOL
    from pharmpy.modeling import (add_iov, add_peripheral_compartment, add_pk_iiv, add_population_parameter,
                                  create_joint_distribution, fix_parameters, fix_parameters_to, load_example_model,
                                  remove_iiv, set_additive_error_model, set_combined_error_model,
                                  set_first_order_absorption, set_iiv_on_ruv, set_lower_bounds,
                                  set_michaelis_menten_elimination, set_mixed_mm_fo_elimination, set_power_on_ruv,
                                  set_upper_bounds)
    m = load_example_model('pheno')
    T = {
        'base': lambda m: m,
        'fix_iivcl': lambda m: fix_parameters(m, ['IIV_CL']),
        'fix_cov': lambda m: fix_parameters(m, ['COVAPGR']),
        'fix0_iivvc': lambda m: fix_parameters_to(m, {'IIV_VC': 0}),
        'rmiiv_cl': lambda m: remove_iiv(m, ['ETA_CL']),
        'rmiiv_all': lambda m: remove_iiv(m),
        'periph': lambda m: add_peripheral_compartment(m),
        'periph2': lambda m: add_peripheral_compartment(add_peripheral_compartment(m)),
        'mm': lambda m: set_michaelis_menten_elimination(m),
        'mixmm': lambda m: set_mixed_mm_fo_elimination(m),
        'joint': lambda m: create_joint_distribution(m, ['ETA_CL', 'ETA_VC']),
        'comb': lambda m: set_combined_error_model(m),
        'add': lambda m: set_additive_error_model(m),
        'iiv_periph': lambda m: add_pk_iiv(add_peripheral_compartment(m)),
        'iov': lambda m: add_iov(m, 'FA1', ['ETA_CL']),
        'poppar': lambda m: add_population_parameter(m, 'EXTRA', 1.0),
        'fo_abs': lambda m: set_first_order_absorption(m),
        'iiv_on_ruv': lambda m: set_iiv_on_ruv(m),
        'power': lambda m: set_power_on_ruv(m),
        'bounds': lambda m: set_upper_bounds(set_lower_bounds(m, {'POP_VC': 0.5}), {'POP_CL': 10, 'POP_VC': 2.5, 'IIV_CL': 1}),
        'bounds2': lambda m: set_upper_bounds(set_lower_bounds(m, {'POP_VC': 0.123, 'POP_CL': 0.00125}),
                                              {'POP_CL': 0.0257, 'POP_VC': 125.5, 'IIV_VC': 0.5, 'SIGMA': 2, 'COVAPGR': 1.005}),
    }
    from pharmpy.modeling import read_model_from_string
    code = m.code
    th4 = ("$THETA  (-.99,.1) ; COVAPGR", "$THETA  (-.99,.1) ; COVAPGR\n$THETA  (0,0.5) ; TH_MULT")
    om1, om2 = "$OMEGA  0.0309626 ; IIV_CL", "$OMEGA  0.031128 ; IIV_VC"
    # zero-fixed omegas / sigmas, fixed thetas, thetas used only inside an eta- or eps-multiplied term, block omegas
    C = {
        'z_etamult': code.replace("VC = TVV*EXP(ETA_VC)", "VC = TVV + THETA(4)*ETA_VC").replace(om2, "$OMEGA  0 FIX ; IIV_VC").replace(*th4),
        'etamult': code.replace("VC = TVV*EXP(ETA_VC)", "VC = TVV + THETA(4)*ETA_VC").replace(*th4),
        'z_both': code.replace(om1, "$OMEGA  0 FIX ; IIV_CL").replace(om2, "$OMEGA  0 FIX ; IIV_VC"),
        'z_cl_fixth': code.replace(om1, "$OMEGA  0 FIX ; IIV_CL").replace("$THETA  (0,1.00916) ; POP_VC", "$THETA  (0,1.00916) FIX ; POP_VC"),
        'block': code.replace(om1 + "\n" + om2, "$OMEGA BLOCK(2)\n0.03 ; IIV_CL\n0.001 ; IIV_CL_VC\n0.03 ; IIV_VC"),
        'z_block': code.replace(om1 + "\n" + om2, "$OMEGA BLOCK(2) FIX\n0 ; IIV_CL\n0 ; IIV_CL_VC\n0 ; IIV_VC"),
        'z_eps': code.replace("Y = F + F*EPS(1)", "Y = F + F*EPS(1) + THETA(4)*EPS(2)").replace(
            "$SIGMA  0.0130865  ; SIGMA", "$SIGMA  0.0130865  ; SIGMA\n$SIGMA  0 FIX  ; SIGMA_ADD").replace(*th4),
        'eps_theta': code.replace("Y = F + F*EPS(1)", "Y = F + F*EPS(1)*THETA(4)*EXP(ETA_CL)").replace(*th4),
        'z_additive_eta': code.replace("CL = TVCL*EXP(ETA_CL)", "CL = TVCL + ETA_CL").replace(om1, "$OMEGA  0 FIX ; IIV_CL"),
        'shared_theta': code.replace("CL = TVCL*EXP(ETA_CL)", "CL = TVCL").replace(om1, "$OMEGA  0 FIX ; IIV_CL").replace(
            "VC = TVV*EXP(ETA_VC)", "VC = TVV*THETA(1)*EXP(ETA_VC)"),
        'fix_theta_prop_eta': code.replace("CL = TVCL*EXP(ETA_CL)", "CL = TVCL*(1 + ETA_CL)").replace(
            "$THETA  (0,0.00469307) ; POP_CL", "$THETA  (0,0.00469307) FIX ; POP_CL"),
    }
    with warnings.catch_warnings():
        warnings.simplefilter('ignore')
        for k, f in T.items():
            _POOL[k] = f(m)
        for k, c in C.items():
            if c == code:
                raise Refused('pool variant ' + k + ': pattern not found in the example model code')
            _POOL[k] = read_model_from_string(c).replace(dataset=m.dataset, datainfo=m.datainfo)
    return _POOL


NAMES = ct.Names()
_PRELUDE = []


def prelude():
    """Shared definitions of every cases_k.v: parameter tables and criteria observations of the pool models (exported once,
    referenced by name from the cases), with one global name <-> positive bijection."""
    if _PRELUDE:
        return _PRELUDE[0]
    P = pool()
    for n in sorted({p.name for m in P.values() for p in m.parameters}):
        NAMES.get(n)
    for n in ['m%d' % i for i in range(12)] + ['ghost', 'nobody']:
        NAMES.get(n)
    out = []
    for key, m in P.items():
        out.append(f'Definition ps_{key} : list param := {params_term(m, NAMES)}.')
        out.append(f'Definition ic_{key} : icobs := {ic_term(key)}.')
        out.append(f'Definition cat_{key} : catmodel := {cat_term(m, NAMES)}.')
    _PRELUDE.append('\n'.join(out) + '\n')
    return _PRELUDE[0]


def cat_term(model, names):
    """the REAL statements / random variables / parameters of a model as a Categorize.catmodel"""
    from harness.lib import sym2coq as sc
    from pharmpy.model import Assignment
    from pharmpy.modeling import get_individual_parameters, replace_non_random_rvs

    def stmts(ss):
        out = []
        for st in ss:
            if not isinstance(st, Assignment):
                raise Refused('non-assignment statement outside the ODE system')
            out.append(ct.pair(names.p(st.symbol.name), sc.expr(st.expression, names)))
        return ct.lst(out)
    try:
        before, after = stmts(model.statements.before_odes), stmts(model.statements.after_odes)
    except sc.Unconvertible as e:
        raise Refused('unconvertible expression: ' + str(e))
    rvs = []
    for d in model.random_variables:
        rvs.append(f"(mkRvd {ct.boolean(d.level.upper() in ('IIV', 'IOV'))} {ct.lst([names.p(n) for n in d.names])} "
                   f"{ct.lst([names.p(n) for n in d.parameter_names])})")
    zf = [p.name for p in model.parameters if p.init == 0 and p.fix]
    with warnings.catch_warnings():
        warnings.simplefilter('ignore')
        indpars = get_individual_parameters(replace_non_random_rvs(model))
    ids = lambda l: ct.lst([names.p(str(x)) for x in l])
    return (f"(mkCat {before}\n  {after}\n  {ct.lst(rvs)} {ids(zf)} {ids(model.parameters.nonfixed.names)} {ids(indpars)} "
            f"{ids(model.dependent_variables.keys())})")


def categorize_batch(ctx):
    """_categorize_parameters of every pool model: the two returned SETS against Categorize.categorize"""
    P = pool()
    prelude()
    terms, keys = [], []
    for key, m in P.items():
        tf, tr = impl()['results']._categorize_parameters(m)
        ids = lambda l: ct.lst([NAMES.p(str(x)) for x in sorted(map(str, l))])
        terms.append(f'(mkCcase cat_{key} {ids(tf)} {ids(tr)})')
        keys.append(key)
    verdicts = ctx.run_cases('categorize', 'Base.PyData Base.Expr Base.Interp C19.Model C19.Categorize C19.Check', 'ccase', terms,
                             'cverdict', shard=100, prelude=prelude())
    bad = [k for k, v in zip(keys, verdicts) if v]
    for k in bad[:3]:
        ctx.broken.append('correspondence C19 _categorize_parameters model vs implementation on pool model ' + k)
    ctx.coverage['categorize_cases'] = {'models': len(keys), 'disagreements': len(bad)}
    ctx.coverage['evaluations'] += len(keys)
    ctx.log('_categorize_parameters cases done', ctx.coverage['categorize_cases'])




_IC = {}


def ic_term(key):
    """calculate_aic / calculate_bic (all four types) of a pool model at a fixed dyadic likelihood; cached because the
    'mixed' type costs 0.1 s (symbolic expansion)"""
    if key not in _IC:
        calculate_aic, calculate_bic = impl()['results'].calculate_aic, impl()['results'].calculate_bic
        m = pool()[key]
        like = [0.0, -12.25, 586.25, 3.875][sum(map(ord, key)) % 4]
        _IC[key] = (f"(mkIc {ct.q(F(like))} {ct.q(qf(calculate_aic(m, like)))} "
                    + ct.lst([ct.q(qf(calculate_bic(m, like, type=t))) for t in ('mixed', 'fixed', 'random', 'iiv')]) + ')')
    return _IC[key]


# ------------------------------------------------------------------ strictness grammar
NUMS = ['0', '0.0625', '0.125', '0.25', '0.5', '1', '3', '3.5', '4', '.375', '1000', '1.', '0.1']
OPS = ['<', '<=', '<=', '==', '!=', '>=', '>=', '>']


def gen_strict_tree(rng, depth, names_b, names_n):
    r = rng.random()
    if depth == 0 or r < 0.35:
        if rng.random() < 0.5:
            return ('b', rng.choice(names_b))
        n = rng.choice(names_n)
        k = rng.random()
        if k < 0.6:
            return ('cmp', n, rng.choice(OPS), rng.choice(NUMS))
        if k < 0.85:
            return ('rcmp', rng.choice(NUMS), rng.choice(OPS), n)
        return ('chain', rng.choice(NUMS), rng.choice(OPS), n, rng.choice(OPS), rng.choice(NUMS))
    if r < 0.5:
        return ('not', gen_strict_tree(rng, depth - 1, names_b, names_n))
    op = 'and' if r < 0.75 else 'or'
    return (op, gen_strict_tree(rng, depth - 1, names_b, names_n), gen_strict_tree(rng, depth - 1, names_b, names_n))


def render(rng, t, parent=None):
    k = t[0]
    sp = lambda: rng.choice(['', ' ', ' ', '  '])
    if k == 'b':
        s = t[1]
    elif k == 'cmp':
        s = f'{t[1]}{sp()}{t[2]}{sp()}{t[3]}'
    elif k == 'rcmp':
        s = f'{t[1]}{sp()}{t[2]}{sp()}{t[3]}'
    elif k == 'chain':
        s = f'{t[1]} {t[2]} {t[3]} {t[4]} {t[5]}'
    elif k == 'not':
        s = 'not ' + render(rng, t[1], 'not')
    else:
        s = render(rng, t[1], k) + f' {k} ' + render(rng, t[2], k)
    need = (k in ('and', 'or') and parent is not None and parent != k) or (k == 'not' and False)
    # parentheses where Python needs them most of the time (dropping them yields another valid expression:
    # the structure is always read back with Python's own parser), and sometimes where it does not
    if (need and rng.random() < 0.85) or (not need and rng.random() < 0.15):
        s = '(' + sp() + s + sp() + ')'
    if rng.random() < 0.05:
        s = s.upper()
    return s


def strict_term(s):
    """strictness string -> Gallina sexpr, through Python's own parser (the structure eval() will see).
    Fail-closed on anything outside the documented grammar."""
    tree = ast.parse(s.lower().strip(), mode='eval').body

    def num(n):
        if isinstance(n, ast.Constant) and isinstance(n.value, (int, float)) and not isinstance(n.value, bool):
            return F(float(n.value))
        return None

    def go(n):
        if isinstance(n, ast.Name):
            if n.id not in SCONS or n.id in NUMERIC:
                raise Refused('bare name ' + n.id)
            return f'(SB {SCONS[n.id]})'
        if isinstance(n, ast.UnaryOp) and isinstance(n.op, ast.Not):
            return f'(SNot {go(n.operand)})'
        if isinstance(n, ast.BoolOp):
            c = 'SAnd' if isinstance(n.op, ast.And) else 'SOr'
            parts = [go(v) for v in n.values]
            r = parts[-1]
            for p in reversed(parts[:-1]):
                r = f'({c} {p} {r})'
            return r
        if isinstance(n, ast.Compare):
            links = []
            left = n.left
            for op, right in zip(n.ops, n.comparators):
                if type(op) not in CMP:
                    raise Refused('operator')
                o = CMP[type(op)]
                if isinstance(left, ast.Name) and left.id in NUMERIC and num(right) is not None:
                    links.append(f'(SCmp {SCONS[left.id]} {o} {ct.q(num(right))})')
                elif isinstance(right, ast.Name) and right.id in NUMERIC and num(left) is not None:
                    links.append(f'(SCmp {SCONS[right.id]} {REFLECT[o]} {ct.q(num(left))})')
                else:
                    raise Refused('comparison operands')
                left = right
            r = links[-1]
            for p in reversed(links[:-1]):
                r = f'(SAnd {p} {r})'
            return r
        raise Refused(type(n).__name__)
    return go(tree)


DEFAULT_STRICT = ['minimization_successful', 'minimization_successful or (rounding_errors and sigdigs >= 0.1)',
                  'minimization_successful or (rounding_errors and sigdigs>=0)', 'minimization_successful and rse < 0.4',
                  'minimization_successful and rse <= 0.25',
                  'minimization_successful or rounding_errors', '']
BAD_STRICT = ['minimization_successful & rounding_errors', 'minimization_successful and foo', 'rse < 1e3',
              'sigdigs > -1', 'minimization_successful | rounding_errors', 'true', 'rse_theta + 1 < 3',
              'minimization_successful and rse_eta < 3']


# ------------------------------------------------------------------ spec generator
OFVS = ['-40', '-37.5', '-36', '-35.5', '-30', '-12.25', '-3.875', '-4', '-1', '0', '0.5', '1', '3', '3.875', '7.5', '10',
        '100.125', '586.25', '1048576.5']
DYAD = ['0', '0.5', '1', '2', '3.75', '4', '10', '100', '-1', '-0.5']
ALPHAS = ['0.05', '0.01', '0.001', '0.5', '0.1']
RSEV = ['0.0625', '0.125', '0.25', '0.5', '1.0', '0.375', 'nan']
CONDV = ['0.25', '1', '4', '0.0625', '16', '250']
GRADV = ['0', '0.0', '1.5', '-2', '0.0009765625', 'nan', '3', '-0.25']
SIGD = ['nan', '0', '0.0625', '0.125', '0.1', '0.1', '1', '3', '3.5', '4']


def gen_res(rng, model, ofv_support, profile):
    npar = len(model.parameters)
    r = {}
    r['ofv'] = 'nan' if rng.random() < 0.1 else rng.choice(ofv_support)
    r['minsucc'] = rng.choice([True, True, True, False, False, None])
    r['term'] = rng.choice([None, None, 'rounding_errors', 'rounding_errors', 'maxevals_exceeded', 'other'])
    r['sigdigs'] = rng.choice(SIGD)
    r['warnings'] = [w for w in ('final_zero_gradient', 'estimate_near_boundary', 'something_else') if rng.random() < 0.25]
    miss = 0.5 if profile == 'missing' else 0.04
    if rng.random() < miss:
        r['rse'] = None
    else:
        rvs = model.random_variables
        grp = lambda n: 2 if n in rvs.epsilons.parameter_names else 1 if n in rvs.etas.parameter_names else 0
        lim = [rng.choice(RSEV[:-1]) for _ in range(3)]       # group-wise upper limits -> group criteria differ
        r['rse'] = [('nan' if rng.random() < 0.04 else
                     rng.choice([v for v in RSEV[:-1] if float(v) <= float(lim[grp(p.name)])])) for p in model.parameters]
    if rng.random() < miss:
        r['grad'] = None
    else:
        style = rng.random()
        pool_ = GRADV if style < 0.5 else [g for g in GRADV if g != 'nan'] if style < 0.8 else ['1.5', '-2', '3']
        r['grad'] = [rng.choice(pool_) for _ in range(npar)]
    r['cov'] = None if rng.random() < miss else [rng.choice(CONDV) for _ in range(npar)]
    if rng.random() < miss:
        r['est'] = None
    else:
        est = []
        for p in model.parameters:
            cands = ['0.75']        # far from every bound of the pool models
            for b in (float(p.lower), float(p.upper)):
                if math.isinf(b):
                    continue
                if b == 0:
                    cands += ['0.0005', '0.001', '0.002', '-0.0009', '0.0009999', '0']
                else:
                    cands += [repr(float(x)) for x in (b, b * 1.004, b * 0.996, b * 1.006, b * 0.994, b * 1.2)]
            est.append(rng.choice(cands) if rng.random() < (0.6 if len(cands) > 7 else 0.3) else cands[0])
        r['est'] = est
    return r


def gen_spec(rng, stream='valid'):
    P = pool()
    keys = list(P)
    n = rng.choice([0, 1, 2, 3, 3, 4, 4, 5, 6, 7, 8])
    profile = rng.choice(['full'] * 6 + ['missing'])
    base_key = 'base' if rng.random() < 0.6 else rng.choice(keys)
    mkeys = [base_key] + [rng.choice(keys) for _ in range(n)]
    labels = ['m%d' % i for i in range(n + 1)]
    rng.shuffle(labels)
    ofv_support = rng.sample(OFVS, rng.choice([1, 2, 2, 3, 3, 4, 6]))
    models = [{'pool': k, 'name': lab, 'res': gen_res(rng, P[k], ofv_support, profile)} for k, lab in zip(mkeys, labels)]
    if rng.random() < 0.15 and n >= 1:       # same structural model twice -> exact ties for aic/bic as well
        models[-1]['pool'] = models[rng.randrange(len(models) - 1)]['pool']
        models[-1]['res'] = gen_res(rng, P[models[-1]['pool']], ofv_support, profile)
    # the base model: mostly a successful run (otherwise the reference value is NaN most of the time)
    b = models[0]['res']
    if rng.random() < 0.8:
        b.update(ofv=rng.choice(ofv_support), minsucc=True, term=None, sigdigs=rng.choice(['3', '3.5', '5']), warnings=[])
        if b['rse'] is not None:
            b['rse'] = [rng.choice(['0.0625', '0.125', '0.25']) for _ in b['rse']]
        if b['grad'] is not None:
            b['grad'] = [rng.choice(['1.5', '-2', '3']) for _ in b['grad']]
    elif rng.random() < 0.4:
        b['ofv'] = 'nan'
    for m in models[1:]:                      # candidates: more successful runs than failures
        if rng.random() < 0.4:
            m['res'].update(minsucc=True, term=None)
    rt = rng.choice(['ofv', 'ofv', 'aic', 'bic', 'bic', 'lrt', 'lrt'])
    if rt == 'lrt' and rng.random() < 0.7:
        grid = [repr(k / 4) for k in range(-64, 33)]
        for m in models:
            if m['res']['ofv'] != 'nan':
                m['res']['ofv'] = rng.choice(grid)
        if rng.random() < 0.7 and models[0]['res']['ofv'] != 'nan':
            models[0]['res']['ofv'] = '0'
    spec = {'models': models, 'rank_type': rt, 'bic_type': rng.choice(['mixed', 'fixed', 'random', 'iiv']),
            'cutoff': None, 'penalties': None, 'parent': None, 'strict_invalid': False}
    if rt == 'lrt':
        k = rng.random()
        if k < 0.3:
            spec['cutoff'] = rng.choice(ALPHAS)
        elif k < 0.65:
            spec['cutoff'] = rng.sample(ALPHAS, 2)
        if rng.random() < 0.5 and n >= 1:
            spec['parent'] = {m['name']: rng.choice(models)['name'] for m in models[1:]}
        # objective values placed next to the chi-square cut-offs of the alphas in play (boundary cases of the test)
        from scipy import stats
        co = spec['cutoff']
        alphas = [co] if isinstance(co, str) else list(co) if co else ['0.05', '0.01']
        byname = {m['name']: m for m in models}
        for m in models[1:]:
            par = byname[(spec['parent'] or {}).get(m['name'], models[0]['name'])]
            if rng.random() < 0.6 and par['res']['ofv'] != 'nan' and m['res']['ofv'] != 'nan' and par is not m:
                df = len(P[m['pool']].parameters) - len(P[par['pool']].parameters)
                if df != 0:
                    c = float(stats.chi2.isf(q=float(rng.choice(alphas)), df=abs(df)))
                    dofv = (round(c * 4) + rng.choice([-1, 0, 1])) / 4 * (1 if df > 0 else -1)
                    m['res']['ofv'] = repr(float(par['res']['ofv']) - dofv)
                    m['res'].update(minsucc=True, term=None)
    else:
        if rng.random() < 0.5:
            spec['cutoff'] = rng.choice(DYAD)
            vals = [float(m['res']['ofv']) for m in models if m['res']['ofv'] != 'nan']
            if rng.random() < 0.5 and len(vals) >= 2 and models[0]['res']['ofv'] != 'nan':
                # a cut-off exactly at an occurring difference (dyadic): the boundary case of `<=`
                spec['cutoff'] = repr(vals[0] - rng.choice(vals[1:]) + rng.choice([0, 0, 0, 2, -2, 4]))
        if rng.random() < 0.15 and n >= 1:
            spec['parent'] = {m['name']: rng.choice(models)['name'] for m in models[1:]}
    if rng.random() < 0.4:
        spec['penalties'] = [rng.choice(DYAD) for _ in range(n + 1)]
    k = rng.random()
    if k < 0.45:
        spec['strictness'] = rng.choice(DEFAULT_STRICT)
    else:
        nb = BOOLEAN if rng.random() < 0.7 else ['minimization_successful', 'rounding_errors', 'maxevals_exceeded']
        nn = sorted(NUMERIC) if rng.random() < 0.7 else ['sigdigs', 'rse']
        spec['strictness'] = render(rng, gen_strict_tree(rng, rng.choice([1, 2, 2, 3]), nb, nn))
    spec['xstrict'] = [render(rng, gen_strict_tree(rng, rng.choice([0, 0, 1, 2]), BOOLEAN, sorted(NUMERIC))) for _ in range(8)]
    spec['lrt_pairs'] = [[rng.randrange(n + 1), rng.randrange(n + 1), rng.choice(ALPHAS)] for _ in range(3)]
    spec['bom'] = [[rng.randrange(n + 1), [rng.randrange(n + 1) for _ in range(rng.choice([0, 1, 2, 3, 4]))],
                    rng.choice(ALPHAS)] for _ in range(2)]
    if stream == 'malformed':
        k = rng.choice(['strict', 'strict', 'pen', 'rt', 'bic', 'parent'])
        if k == 'strict':
            spec['strictness'] = rng.choice(BAD_STRICT)
            spec['strict_invalid'] = True
        elif k == 'pen':
            spec['penalties'] = [rng.choice(DYAD) for _ in range(rng.choice([0, 1, n, n + 2]))]
        elif k == 'rt':
            spec['rank_type'] = rng.choice(['mbic', 'OFV', 'xyz'])
        elif k == 'bic':
            spec['rank_type'] = 'bic'
            spec['bic_type'] = None
        elif k == 'parent':
            spec['rank_type'] = 'lrt'
            spec['cutoff'] = None
            spec['parent'] = {m['name']: rng.choice(models)['name'] for m in models[1:] if rng.random() < 0.6}
            spec['parent']['ghost'] = 'm0'
            if models[1:] and rng.random() < 0.5:
                spec['parent'][models[-1]['name']] = 'nobody'
    return spec


# ------------------------------------------------------------------ implementation side
def fl(s):
    return float(s)


def qf(x):
    """exact rational of a float; NaN -> None"""
    x = float(x)
    if math.isnan(x):
        return None
    if math.isinf(x):
        raise Refused('infinite value')
    return F(x)


def oq(x):
    v = qf(x)
    return 'None' if v is None else f'(Some {ct.q(v)})'


def build_results(model, r):
    import numpy as np
    import pandas as pd
    from pharmpy.workflows import ModelfitResults
    from pharmpy.workflows.log import Log
    names = model.parameters.names
    kw = dict(ofv=fl(r['ofv']), minimization_successful=r['minsucc'], termination_cause=r['term'],
              significant_digits=fl(r['sigdigs']), warnings=list(r['warnings']), log=Log())
    if r['rse'] is not None:
        kw['relative_standard_errors'] = pd.Series([fl(v) for v in r['rse']], index=names)
    if r['grad'] is not None:
        kw['gradients'] = pd.Series([fl(v) for v in r['grad']], index=names)
    if r['cov'] is not None:
        kw['covariance_matrix'] = pd.DataFrame(np.diag([fl(v) for v in r['cov']]), index=names, columns=names)
    if r['est'] is not None:
        kw['parameter_estimates'] = pd.Series([fl(v) for v in r['est']], index=names)
    return ModelfitResults(**kw)


def errclass(e):
    if isinstance(e, KeyError):
        return 'EKey'
    if isinstance(e, ValueError):
        return 'EValue'
    return 'EInternal'


def series_term(ser, names):
    return ct.lst([ct.pair(names.p(k), oq(v)) for k, v in ser.items()])


def params_term(model, names):
    rvs = model.random_variables
    iiv, etas, eps = set(rvs.iiv.parameter_names), set(rvs.etas.parameter_names), set(rvs.epsilons.parameter_names)
    ps = []
    for p in model.parameters:
        kind = 'KSigma' if p.name in eps else 'KOmegaIIV' if p.name in iiv else 'KOmegaIOV' if p.name in etas else 'KTheta'
        lo = 'None' if math.isinf(p.lower) else f'(Some {ct.q(F(float(p.lower)))})'
        up = 'None' if math.isinf(p.upper) else f'(Some {ct.q(F(float(p.upper)))})'
        ps.append(f'(mkParam {names.p(p.name)} {kind} {ct.boolean(bool(p.fix))} {lo} {up})')
    return ct.lst(ps)


def cand_term(model, res, key, names):
    """export of the REAL objects: Model (parameters, random-variable structure, dataset sizes) + ModelfitResults"""
    import numpy as np
    from pharmpy.modeling import get_ids, get_observations
    tc = res.termination_cause
    term = {None: 'TNone', 'rounding_errors': 'TRounding', 'maxevals_exceeded': 'TMaxevals'}.get(tc, 'TOther')
    rse, grd, cov, est = res.relative_standard_errors, res.gradients, res.covariance_matrix, res.parameter_estimates
    cond = 'None' if cov is None else f'(Some {oq(np.linalg.cond(cov))})'
    rr = (f"(mkRes {ct.boolean(bool(res.minimization_successful))} {term} {oq(res.significant_digits)} "
          f"{ct.boolean('final_zero_gradient' in res.warnings)} {ct.boolean('estimate_near_boundary' in res.warnings)} "
          f"{'None' if rse is None else '(Some ' + series_term(rse, names) + ')'} "
          f"{'None' if grd is None else '(Some ' + series_term(grd, names) + ')'} {cond} "
          f"{'None' if est is None else '(Some ' + ct.lst([ct.pair(names.p(k), ct.q(qf(v))) for k, v in est.items()]) + ')'})")
    return (f"(mkCand {names.p(model.name)} {oq(res.ofv)} ps_{key} (cat_nfix cat_{key}) (cat_nrand cat_{key}) "
            f"{ct.pos(len(get_ids(model)))} {ct.pos(len(get_observations(model)))}\n    {rr})")


def df_rows(df, names, rt):
    col = 'ofv' if rt == 'lrt' else rt
    rows = []
    for name, r in df.iterrows():
        rk = r['rank']
        rank = 'None' if rk != rk else f'(Some {ct.nat(int(rk))})'
        rows.append((name, f"(mkRow {names.p(name)} {oq(r['d' + col])} {oq(r[col])} {rank})"))
    return rows


def observe(spec):
    """Run the implementation on a spec; returns (coq case term, info)."""
    import numpy as np
    lrt = impl()['lrt']
    ToolResults, create_results = impl()['common'].ToolResults, impl()['common'].create_results
    is_strictness_fulfilled, rank_models = impl()['run'].is_strictness_fulfilled, impl()['run'].rank_models
    from pharmpy.workflows import ModelEntry
    from scipy import stats
    P = pool()
    prelude()
    names = NAMES
    info = {'n': len(spec['models']) - 1, 'rt': spec['rank_type']}
    ms, rs = [], []
    for m in spec['models']:
        model = P[m['pool']].replace(name=m['name'])
        ms.append(model)
        rs.append(build_results(model, m['res']))
    for m in ms:
        names.get(m.name)
    cands = [cand_term(m, r, s['pool'], names) for m, r, s in zip(ms, rs, spec['models'])]
    # configuration
    rt = spec['rank_type']
    bt = spec['bic_type']
    rt_term = {'ofv': 'RT_ofv', 'aic': 'RT_aic', 'lrt': 'RT_lrt'}.get(rt)
    if rt == 'bic':
        rt_term = '(RT_bic ' + ('None' if bt is None else '(Some ' + {'mixed': 'BMixed', 'fixed': 'BFixed', 'random': 'BRandom', 'iiv': 'BIiv'}[bt] + ')') + ')'
    if rt_term is None:
        rt_term = 'RT_unknown'
    co = spec['cutoff']
    if co is None:
        co_term, co_arg = 'CoNone', None
    elif isinstance(co, list):
        co_term, co_arg = f'(CoPair {ct.q(F(fl(co[0])))} {ct.q(F(fl(co[1])))})', (fl(co[0]), fl(co[1]))
    else:
        co_term, co_arg = f'(CoNum {ct.q(F(fl(co)))})', fl(co)
    pen = spec['penalties']
    pen_term = 'None' if pen is None else '(Some ' + ct.lst([ct.q(F(fl(p))) for p in pen]) + ')'
    pen_arg = None if pen is None else [fl(p) for p in pen]
    par = spec['parent']
    par_term = ct.lst([ct.pair(names.p(k), names.p(v)) for k, v in (par or {}).items()])
    strict = spec['strictness']
    if spec.get('strict_invalid'):
        st_term = 'StInvalid'
    elif strict.strip() == '':
        st_term = 'StEmpty'
    else:
        st_term = f'(StExpr {strict_term(strict)})'
    cf = f'(mkConfig {rt_term} {co_term} {pen_term} {par_term} {st_term})'
    # ---- implementation calls
    with warnings.catch_warnings():
        warnings.simplefilter('ignore')
        stricts = []
        for m, r in zip(ms, rs):
            try:
                v = is_strictness_fulfilled(m, r, strict)
                stricts.append(f'(Ok {ct.boolean(bool(v))})')      # the truth value, as rank_models tests it
            except Exception as e:
                stricts.append(f'(Err {errclass(e)})')
        info['strict'] = stricts
        xs = []
        for xsx in spec.get('xstrict', []):
            obs = []
            for m, r in zip(ms, rs):
                try:
                    obs.append(f'(Ok {ct.boolean(bool(is_strictness_fulfilled(m, r, xsx)))})')
                except Exception as e:
                    obs.append(f'(Err {errclass(e)})')
            xs.append(f'({strict_term(xsx)}, {ct.lst(obs)})')
        info['nx'] = len(xs) * len(ms)
        ics = ['ic_' + s_['pool'] for s_ in spec['models']]
        kwargs = {}
        if rt == 'bic' and bt is not None:
            kwargs['bic_type'] = bt
        try:
            df = rank_models(ms[0], rs[0], ms[1:], rs[1:], parent_dict=par, strictness=strict, rank_type=rt,
                             cutoff=co_arg, penalties=pen_arg, **kwargs)
            rows = df_rows(df, names, rt)
            rank_term = '(Ok ' + ct.lst([t for _, t in rows]) + ')'
            info['ranked'] = int(df['rank'].notna().sum())
            info['ties'] = int(df['rank'].dropna().duplicated().sum())
            info['refnan'] = bool(df.iloc[:, 0].isna().all())
            info['rank_err'] = None
        except Exception as e:
            rank_term = f'(Err {errclass(e)})'
            info['rank_err'] = type(e).__name__
            info['ranked'] = 0
        tool_term = 'None'
        if par is None and not isinstance(co_arg, tuple) and rt in ('ofv', 'aic', 'bic', 'lrt'):
            entries = [ModelEntry.create(model=m, modelfit_results=r) for m, r in zip(ms, rs)]
            try:
                res = create_results(ToolResults, entries[0], entries[0], entries[1:], rt, co_arg, bic_type=bt,
                                     strictness=strict, penalties=pen_arg)
                st = res.summary_tool
                trs = []
                for (name, t), (_, r) in zip(df_rows(st, names, rt), st.iterrows()):
                    trs.append(f"(mkTrow {names.p(name)} {ct.z(int(r['n_params']))} {ct.z(int(r['d_params']))} {t})")
                tool_term = f'(Some (Ok ({ct.lst(trs)}, {names.p(res.final_model.name)})))'
                info['best'] = res.final_model.name
            except Exception as e:
                tool_term = f'(Some (Err {errclass(e)}))'
                info['tool_err'] = type(e).__name__
        # lrt helper functions on pairs
        lrts, isf_need, sf_tab = [], set(), []
        for pi, ci, a in spec['lrt_pairs']:
            alpha = fl(a)
            p, c, po, cofv = ms[pi], ms[ci], rs[pi].ofv, rs[ci].ofv
            d = lrt.degrees_of_freedom(p, c)
            cut = lrt.cutoff(p, c, alpha)
            pv = lrt.p_value(p, c, po, cofv)
            t = lrt.test(p, c, po, cofv, alpha)
            b = lrt.best_of_two(p, c, po, cofv, alpha)
            if not (math.isnan(po) or math.isnan(cofv)):
                sf_tab.append(f'({ct.q(F(po) - F(cofv))}, {ct.z(d)}, {oq(float(stats.chi2.sf(x=po - cofv, df=d)))})')
            lrts.append(f"(mkLrt {ct.nat(pi)} {ct.nat(ci)} {ct.q(F(alpha))} {ct.z(d)} {oq(cut)} {oq(pv)} "
                        f"{ct.boolean(bool(t))} {names.p(b.name)})")
        boms = []
        for pi, idxs, a in spec['bom']:
            alpha = fl(a)
            try:
                b = lrt.best_of_many(ms[pi], [ms[i] for i in idxs], rs[pi].ofv, [rs[i].ofv for i in idxs], alpha)
                bt_ = f'(Some {names.p(b.name)})'
            except IndexError:
                bt_ = 'None'
            boms.append(f"(mkBom {ct.nat(pi)} {ct.lst([ct.nat(i) for i in idxs])} {ct.q(F(alpha))} {bt_})")
    # ---- oracle tables (engine values: math.log, scipy chi2.isf)
    from pharmpy.modeling import get_ids, get_observations
    ns = sorted({len(get_ids(m)) for m in ms} | {len(get_observations(m)) for m in ms})
    logs = ct.lst([f'({ct.pos(n)}, {ct.q(F(math.log(n)))})' for n in ns])
    alphas = {fl(a) for _, _, a in spec['lrt_pairs']} | {fl(a) for _, _, a in spec['bom']} | {0.05, 0.01}
    if rt == 'lrt' and isinstance(co_arg, tuple):
        alphas |= set(co_arg)
    elif rt == 'lrt' and co_arg is not None:
        alphas.add(co_arg)
    npars = {len(m.parameters) for m in ms}
    dfs = sorted({abs(a - b) for a in npars for b in npars} - {0})
    isf = ct.lst([f'({ct.q(F(a))}, {ct.pos(d)}, {oq(float(stats.chi2.isf(q=a, df=d)))})' for a in sorted(alphas) for d in dfs])
    term = ('(mkCase ' + cands[0] + '\n  ' + ct.lst(cands[1:]) + '\n  ' + cf + '\n  ' + logs + '\n  ' + isf + '\n  '
            + ct.lst(sf_tab) + '\n  ' + ct.lst(stricts) + '\n  ' + ct.lst(ics) + '\n  ' + rank_term + '\n  ' + tool_term
            + '\n  ' + ct.lst(lrts) + '\n  ' + ct.lst(boms) + '\n  ' + ct.lst(xs) + ')')
    info['nsub'] = info['nx'] + len(stricts) + len(ics) * 5 + 1 + (0 if tool_term == 'None' else 1) + len(lrts) * 5 + len(boms)
    return term, info


# ------------------------------------------------------------------ calculate_bic_penalty (list search spaces)
SSOPT = {'iiv_diag': 'SS_iiv_diag', 'iiv_block': 'SS_iiv_block', 'iov': 'SS_iov'}
E_VALUES = [None] + ['1', '1', '2', '2', '0.5', '0.5', '4', '0.25', '8', '1', '2'] * 2 + ['0']


def gen_pen_spec(rng):
    keys = list(pool())
    ss = rng.choice([['iiv_diag'], ['iiv_block'], ['iov'], ['iiv_diag', 'iiv_block'], ['iiv_diag', 'iov'], ['iov', 'iiv_diag']] * 3
                    + [['iiv_block', 'iov'], [], ['iiv_diag', 'iiv_diag'], ['iiv_diag', 'covariates'], ['IIV_DIAG']])
    rich = ['iiv_periph', 'joint', 'iov', 'iiv_on_ruv', 'base', 'fix_iivcl', 'rmiiv_cl', 'rmiiv_all', 'fix0_iivvc']
    return {'base': None if rng.random() < 0.05 else rng.choice(rich if rng.random() < 0.7 else keys),
            'cand': rng.choice(rich if rng.random() < 0.7 else keys), 'ss': ss,
            'keep': rng.choice([None, None, None, None, None, [], ['ETA_CL'], ['ETA_CL', 'ETA_VC']]),
            'E_p': rng.choice(E_VALUES), 'E_q': rng.choice(E_VALUES)}


def rv_term(model, names):
    ds = []
    for d in model.random_variables.etas:
        from pharmpy.model import NormalDistribution
        var = [d.variance] if isinstance(d, NormalDistribution) else list(d.variance.diagonal())
        vnames = [str(v) for v in var]
        others = [p for p in d.parameter_names if p not in vnames]
        ds.append(f"(mkDist {'LIIV' if d.level.upper() == 'IIV' else 'LIOV'} {ct.lst([names.p(v) for v in vnames])} "
                  f"{ct.lst([names.p(v) for v in others])})")
    return f"(mkRv {ct.lst(ds)} {ct.lst([names.p(n) for n in model.parameters.fixed.names])})"


def observe_pen(spec):
    run = impl()['run']
    P = pool()
    prelude()
    names = NAMES
    base = None if spec['base'] is None else P[spec['base']]
    cand = P[spec['cand']]
    Ep = None if spec['E_p'] is None else float(spec['E_p'])
    Eq = None if spec['E_q'] is None else float(spec['E_q'])
    with warnings.catch_warnings():
        warnings.simplefilter('ignore')
        try:
            v = run.calculate_bic_penalty(cand, list(spec['ss']), base_model=base, E_p=Ep, E_q=Eq, keep=spec['keep'])
            obs = f'(Ok {ct.q(qf(v))})'
        except Exception as e:
            obs = f'(Err {errclass(e)})'
        counts = 'None'
        if base is not None and all(o in SSOPT for o in spec['ss']):
            c = run.get_penalty_parameters_rvs(base, cand, list(spec['ss']), spec['keep'])
            counts = '(Some (' + ', '.join(ct.z(int(x)) for x in c) + '))'
    xs = set()
    for E in (Ep if Ep is not None else 1.0, Eq if Eq is not None else 1.0):
        if E != 0:
            xs |= {F(n) / F(E) for n in ([1] + ([int(x) for x in c] if counts != 'None' else []))}
    logs = [f'({ct.q(x)}, ' + ('None' if x <= 0 else f'(Some {ct.q(F(math.log(float(x))))})') + ')' for x in sorted(xs)]
    oqs = lambda e: 'None' if e is None else f'(Some {ct.q(F(e))})'
    return (f"(mkPcase {'None' if base is None else '(Some ' + rv_term(base, names) + ')'} {rv_term(cand, names)} "
            f"{ct.lst([SSOPT.get(o, 'SS_other') for o in spec['ss']])} {ct.nat(len(spec['keep'] or []))} {oqs(Ep)} {oqs(Eq)}\n  "
            f"{ct.lst(logs)} {counts} {obs})"), obs


def penalty_batch(ctx, n):
    specs = [gen_pen_spec(ctx.rng) for _ in range(n)]
    terms, obs = [], []
    for sp in specs:
        t, o = observe_pen(sp)
        terms.append(t)
        obs.append(o)
    verdicts = ctx.run_cases('penalty', 'C19.Model C19.Penalty', 'pcase', terms, 'pverdict', shard=100)
    bad = [(sp, v) for sp, v in zip(specs, verdicts) if v]
    for sp, v in bad[:3]:
        ctx.broken.append('correspondence C19 calculate_bic_penalty model vs implementation on ' + json.dumps(sp))
    ctx.coverage['penalty_cases'] = {'cases': len(specs), 'values': sum(1 for o in obs if o.startswith('(Ok')),
                                     'nonzero': sum(1 for o in obs if o.startswith('(Ok') and '(0#1)' not in o),
                                     'errors': sum(1 for o in obs if o.startswith('(Err')), 'disagreements': len(bad)}
    ctx.coverage['evaluations'] += len(specs)
    ctx.log('calculate_bic_penalty cases done', ctx.coverage['penalty_cases'])


# ------------------------------------------------------------------ summarize_modelfit_results_from_entries
def gen_sum_spec(rng):
    keys = ['base', 'periph', 'rmiiv_cl', 'comb', 'joint']
    P = pool()
    entries = []
    dv = lambda: rng.choice(['nan'] + [repr(k / 8) for k in range(-80, 81, 7)])
    for j in range(rng.choice([1, 1, 2, 3, 4])):
        if rng.random() < 0.08:
            entries.append(None)
            continue
        key = rng.choice(keys)
        npar = len(P[key].parameters)
        if rng.random() < 0.1:
            entries.append({'pool': key, 'name': 'm%d' % j, 'res': None})
            continue
        k = rng.choice([1, 1, 2, 3])
        steps = sorted(rng.sample([1, 2, 3, 4], k)) if rng.random() < 0.1 else list(range(1, k + 1))
        its = {st: rng.choice([1, 2, 3]) for st in steps}
        r = {'minsucc': rng.choice([True, True, False, None]), 'ofv': dv(), 'pe': [dv() for _ in range(npar)],
             'ofv_iter': None if rng.random() < 0.3 else [[st, it, dv()] for st in steps for it in range(its[st])],
             'pe_iter': None if rng.random() < 0.3 else [[st, it, [dv() for _ in range(npar)]] for st in steps for it in range(its[st])],
             'se': None if rng.random() < 0.3 else [dv() for _ in range(npar)],
             'rse': None if rng.random() < 0.3 else [dv() for _ in range(npar)],
             'minsucc_iter': [rng.random() < 0.6 for _ in range(k)], 'evaluation': [rng.random() < 0.3 for _ in range(k)],
             'nerr': rng.choice([0, 0, 1, 2]), 'nwarn': rng.choice([0, 1, 3]),
             'runtime_total': rng.choice(['nan', '1.5', '12', '0.25']),
             'est_rt': None if rng.random() < 0.4 else [rng.choice(['nan', '0.5', '2', '7.25', '3']) for _ in range(k)]}
        if rng.random() < 0.75 and (r['ofv_iter'] is None) != (r['pe_iter'] is None):      # usually both tables or none
            r['ofv_iter'] = r['pe_iter'] = None
        if r['pe_iter'] is not None and rng.random() < 0.07:
            r['pe_iter'] = [x for x in r['pe_iter'] if x[0] != steps[-1]] or r['pe_iter']     # a step missing -> KeyError
        entries.append({'pool': key, 'name': 'm%d' % j, 'res': r})
    return {'all_steps': rng.random() < 0.4, 'entries': entries}


def observe_sum(spec):
    import pandas as pd
    from pharmpy.workflows import ModelEntry, ModelfitResults
    from pharmpy.workflows.log import Log
    run = impl()['run']
    P = pool()
    prelude()
    names = NAMES
    mes, terms = [], []
    olist = lambda vals, pn: ct.lst([ct.pair(names.p(n), oq(fl(v))) for n, v in zip(pn, vals)])
    for e in spec['entries']:
        if e is None:
            mes.append(None)
            terms.append('None')
            continue
        model = P[e['pool']].replace(name=e['name'])
        pn = model.parameters.names
        r = e['res']
        if r is None:
            mes.append(ModelEntry.create(model=model, modelfit_results=None))
            terms.append(f'(Some ({names.p(e["name"])}, None))')
            continue
        log = Log()
        for i in range(r['nerr']):
            log = log.log_error(f'e{i}')
        for i in range(r['nwarn']):
            log = log.log_warning(f'w{i}')
        k = len(r['evaluation'])
        kw = dict(ofv=fl(r['ofv']), minimization_successful=r['minsucc'], parameter_estimates=pd.Series([fl(v) for v in r['pe']], index=pn),
                  minimization_successful_iterations=pd.Series(r['minsucc_iter'], index=range(1, k + 1), dtype=bool),
                  evaluation=pd.Series(r['evaluation'], index=range(1, k + 1), dtype=bool), log=log,
                  runtime_total=fl(r['runtime_total']), warnings=[])
        if r['est_rt'] is not None:
            kw['estimation_runtime_iterations'] = pd.Series([fl(v) for v in r['est_rt']], index=range(1, k + 1))
        if r['ofv_iter'] is not None:
            kw['ofv_iterations'] = pd.Series([fl(v) for _, _, v in r['ofv_iter']], name='OFV', index=pd.MultiIndex.from_tuples(
                [(st, it) for st, it, _ in r['ofv_iter']], names=['steps', 'iteration']))
        if r['pe_iter'] is not None:
            kw['parameter_estimates_iterations'] = pd.DataFrame([[fl(v) for v in row] for _, _, row in r['pe_iter']], columns=pn,
                index=pd.MultiIndex.from_tuples([(st, it) for st, it, _ in r['pe_iter']], names=['step', 'iteration']))
        if r['se'] is not None:
            kw['standard_errors'] = pd.Series([fl(v) for v in r['se']], index=pn)
        if r['rse'] is not None:
            kw['relative_standard_errors'] = pd.Series([fl(v) for v in r['rse']], index=pn)
        mes.append(ModelEntry.create(model=model, modelfit_results=ModelfitResults(**kw)))
        oi = 'None' if r['ofv_iter'] is None else '(Some ' + ct.lst([ct.pair(ct.nat(st), oq(fl(v))) for st, _, v in r['ofv_iter']]) + ')'
        pi = 'None' if r['pe_iter'] is None else '(Some ' + ct.lst([ct.pair(ct.nat(st), olist(row, pn)) for st, _, row in r['pe_iter']]) + ')'
        ms = 'None' if r['minsucc'] is None else f'(Some {ct.boolean(r["minsucc"])})'
        terms.append(f"(Some ({names.p(e['name'])}, Some (mkSres {ms} {oq(fl(r['ofv']))} {oi} {olist(r['pe'], pn)} {pi} "
                     f"{'None' if r['se'] is None else '(Some ' + olist(r['se'], pn) + ')'} "
                     f"{'None' if r['rse'] is None else '(Some ' + olist(r['rse'], pn) + ')'} "
                     f"{ct.lst([ct.boolean(b) for b in r['minsucc_iter']])} {ct.lst([ct.boolean(b) for b in r['evaluation']])} "
                     f"{ct.nat(r['nerr'])} {ct.nat(r['nwarn'])} {oq(fl(r['runtime_total']))} "
                     f"{'None' if r['est_rt'] is None else '(Some ' + ct.lst([oq(fl(v)) for v in r['est_rt']]) + ')'})))")
    with warnings.catch_warnings():
        warnings.simplefilter('ignore')
        try:
            df = run.summarize_modelfit_results_from_entries(mes, include_all_execution_steps=spec['all_steps'])
            rows = []
            byname = {e['name']: P[e['pool']].parameters.names for e in spec['entries'] if e is not None}
            for idx, row in df.iterrows():
                name, step = (idx if isinstance(idx, tuple) else (idx, None))
                cols = []
                for n in byname[name]:
                    g = lambda c: oq(row[c]) if c in df.columns else 'None'
                    cols.append(f"({names.p(n)}, {g(n + '_estimate')}, {g(n + '_SE')}, {g(n + '_RSE')})")
                ev = 'None' if step is None else f"(Some {ct.boolean(row['run_type'] == 'evaluation')})"
                rows.append(f"(mkSrow {names.p(name)} {'None' if step is None else '(Some ' + ct.nat(int(step)) + ')'} {ev} "
                            f"{ct.boolean(bool(row['minimization_successful']))} {ct.nat(int(row['errors_found']))} "
                            f"{ct.nat(int(row['warnings_found']))} {oq(row['ofv'])} {ct.lst(cols)} {oq(row['runtime_total'])} "
                            f"{oq(row['estimation_runtime'])})")
            obs = '(Ok ' + ct.lst(rows) + ')'
        except Exception as e:
            obs = f'(Err {errclass(e)})'
    return f"(mkScase {ct.boolean(spec['all_steps'])} {ct.lst(terms)}\n  {obs})", obs


def summary_batch(ctx, n):
    specs = [gen_sum_spec(ctx.rng) for _ in range(n)]
    terms, obs = [], []
    for sp in specs:
        t, o = observe_sum(sp)
        terms.append(t)
        obs.append(o)
    verdicts = ctx.run_cases('summary', 'C19.Model C19.Summary', 'scase', terms, 'sverdict', shard=100)
    bad = [(sp, v) for sp, v in zip(specs, verdicts) if v]
    for sp, v in bad[:3]:
        ctx.broken.append('correspondence C19 summarize_modelfit_results model vs implementation on ' + json.dumps(sp)[:800])
    ctx.coverage['summary_cases'] = {'cases': len(specs), 'tables': sum(1 for o in obs if o.startswith('(Ok')),
                                     'errors': sum(1 for o in obs if o.startswith('(Err')),
                                     'all_steps': sum(1 for sp in specs if sp['all_steps']), 'disagreements': len(bad)}
    ctx.coverage['evaluations'] += len(specs)
    ctx.log('summarize_modelfit_results cases done', ctx.coverage['summary_cases'])
    return bad


_MFLC = {}
MFL_ABS = [['FO'], ['FO', 'ZO'], ['FO', 'ZO', 'SEQ-ZO-FO'], ['FO', 'INST'], ['INST', 'FO', 'ZO', 'SEQ-ZO-FO'], ['ZO', 'SEQ-ZO-FO']]
MFL_EL = [['FO'], ['FO', 'MM'], ['MM', 'FO'], ['FO', 'MM', 'MIX-FO-MM'], ['MIX-FO-MM', 'FO'], ['MM', 'MIX-FO-MM']]
MFL_TR = ['TRANSITS(0)', 'TRANSITS([0,1,3],*)', 'TRANSITS([0,3],DEPOT)', 'TRANSITS([0,1,3,10],NODEPOT)', 'TRANSITS([1,3],*)', None]
MFL_PE = ['PERIPHERALS(0)', 'PERIPHERALS(0..1)', 'PERIPHERALS(0..2)', 'PERIPHERALS(1..2)', None]
MFL_LAG = ['LAGTIME(OFF)', 'LAGTIME([OFF,ON])', 'LAGTIME(ON)', None]


def mfl_candidates():
    if _MFLC:
        return _MFLC
    from pharmpy.modeling import (add_lag_time, add_peripheral_compartment, load_example_model, set_first_order_absorption,
                                  set_michaelis_menten_elimination, set_mixed_mm_fo_elimination, set_seq_zo_fo_absorption,
                                  set_transit_compartments, set_zero_order_absorption)
    from pharmpy.tools.mfl.parse import ModelFeatures, get_model_features, parse
    m = load_example_model('pheno')
    with warnings.catch_warnings():
        warnings.simplefilter('ignore')
        fo = set_first_order_absorption(m)
        C = {'inst': m, 'fo': fo, 'zo': set_zero_order_absorption(m), 'seq': set_seq_zo_fo_absorption(m),
             'fo_lag': add_lag_time(fo), 'fo_mm': set_michaelis_menten_elimination(fo), 'fo_mix': set_mixed_mm_fo_elimination(fo),
             'fo_p1': add_peripheral_compartment(fo), 'fo_p2': add_peripheral_compartment(add_peripheral_compartment(fo)),
             'fo_t1': set_transit_compartments(fo, 1), 'fo_t3': set_transit_compartments(fo, 3),
             'fo_t3nd': set_transit_compartments(fo, 3, keep_depot=False),
             'seq_lag_p1': add_peripheral_compartment(add_lag_time(set_seq_zo_fo_absorption(m)))}
        for k, mm in C.items():
            cm = parse(get_model_features(mm), mfl_class=True)       # as calculate_bic_penalty prepares the candidate
            cm = ModelFeatures.create(absorption=cm.absorption, elimination=cm.elimination, transits=cm.transits,
                                      peripherals=cm.peripherals, lagtime=cm.lagtime)
            _MFLC[k] = (mm, cm)
    return _MFLC


def mfl_in_term(ss, cm):
    """the EXPANDED attributes of the search space and of the candidate (real ModelFeatures objects)"""
    AB = {'FO': 'AB_FO', 'ZO': 'AB_ZO', 'SEQ-ZO-FO': 'AB_SEQ', 'INST': 'AB_INST'}
    EL = {'FO': 'EL_FO', 'MM': 'EL_MM', 'MIX-FO-MM': 'EL_MIX'}
    one = lambda a: a[0] if isinstance(a, tuple) else a
    def attr(name):
        a = getattr(cm, name)
        if not a:
            return None, None
        return one(a), one(getattr(ss, name))
    a, sa = attr('_absorption')
    ab = 'None' if a is None else f"(Some ({ct.lst([AB[x.name] for x in sa.modes])}, {AB[a.modes[0].name]}))"
    e, se = attr('_elimination')
    el = 'None' if e is None else f"(Some ({ct.lst([EL[x.name] for x in se.modes])}, {EL[e.modes[0].name]}))"
    t, st = attr('_transits')
    hd = lambda x: 'DEPOT' in [md.name for md in x.depot]
    tr = 'None' if t is None else (f"(Some ({ct.nat(len(st))}, {ct.boolean(hd(st.eval))}, {ct.lst([ct.z(int(c)) for c in st.counts])}, "
                                   f"{ct.boolean(hd(t))}, {ct.z(int(t.counts[0]))}))")
    pe_, sp = attr('_peripherals')
    pe = 'None' if pe_ is None else f"(Some ({ct.nat(len(sp))}, {ct.z(int(pe_.counts[0]))}))"
    l, sl = attr('_lagtime')
    la = 'None' if l is None else f"(Some ({ct.nat(len(sl))}, {ct.boolean(l.modes[0].name == 'ON')}))"
    return f'(mkMfl {ab} {el} {tr} {pe} {la})'


def mfl_batch(ctx, n):
    """calculate_bic_penalty / get_penalty_parameters_mfl for MFL search-space strings"""
    from pharmpy.tools.mfl.parse import parse
    run = impl()['run']
    C = mfl_candidates()
    terms, nerr = [], 0
    for _ in range(n):
        parts = ['ABSORPTION(' + (lambda l: l[0] if len(l) == 1 else '[' + ','.join(l) + ']')(ctx.rng.choice(MFL_ABS)) + ')',
                 'ELIMINATION(' + (lambda l: l[0] if len(l) == 1 else '[' + ','.join(l) + ']')(ctx.rng.choice(MFL_EL)) + ')']
        parts += [x for x in (ctx.rng.choice(MFL_TR), ctx.rng.choice(MFL_PE), ctx.rng.choice(MFL_LAG)) if x]
        s = ';'.join(parts)
        key = ctx.rng.choice(list(C))
        mm, cm = C[key]
        Ep = ctx.rng.choice([None, 1.0, 2.0, 2.0, 0.5, 4.0, 8.0])
        with_base = ctx.rng.random() < 0.05
        ss = parse(s, mfl_class=True)
        with warnings.catch_warnings():
            warnings.simplefilter('ignore')
            try:
                c = run.get_penalty_parameters_mfl(ss, cm)
                counts = f'(Some ({ct.z(int(c[0]))}, {ct.z(int(c[1]))}))'
            except Exception:
                c, counts = None, 'None'
            try:
                v = run.calculate_bic_penalty(mm, s, base_model=mm if with_base else None, E_p=Ep)
                obs = f'(Ok {ct.q(qf(v))})'
            except Exception as e:
                obs = f'(Err {errclass(e)})'
                nerr += 1
        xs = {F(1)}
        if Ep and c is not None:
            xs |= {F(int(c[0])) / F(Ep), F(1) / F(Ep)}
        logs = ct.lst([f'({ct.q(x)}, ' + ('None' if x <= 0 else f'(Some {ct.q(F(math.log(float(x))))})') + ')' for x in sorted(xs)])
        terms.append(f"(mkMcase {mfl_in_term(ss, cm)} {ct.boolean(with_base)} {'None' if Ep is None else '(Some ' + ct.q(F(Ep)) + ')'} "
                     f"(Some (1#1)%Q) {logs} {counts} {obs})")
    verdicts = ctx.run_cases('mfl', 'C19.Model C19.Penalty', 'mcase', terms, 'mverdict', shard=200)
    bad = sum(1 for v in verdicts if v)
    if bad:
        ctx.broken.append(f'correspondence C19 calculate_bic_penalty (MFL search space) model vs implementation on {bad} of {n} cases')
    ctx.coverage['penalty_mfl_cases'] = {'cases': n, 'errors': nerr, 'disagreements': bad}
    ctx.coverage['evaluations'] += n
    ctx.log('calculate_bic_penalty (MFL) cases done', ctx.coverage['penalty_mfl_cases'])


def errors_batch(ctx, n):
    """summarize_errors_from_entries on synthetic logs, compared inside Coq (Summary.summarize_errors)"""
    from pharmpy.workflows import ModelEntry, ModelfitResults
    from pharmpy.workflows.log import Log
    run = impl()['run']
    P = pool()
    allnames = ['ma', 'mb', 'mc', 'md', 'me']          # numbered in string order
    nid = {n_: ct.pos(i + 1) for i, n_ in enumerate(allnames)}
    msgs = ct.Names()
    terms = []
    for _ in range(n):
        chosen = ctx.rng.sample(allnames, ctx.rng.choice([1, 2, 3, 4]))
        mes, ents = [], []
        for nm in chosen:
            model = P['base'].replace(name=nm)
            if ctx.rng.random() < 0.15:
                mes.append(ModelEntry.create(model=model, modelfit_results=None))
                ents.append(f'({nid[nm]}, None)')
                continue
            log, items = Log(), []
            for i in range(ctx.rng.choice([0, 1, 2, 3, 4])):
                cat = ctx.rng.choice(['ERROR', 'WARNING'])
                msg = ctx.rng.choice(['boom', 'rounding', 'zero gradient', 'x'])
                log = log.log_error(msg) if cat == 'ERROR' else log.log_warning(msg)
                items.append(f"({'LError' if cat == 'ERROR' else 'LWarning'}, {msgs.p(msg)})")
            mes.append(ModelEntry.create(model=model, modelfit_results=ModelfitResults(ofv=1.0, log=log)))
            ents.append(f'({nid[nm]}, Some {ct.lst(items)})')
        df = run.summarize_errors_from_entries(mes)
        obs = [f"(mkErow {nid[idx[0]]} {'LError' if idx[1] == 'ERROR' else 'LWarning'} {ct.nat(int(idx[2]))} {msgs.p(row['message'])})"
               for idx, row in df.iterrows()]
        terms.append(f'(mkEcase {ct.lst(ents)} {ct.lst(obs)})')
    verdicts = ctx.run_cases('errors', 'C19.Model C19.Summary', 'ecase', terms, 'everdict', shard=200)
    bad = sum(1 for v in verdicts if v)
    if bad:
        ctx.broken.append(f'correspondence C19 summarize_errors model vs implementation on {bad} of {n} cases')
    ctx.coverage['summarize_errors_cases'] = {'cases': n, 'disagreements': bad}
    ctx.coverage['evaluations'] += n
    ctx.log('summarize_errors cases done', ctx.coverage['summarize_errors_cases'])


# ------------------------------------------------------------------ classification
def classify(ctx, spec, tags, info):
    tags = set(tags)
    corr = sorted(t for t in tags if t in CORR)
    oracle = sorted(t for t in tags if t in ORACLE)
    status = 'ok'
    for t in oracle:
        explained = not any(c in tags for c in ORACLE[t])
        fid = None          # no open finding of the modelled part: every oracle failure is a violation
        if explained and fid:
            ctx.coverage.setdefault('known_hits', {}).setdefault(fid, 0)
            ctx.coverage['known_hits'][fid] += 1
            if status == 'ok':
                status = 'known'
        else:
            ctx.violation(TAGS[t], {'spec': spec, 'tags': sorted(tags), 'tag_meaning': TAGS[t]})
            status = 'violation'
    if (1001 in tags or 1002 in tags) and status != 'violation':
        ctx.broken.append('C19 machinery tag (oracle table miss / ill-typed expression) on ' + json.dumps(spec)[:300])
        status = 'broken'
    if corr and status != 'violation':
        ctx.broken.append('correspondence C19 model vs implementation: ' + ', '.join(TAGS[t] for t in corr)
                          + ' on ' + json.dumps(spec)[:600])
        ctx.coverage.setdefault('corr_disagreements', []).append({'spec': spec, 'tags': sorted(tags)})
        status = 'broken'
    return status


def _observe_safe(spec):
    try:
        return observe(spec)
    except Refused:
        return None


def run_specs(ctx, specs, label, quiet=False):
    from harness.lib.core import JOBS
    terms, kept, infos = [], [], []
    refused = 0
    if len(specs) > 40 and JOBS > 1:
        # the implementation runs are independent: fork workers after the model pool is built (inherited)
        import multiprocessing as mp
        prelude()
        impl()
        with mp.get_context('fork').Pool(min(JOBS, 8)) as pl:
            results = pl.map(_observe_safe, specs, chunksize=8)
    else:
        results = [_observe_safe(s) for s in specs]
    for spec, r in zip(specs, results):
        if r is None:
            refused += 1
            continue
        terms.append(r[0])
        kept.append(spec)
        infos.append(r[1])
    ctx.coverage['skipped_unconvertible'] = ctx.coverage.get('skipped_unconvertible', 0) + refused
    if len(specs) > 40:
        ctx.log(f'{len(terms)} implementation runs exported')
    verdicts = ctx.run_cases(label, IMPORTS, 'case', terms, 'verdict', shard=40, prelude=prelude())
    stats = {'ok': 0, 'known': 0, 'violation': 0, 'broken': 0}
    if not quiet:
        for spec, tags, info in zip(kept, verdicts, infos):
            stats[classify(ctx, spec, tags, info)] += 1
    return kept, verdicts, infos, stats


def finding_probes(ctx):
    for f in ctx.findings:
        if f.get('status') != 'open':
            continue
        if 'stats_probe' in f['witness']:          # a finding of the validation-only part: replay its probe
            from harness.props import c19_stats
            reproduced, detail = getattr(c19_stats, 'probe_' + f['witness']['stats_probe'])()
            if reproduced:
                ctx.known(f['id'])
            else:
                ctx.notes.append(f"finding_not_reproduced {f['id']} ({detail})")
            continue
        kept, verdicts, _, _ = run_specs(ctx, [f['witness']], 'finding-' + f['id'], quiet=True)
        tags = set(verdicts[0]) if verdicts else set()
        if f['expect_tag'] in tags and not any(c in tags for c in ORACLE[f['expect_tag']]):
            ctx.known(f['id'])
        else:
            ctx.notes.append(f"finding_not_reproduced {f['id']} (tags {sorted(tags)})")


def run(ctx):
    ok = ctx.build_gate(['C19'])
    ctx.log('build gate done')
    regenerated_obligations(ctx)
    ctx.log('regenerated obligations done')
    ctx.trusted += [
        'harness/props/c19.py: generator, export of real Model / ModelfitResults / DataFrame objects to Gallina terms '
        '(floats as exact rationals, NaN as None), strictness string -> AST through Python\'s own ast.parse, classification',
        'harness/props/c19.py translate_source: fail-closed ast reader of allowed_args, unwanted_args, near-bound defaults, '
        'default alphas, the AIC factor',
        'Python operator semantics used by the translator: `number <op> ArrayEvaluator` falls back to the reflected method; '
        '`!=` is `not __eq__`; chained comparisons are conjunctions; the truth value of a pandas Series raises ValueError',
    ]
    ctx.assumptions += [
        'math.log, scipy.stats.chi2.isf/sf and numpy.linalg.cond are engines: their values enter the model as oracle tables '
        '(Section variables in the theorems); only the facts stated as Section hypotheses are used',
        'float rounding of the BIC penalty products is not modelled: BIC values are compared with relative tolerance 1e-9, '
        'all other values (OFV, AIC, penalties, cut-offs: dyadic) exactly',
        'the order of rows with EQUAL sort keys in the DataFrame returned by rank_models is decided by numpy argsort '
        '(not stable on this machine): the model produces the stable order, tables are compared modulo the order inside tie groups',
        '_categorize_parameters (symbolic expansion, mixed BIC) is an engine: its two counts are inputs of the model',
        'model names of a candidate set are pairwise distinct (the result table is indexed by name)',
        'IEEE double arithmetic is modelled only where the code\'s outcome depends on it (numpy vs Python rounding in '
        '_is_near_target: Model.round53 / np_round, validated against numpy on every run through the near-bound criteria); '
        'math.log10 is assumed exact enough to give floor(log10|x|) (inputs are not within 1 ulp of a power of ten)',
        'not covered: calculate_bic_penalty for MFL search spaces (get_penalty_parameters_mfl), summarize_modelfit_results run-time '
        'columns and the database-bound wrapper, summarize_errors; the statistics of the resampling / diagnostic tools are '
        'VALIDATION ONLY (c19_stats.py: exact rational recomputation, tolerance 1e-9) — see agents_out/C19.md',
    ]
    ctx.coverage['source_sha'] = source_sha('src/pharmpy/tools/run.py', 'src/pharmpy/modeling/results.py',
                                            'src/pharmpy/modeling/lrt.py', 'src/pharmpy/tools/common.py')
    if not ok:
        return
    if ctx.tier == 'thorough':
        from harness.lib.core import COQ, sh
        rc, out = sh(['coqchk', '-silent', '-o', '-Q', 'theories', 'PV', 'PV.C19.Properties', 'PV.C19.Refuted', 'PV.C19.Examples'],
                     cwd=COQ, timeout=1800)
        if rc != 0 or '* Axioms: <none>' not in out:
            ctx.broken.append('coqchk on PV.C19.{Properties,Refuted,Examples} failed or reports axioms: ' + out[-400:])
        else:
            ctx.trusted.append('coqchk (thorough tier) re-checked PV.C19.Properties / Refuted / Examples and their dependencies: no axioms')
        ctx.log('coqchk done')
    finding_probes(ctx)
    ctx.log('finding probes done')
    reg = sorted((VERIF / 'regress' / 'C19').glob('*.json'))
    specs = [json.loads(p.read_text()) for p in reg]
    specs = [s['spec'] if 'spec' in s else s for s in specs]
    n = 300 if ctx.tier == 'quick' else 3600
    nm = 40 if ctx.tier == 'quick' else 400
    specs += [gen_spec(ctx.rng) for _ in range(n)] + [gen_spec(ctx.rng, 'malformed') for _ in range(nm)]
    kept, verdicts, infos, stats = run_specs(ctx, specs, 'gen')
    ctx.log('generated cases done', stats)
    ctx.coverage['evaluations'] = sum(i['nsub'] for i in infos)
    distinct = {json.dumps(s, sort_keys=True) for s, i in zip(kept, infos) if i['n'] >= 2 and i.get('ranked', 0) >= 1}
    ctx.coverage['distinct_nontrivial'] = len(distinct)
    ctx.coverage['candidate_sets'] = len(kept)
    ctx.coverage['rule'] = ('random candidate sets (base + 0..8 candidates drawn from 20 real variants of the pheno example '
                            'model, synthetic ModelfitResults with NaN / flags / warnings / rse / gradients / estimates), all rank '
                            'types, cut-offs, penalties, parent maps, strictness strings from the documented grammar, plus a '
                            'malformed stream; from VERIF_SEED; non-trivial = at least two candidates and at least one ranked '
                            'row; distinct by spec text; evaluations = compared sub-results (strictness values, criteria, table, '
                            'tool result, lrt calls)')
    ctx.coverage['case_status'] = stats
    hist = lambda f: {str(k): sum(1 for i in infos if f(i) == k) for k in sorted({f(i) for i in infos}, key=str)}
    ctx.coverage['input_distribution'] = {
        'n_candidates': hist(lambda i: i['n']),
        'rank_type': hist(lambda i: i['rt']),
        'rank_models_error': hist(lambda i: i.get('rank_err')),
        'tables_with_ties': sum(1 for i in infos if i.get('ties', 0) > 0),
        'tables_with_nan_reference': sum(1 for i in infos if i.get('refnan')),
        'tables_with_excluded_rows': sum(1 for i in infos if i.get('rank_err') is None and i.get('ranked', 0) < i['n'] + 1),
        'strictness_raises': sum(1 for i in infos for s in i['strict'] if s.startswith('(Err')),
        'strictness_true': sum(1 for i in infos for s in i['strict'] if s == '(Ok true)'),
        'strictness_false': sum(1 for i in infos for s in i['strict'] if s == '(Ok false)'),
        'tool_results': sum(1 for i in infos if 'best' in i),
        'tool_refusals': sum(1 for i in infos if 'tool_err' in i),
    }
    ctx.coverage['samples'] = [{'spec': s, 'tags': v} for s, v in list(zip(kept, verdicts))[:3]]
    categorize_batch(ctx)
    penalty_batch(ctx, 150 if ctx.tier == 'quick' else 2000)
    summary_batch(ctx, 120 if ctx.tier == 'quick' else 1500)
    errors_batch(ctx, 80 if ctx.tier == 'quick' else 1000)
    mfl_batch(ctx, 30 if ctx.tier == 'quick' else 250)
    try:
        from harness.props import c19_stats
        c19_stats.run(ctx)
    except ImportError:
        ctx.notes.append('c19_stats (validation of resampling statistics) not present')


def replay(ctx, rep):
    if 'stats_model' in rep:
        from harness.props import c19_stats
        names = ct.Names()
        k = rep['stats_model']['kind']
        try:
            term = c19_stats.model_case(random.Random(rep['stats_model']['seed']), k, lambda x: names.p(str(x)))
        except Exception as e:
            print('stats_model', rep['stats_model'], 'tool raises on valid input:', type(e).__name__, e)
            return 1
        if k in ('pct', 'sim'):
            v = ctx.run_cases('replay', 'C19.Model C19.Stats C19.Stats2', 'st2case', [term], 'stverdict2')[0]
        else:
            v = ctx.run_cases('replay', 'C19.Model C19.Stats', 'stcase', [term], 'stverdict')[0]
        print('stats_model', rep['stats_model'], 'tags', v)
        return 1 if v else 0
    if 'stats' in rep and rep['stats'].get('part') == 'deltaofv':
        from harness.props import c19_stats
        c19_stats.delta_ofv_batch(ctx, 1, only_seeds=[rep['stats']['seed']])
        print('deltaofv', rep['stats'], ctx.coverage['cdd_delta_ofv_cases'])
        return 1 if ctx.violations else 0
    if 'stats' in rep:
        from harness.props import c19_stats
        n, fails = c19_stats.run_one(rep['stats']['part'], rep['stats']['seed'])
        print('stats', rep['stats'], 'values compared', n, 'failures', fails[:5])
        return 1 if fails else 0
    spec = rep['spec']
    kept, verdicts, _, _ = run_specs(ctx, [spec], 'replay', quiet=True)
    tags = verdicts[0]
    print('spec', json.dumps(spec))
    print('tags', tags, [TAGS.get(t, t) for t in tags])
    return 1 if any(t in ORACLE or t in CORR for t in tags) else 0
