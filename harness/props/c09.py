"""C09 — model extensions implement documented formulas and are neutral at reference.

Model / spec: coq/theories/C09 (Model.v: documented formulas + hand models of the statement surgery;
Properties.v / Refuted.v: theorems).  Tie:
  * T-cov translator (harness/props/c09_templates.py) regenerates build/gen/C09/Templates.v from the pharmpy source on
    every run; harness/props/c09_obligations.v is compiled against it (templates = documented formulas; neutrality,
    error-model shape, mean transit/absorption times for the templates the code builds now);
  * oracle/correspondence on the real code: for example models x (parameter, covariate, effect, operation), eta
    forms, error models, RUV transformations, transit/absorption setters, allometry: real statements are exported
    with sym2coq and compared inside Coq (C09/Check.v) with the documented transformation by exact evaluation at
    random rational points and AT the reference point.

Mutation testing (never edits /repo): VERIF_C09_MUTANT="covariate_effect.py=/path/to/copy.py[,file=path...]" makes the
translator read the copy and the oracle call the functions of the copy loaded under another module name."""
import importlib.util
import json
import os
import random
import re
import shutil
import sys
import warnings
from fractions import Fraction as F
from pathlib import Path

from harness.lib import coqterm as ct
from harness.lib import sym2coq as sc
from harness.lib.core import ALLOWED_AXIOMS, REPO, THEORIES, VERIF, coqc_file, grep_gate, theorem_names
from harness.props import c09_templates as tr

LEVEL = 'proof'
MODELING = REPO / 'src' / 'pharmpy' / 'modeling'
OBLIGATIONS = Path(__file__).with_name('c09_obligations.v')

TAGS = {
    6: 'remove_iiv replacement differs from the hand model of its rule',
    36: 'remove_iiv does not restore the original expression although the eta factors are pure',
    1: 'add_covariate_effect statements differ from the hand model instantiated with the regenerated templates',
    2: 'add_iiv statements differ from the hand model instantiated with the regenerated templates',
    3: 'error-model setter statements differ from the hand model instantiated with the regenerated templates',
    5: 'CovariateEffect.categorical template differs from the hand model',
    11: 'covariate effect: P_after is not P_before op documented_effect(cov)',
    12: 'covariate effect (operation *) is not neutral at the reference covariate value',
    13: 'covariate effect with operation + is not neutral at the reference covariate value',
    14: 'remove_covariate_effect(add_covariate_effect(M)) is not M',
    15: 'centring statistic is not the median of per-individual medians / mean of means of the dataset',
    16: 'categorical effect is not 1 at the most common level',
    17: 'categorical effect at a non-reference level is not the documented one (cat: 1 + theta, cat2: theta)',
    21: 'add_iiv: parameter is not the documented function of the original expression and eta',
    22: 'add_iiv (add/prop/exp*) changes the model at eta = 0',
    23: 'add_iiv exp with operation + changes the model at eta = 0',
    24: 'add_iiv logit form changes the model at eta = 0',
    25: 'add_iiv rescaled-logit form changes the model at eta = 0',
    26: 'remove_iiv(add_iiv(M)) is not M',
    27: 'remove_iiv(add_iiv(M, re_log)) is not M',
    31: 'error model: Y at epsilon = 0 is not the documented prediction',
    32: 'error model: Y is not affine in epsilon with the documented coefficient',
    33: 'statements other than Y changed their value',
    34: 'RUV transformation: epsilon coefficient is not the documented one',
    35: 'RUV transformation changed the prediction',
    41: 'transit compartments: mean transit time is not MDT',
    42: 'first order absorption: 1/KA is not MAT',
    43: 'zero order absorption: duration/2 is not MAT',
    44: 'number of transit compartments / rates differs from the request',
    48: 'set_iiv_on_ruv statements differ from the hand model (eps := eps*exp(eta) in every statement)',
    46: '_update_numerators differs from the hand model (numerator of every detected transit rate := their number)',
    45: 'transit/absorption rate is not the documented constant (n/MDT, 1/MAT, 2*MAT) built by the code',
    51: 'allometry: parameter is not P*(X/Z)**T',
    52: 'allometry is not neutral at the reference value',
    28: 'eta transformation (boxcox/tdist/john_draper) changes the model at eta = 0',
    29: 'add_iov changes the model at eta = 0',
    53: 'BLQ transformation (M3/M4) changes the model for observations above the LLOQ',
    7: 'add_allometry statements differ from the hand model',
    8: 'add_iov statements differ from the hand model',
    9: 'remove_iov statements differ from the hand model',
    10: 'transform_blq (M3/M4) statements differ from the hand model',
    37: 'add_iov: a symbol is not its value before with eta := eta + IOV eta of the occasion (requested etas only)',
    38: 'add_iov: an existing symbol got another assignment / a new symbol is declared twice',
    39: 'remove_iov(add_iov(M)) is not M',
    47: 'add_iov: the declared IOV distributions (names per level, same covariance symbols on every occasion) differ from the model',
    54: 'BLQ: SD**2 is not the sum of (epsilon coefficient)**2 * sigma',
    90: 'the implementation raised an exception on a documented call',
    91: 'the implementation refused (ValueError/NotImplementedError) a valid documented request',
}
CORR = (1, 2, 3, 5, 6, 7, 8, 9, 10, 46, 48)
# oracle tag -> finding id that may excuse it (only when listed open) ; guard tag that must be present
ORACLE_FINDING = {13: ('C09-COV-ADD-NOT-NEUTRAL', 201), 23: ('C09-IIV-EXP-ADD-NOT-NEUTRAL', 202),
                  24: ('C09-IIV-LOGIT-NOT-NEUTRAL', 202), 25: ('C09-IIV-RELOG-NOT-NEUTRAL', 202),
                  27: ('C09-IIV-RELOG-REMOVE', 202), 34: ('C09-POWER-ON-RUV-EXTRA-FACTOR', None), 26: ('C09-IIV-LOGIT-REMOVE-QUOTIENT', None), 41: ('C09-TRANSIT-REDUCE-TO-ONE', None),
                  45: ('C09-TRANSIT-REDUCE-TO-ONE', None),
                  90: ('C09-IIV-RELOG-PHI-NAME', None)}
# several findings may share an oracle tag: the first whose pattern matches the input excuses it
EXTRA_FINDINGS = {}
ORACLE = [t for t in TAGS if t >= 11]

PLACEHOLDERS = {'cov': 1, 'median': 2, 'mean': 3, 'std': 4, 'theta': 5, 'theta1': 6, 'theta2': 7, 'NaN': 8}
S_ID = {'mean': 3, 'median': 2, 'std': 4}
EKINDS = {'lin': 'DLin', 'piece_lin': 'DPiece', 'exp': 'DExp', 'pow': 'DPow', 'cat': '(DCat false)', 'cat2': '(DCat true)'}
IKINDS = {'add': 'IAdd', 'prop': 'IProp', 'exp': 'IExp', 'log': 'ILogit', 're_log': 'IReLogit'}
OPS = {'*': 'OpMul', '+': 'OpAdd'}


# ------------------------------------------------------------------ implementation access (mutants)
class Impl:
    def __init__(self):
        import pharmpy.modeling as pm
        self.pm = pm
        self.overrides = {}
        spec = os.environ.get('VERIF_C09_MUTANT', '')
        for item in [x for x in spec.split(',') if x.strip()]:
            fn, path = item.split('=', 1)
            self.overrides[fn.strip()] = Path(path.strip())
        self.mods = {}
        for fn, path in self.overrides.items():
            name = 'pharmpy.modeling._c09mut_' + fn[:-3]
            s = importlib.util.spec_from_file_location(name, path)
            mod = importlib.util.module_from_spec(s)
            mod.__package__ = 'pharmpy.modeling'
            sys.modules[name] = mod
            s.loader.exec_module(mod)
            self.mods[fn] = mod

    def fn(self, name):
        for mod in self.mods.values():
            if hasattr(mod, name):
                return getattr(mod, name)
        return getattr(self.pm, name)

    def module(self, filename):
        if filename in self.mods:
            return self.mods[filename]
        return importlib.import_module('pharmpy.modeling.' + filename[:-3])


_IMPL = None


def impl():
    global _IMPL
    if _IMPL is None:
        _IMPL = Impl()
    return _IMPL


# ------------------------------------------------------------------ regenerated templates + obligations
def prepare_gen(ctx):
    """Translate, compile Templates.v and the obligations; returns the text to inline in case files (or None)."""
    gen = ctx.rundir / 'gen'
    gen.mkdir(parents=True, exist_ok=True)
    try:
        text, used = tr.translate(MODELING, impl().overrides)
    except tr.Refuse as e:
        ctx.broken.append(f'T-cov translator refused the source: {e}')
        return None
    except (OSError, SyntaxError) as e:
        ctx.broken.append(f'T-cov translator could not read the source: {e}')
        return None
    (gen / 'Templates.v').write_text(text)
    shutil.copy(OBLIGATIONS, gen / 'Obligations.v')
    ctx.coverage['translated_functions'] = [{'function': f, 'sha256_16': h} for f, h in used]
    problems = grep_gate([gen / 'Templates.v', gen / 'Obligations.v'])
    if problems:
        ctx.broken.append('grep-gate (generated): ' + '; '.join(problems))
    names = theorem_names(gen / 'Obligations.v')
    ctx.obligations += len(names)
    extra = [(gen, 'PVGen.C09')]
    rc, out = coqc_file(gen / 'Templates.v', timeout=300, extra_q=extra)
    if rc != 0:
        ctx.broken.append('generated Templates.v does not compile: ' + out[-500:])
        return None
    rc, out = coqc_file(gen / 'Obligations.v', timeout=600, extra_q=extra)
    mirror = VERIF / 'build' / 'gen' / 'C09'
    try:
        mirror.mkdir(parents=True, exist_ok=True)
        for f in ('Templates.v', 'Obligations.v'):
            shutil.copy(gen / f, mirror / f)
    except OSError:
        pass
    if rc != 0:
        m = re.search(r'File "([^"]+)", line (\d+).*?\nError:(.*?)(?:\n\n|\Z)', out, flags=re.S)
        where = f'line {m.group(2)}: {m.group(3).strip()[:300]}' if m else out[-500:]
        thm = ''
        if m:
            lines = (gen / 'Obligations.v').read_text().split('\n')[:int(m.group(2))]
            for ln in reversed(lines):
                mm = re.match(r'\s*Theorem\s+(\w+)', ln)
                if mm:
                    thm = mm.group(1)
                    break
        ctx.broken.append(f'regenerated obligation {thm or "?"} no longer holds for the templates built by the code '
                          f'(Obligations.v {where})')
    else:
        a = gen / 'assum.v'
        a.write_text('From PV Require Import C09.Model C09.Proofs C09.Properties.\n'
                     'From PVGen.C09 Require Import Templates Obligations.\n'
                     + ''.join(f'Print Assumptions {n}.\n' for n in names))
        rc2, out2 = coqc_file(a, timeout=300, extra_q=extra)
        blocks = re.split(r'^(?=Closed under the global context|Axioms:)', out2, flags=re.M)
        blocks = [b for b in blocks if b.startswith('Closed under') or b.startswith('Axioms:')]
        if rc2 != 0 or len(blocks) != len(names):
            ctx.broken.append('Print Assumptions of the regenerated obligations failed: ' + out2[-400:])
        else:
            used = set()
            for n, b in zip(names, blocks):
                if b.startswith('Closed under'):
                    ctx.discharged += 1
                    continue
                axs = [x for x in re.findall(r'^([A-Za-z_][\w\.\']*)\s*:', b, flags=re.M) if x != 'Axioms']
                bad = [x for x in axs if x not in ALLOWED_AXIOMS and x.split('.')[-1] not in ALLOWED_AXIOMS]
                if bad:
                    ctx.broken.append(f'regenerated obligation {n} depends on non-allowed axioms {bad}')
                else:
                    ctx.discharged += 1
                    used.update(axs)
            if used:
                ctx.trusted.append('standard-library axioms under the regenerated real-number obligations '
                                   '(effect_neutral_real_now, iiv_neutral_real_now): ' + ', '.join(sorted(used)))
        ctx.coverage['regenerated_obligations'] = names
    body = text.split('Import ListNotations.\n', 1)[1]
    return body


# ------------------------------------------------------------------ export helpers
def fq(x):
    """A float the code put into a statement, read the way sym2coq reads a sympy Float."""
    import sympy
    if isinstance(x, (int,)):
        return F(x)
    return F(str(sympy.Float(x)))


def new_names():
    return ct.Names(start=1000)


def stmt_term(st, names, tf=None):
    from pharmpy.model import Assignment
    if isinstance(st, Assignment):
        e = sc.to_sympy(st.expression)
        if tf is not None:
            e = tf(e)
        return f"(Assign {names.p(str(sc.to_sympy(st.symbol)))} {sc.expr(e, names)})"
    for a in st.amounts:
        for arg in sc.to_sympy(a).args:
            names.get(str(arg))
    return f"(Ode {sc.symset(list(st.amounts), names)} {sc.symset(st.rhs_symbols, names)})"


def stmts_term(stmts, names, tf=None):
    return ct.lst([stmt_term(s, names, tf) for s in stmts])


def assigned(stmts):
    from pharmpy.model import Assignment
    out = []
    for s in stmts:
        if isinstance(s, Assignment):
            n = str(sc.to_sympy(s.symbol))
            if n not in out:
                out.append(n)
    return out


def load_model(spec):
    pm = impl().pm
    model = pm.load_example_model(spec['model'])
    for op in spec.get('prep', []):
        if op[0] == '_exp_alias':
            # P = e * exp(ETA)  ->  EX = exp(ETA); P = e * EX   (what NM-TRAN code often looks like)
            from pharmpy.basic import Expr
            from pharmpy.model import Assignment
            st = model.statements
            i = st.find_assignment_index(op[1])
            eta = Expr.symbol(op[2])
            new = (st[0:i] + Assignment.create('EX', eta.exp())
                   + Assignment.create(op[1], st[i].expression.subs({eta.exp(): Expr.symbol('EX')})) + st[i + 1:])
            model = model.replace(statements=new)
            continue
        if op[0] == '_vary':
            # make a covariate time-varying inside individuals (so that per-individual median != mean)
            df = model.dataset.copy()
            k = df.groupby('ID').cumcount() % 4
            df[op[1]] = (df[op[1]] + k * k * 0.1).round(1)
            model = model.replace(dataset=df)
            continue
        f = impl().fn(op[0])
        args = op[1:]
        kwargs = {}
        if args and isinstance(args[-1], dict):
            kwargs = args[-1]
            args = args[:-1]
        model = f(model, *args, **kwargs)
    return model


class EnvGen:
    """Sample points: small integers so that exp/log/pow stay inside the exact domain of Base/Interp.v."""

    def __init__(self, rng, model):
        self.rng = rng
        self.rules = {}
        self.etas = set(model.random_variables.etas.names) if model is not None else set()
        self.eps = set(model.random_variables.epsilons.names) if model is not None else set()
        self.cols = set(model.datainfo.names) if model is not None else set()

    def value(self, name):
        r = self.rules.get(name)
        if r is not None:
            return self.rng.choice(r)
        if name in self.etas or name.startswith('ETA'):
            return F(self.rng.choice([0, 1, -1, 2]))
        if name in self.eps or name.startswith('EPS') or name.startswith('epsilon'):
            return F(self.rng.choice([1, -1, 2, 3]))
        if name.startswith('A_'):
            return F(self.rng.choice([8, 4, 16, 2]))
        if name in ('S1', 'S2'):
            return F(self.rng.choice([1, 2, 4]))
        if name in self.cols:
            return F(self.rng.choice([1, 2, 3, 4, 5, 6]))
        return F(self.rng.choice([1, 2, 3, 4]))

    def envs(self, names, n):
        out = []
        for _ in range(n):
            out.append({nm: self.value(nm) for nm in names.ids})
        return out


def envs_term(envs, names):
    return ct.lst([sc.env(e, names) for e in envs])


# ------------------------------------------------------------------ case builders
def build_cov(spec, rng):
    im = impl()
    model = load_model(spec)
    P, cov, effect, op = spec['param'], spec['cov'], spec['effect'], spec['op']
    with warnings.catch_warnings():
        warnings.simplefilter('ignore')
        nested = bool(im.pm.has_covariate_effect(model, P, cov))
        after = im.fn('add_covariate_effect')(model, P, cov, effect, op, allow_nested=nested)
    if after is model or after.statements == model.statements:
        return None, {'skip': 'no-op (effect already exists)'}
    names = new_names()
    before_t = stmts_term(model.statements, names)
    after_t = stmts_term(after.statements, names)
    mod = im.module('covariate_effect.py')
    stats = [('mean', mod._calculate_mean(model.dataset, cov)), ('median', mod._calculate_median(model, cov)),
             ('std', mod._calculate_std(model, cov))]
    cats, mc = [], F(0)
    if effect in ('cat', 'cat2'):
        counts = mod._count_categorical(model, cov)
        idx = list(counts.index)
        cats = [None if x != x else F(str(float(x))) for x in idx]
        mc = F(str(float(counts.idxmax())))
    # template theta symbols in natural order <-> new parameters in creation order
    newp = [p for p in after.parameters.names if p not in model.parameters.names]
    if effect == 'piece_lin':
        tsyms = ['6', '7']
    elif effect in ('cat', 'cat2'):
        others = [i for i, c in enumerate(cats, 1) if c is not None and c != mc]
        tsyms = ['5'] if len(cats) == 2 else [str(100 + i) for i in others]
    else:
        tsyms = ['5']
    if len(tsyms) != len(newp):
        return None, {'skip': f'theta count mismatch {tsyms} {newp}', 'broken': True}
    thetas = ct.lst([ct.pair(f'{t}%positive', names.p(p)) for t, p in zip(tsyms, newp)])
    stats_t = ct.lst([ct.tup(ct.pos(S_ID[k]), names.p(f'{cov}_{k.upper()}'), ct.q(fq(v))) for k, v in stats])
    covp = ct.lst([names.p(P)] + [names.p(f'{P}{c}') for c in model.datainfo.names])
    args = ("{| a_param := %s; a_cov := %s; a_kind := %s; a_cats := %s; a_mc := %s; a_op := %s; a_thetas := %s; "
            "a_effect := %s; a_stats := %s; a_cov_possible := %s |}" % (
                names.p(P), names.p(cov), EKINDS[effect],
                ct.lst([ct.opt(None if c is None else ct.q(c)) for c in cats]), ct.q(mc), OPS[op], thetas,
                names.p(f'{P}{cov}'), stats_t, covp))
    if effect in ('cat', 'cat2'):
        ref = mc
    else:
        ref = fq(dict(stats)['median'])
    removed = None
    if not im.pm.has_covariate_effect(model, P, cov):
        rem = im.fn('remove_covariate_effect')(after, P, cov)
        removed = stmts_term(rem.statements, names)
    groups = []
    if spec.get('groups'):
        df = model.dataset
        for _, g in df.groupby('ID')[cov]:
            groups.append(ct.lst([ct.q(F(str(float(x)))) for x in g]))
    syms = assigned(model.statements)
    eg = EnvGen(rng, after)
    den = ref.denominator
    if effect == 'exp':
        # theta * (cov - reference) must be an integer for the exact interpretation of exp
        for p in newp:
            eg.rules[p] = [F(1), F(-1), F(2)]
        eg.rules[cov] = [ref + 1, ref + 2, ref - 1, ref + 3]
    if effect in ('cat', 'cat2'):
        eg.rules[cov] = [c for c in cats if c is not None]
    elif effect == 'piece_lin':
        eg.rules[cov] = [F(1), F(2), F(3), F(5), F(8), F(12)]
    for k, v in stats:
        eg.rules[f'{cov}_{k.upper()}'] = [fq(v)]
    envs = eg.envs(names, 6)
    term = ("(CCov (mkCov %s\n %s\n %s\n %s\n %s %s %s\n %s))" % (
        before_t, after_t, args, ct.lst([names.p(s) for s in syms]), envs_term(envs, names), ct.q(ref),
        ct.opt(removed), ct.lst(groups)))
    info = {'kind': 'cov', 'effect': effect, 'op': op, 'nstmts': len(after.statements), 'roundtrip': removed is not None,
            'ref': str(ref), 'nested': bool(im.pm.has_covariate_effect(model, P, cov))}
    return term, info


def build_iiv(spec, rng):
    im = impl()
    model = load_model(spec)
    P, kind, op = spec['param'], spec['form'], spec['op']
    after = im.fn('add_iiv')(model, P, kind, op)
    removed = im.fn('remove_iiv')(after, f'ETA_{P}')
    names = new_names()
    before_t = stmts_term(model.statements, names)
    after_t = stmts_term(after.statements, names)
    removed_t = stmts_term(removed.statements, names)
    phis = [s for s in assigned(after.statements) if s.startswith('phi_')]
    phi = phis[0] if phis else '__nophi__'
    eta = f'ETA_{P}'
    syms = assigned(model.statements)
    eg = EnvGen(rng, after)
    eg.etas.add(eta)
    for k, v in spec.get('rules', {}).items():
        eg.rules[k] = [F(x) for x in v]
    names.get(eta)
    names.get(phi)
    envs = eg.envs(names, 6)
    term = ("(CIiv (mkIiv %s\n %s\n %s %s %s %s %s\n %s %s\n %s))" % (
        before_t, after_t, IKINDS[kind], OPS[op], names.p(P), names.p(eta), names.p(phi),
        ct.lst([names.p(s) for s in syms]), envs_term(envs, names), removed_t))
    return term, {'kind': 'iiv', 'form': kind, 'op': op, 'nstmts': len(after.statements)}


ERR_SETTERS = {
    'add': ('set_additive_error_model', {}, '(EAdd DTId)'),
    'add_log': ('set_additive_error_model', {'data_trans': 'log(Y)'}, '(EAdd DTLog)'),
    'prop': ('set_proportional_error_model', {}, '(EProp DTId true)'),
    'prop_nozp': ('set_proportional_error_model', {'zero_protection': False}, '(EProp DTId false)'),
    'prop_log': ('set_proportional_error_model', {'data_trans': 'log(Y)'}, '(EProp DTLog true)'),
    'prop_log_nozp': ('set_proportional_error_model', {'data_trans': 'log(Y)', 'zero_protection': False}, '(EProp DTLog false)'),
    'comb': ('set_combined_error_model', {}, '(EComb CombPlain)'),
    'comb_log': ('set_combined_error_model', {'data_trans': 'log(Y)'}, '(EComb CombLog)'),
    'comb_iivruv': ('set_combined_error_model', {}, '(EComb CombIivRuv)'),
}


def err_envs(rng, model_after, names, n, extra_zero=()):
    eg = EnvGen(rng, model_after)
    zero = set(eg.eps) | set(extra_zero)
    for nm in names.ids:
        if nm in zero or nm.startswith('EPS') or nm.startswith('epsilon'):
            eg.rules[nm] = [F(0)]
    eg.rules['ETA_RV1'] = [F(0), F(1), F(-1)]
    return eg.envs(names, n)


def build_err(spec, rng):
    im = impl()
    model = load_model(spec)
    fname, kwargs, kterm = ERR_SETTERS[spec['setter']]
    if (spec['setter'] == 'comb' and 'ETA_RV1' in model.random_variables.names
            and 'time_varying' not in model.parameters.names):
        kterm = '(EComb CombIivRuv)'     # the setter keeps the IIV on RUV (its documented third form)
    after = im.fn(fname)(model, **kwargs)
    if after is model or after.statements == model.statements:
        return None, {'skip': 'no-op (error model already of this kind)'}
    names = new_names()
    before_t = stmts_term(model.statements.after_odes, names)
    after_t = stmts_term(after.statements.after_odes, names)
    old_eps = list(model.random_variables.epsilons.names)
    new_eps = [e for e in after.random_variables.epsilons.names if e not in old_eps]
    if spec['setter'].startswith('comb'):
        e1 = next((e for e in new_eps if e.startswith('epsilon_p')), None)
        e2 = next((e for e in new_eps if e.startswith('epsilon_a')), None)
    else:
        e1 = new_eps[0] if new_eps else None
        e2 = '__noeps2__'
    if e1 is None or e2 is None:
        return None, {'skip': f'new epsilons not found: {new_eps}', 'broken': True}
    ipa = [x for x in assigned(after.statements.after_odes)
           if x.startswith('IPREDADJ') and x not in assigned(model.statements.after_odes)]
    ipa = ipa[0] if ipa else 'IPREDADJ'
    for nm in old_eps + [e1, e2, ipa, 'ETA_RV1']:
        names.get(nm)
    syms = [s for s in assigned(model.statements.after_odes) if s != 'Y']
    envs = err_envs(rng, after, names, 6, extra_zero=old_eps + [e1, e2])
    term = ("(CErr (mkErr %s\n %s\n %s %s %s %s %s %s %s\n %s %s))" % (
        before_t, after_t, kterm, names.p('Y'), ct.lst([names.p(e) for e in old_eps]), names.p(e1), names.p(e2),
        names.p(ipa), names.p('ETA_RV1'), ct.lst([names.p(s) for s in syms]), envs_term(envs, names)))
    return term, {'kind': 'err', 'setter': spec['setter']}


def build_ruv(spec, rng):
    import sympy
    im = impl()
    model = load_model(spec)
    what = spec['what']
    old_eps = list(model.random_variables.epsilons.names)
    if what == 'iiv_on_ruv':
        after = im.fn('set_iiv_on_ruv')(model)
        factors = [(e, sympy.exp(sympy.Symbol('ETA_RV1')), True) for e in old_eps]
    elif what == 'power_on_ruv':
        after = im.fn('set_power_on_ruv')(model)
        newp = [p for p in after.parameters.names if p not in model.parameters.names and p.startswith('power')]
        if len(newp) != len(old_eps):
            return None, {'skip': 'power parameters not found', 'broken': True}
        ipred = sympy.Symbol(spec.get('ipred', 'F'))
        ysym = sympy.expand(sc.to_sympy(model.statements.find_assignment('Y').expression))
        # zero protection: IPREDADJ is ipred wherever ipred != 0 (the sample points)
        ysym = ysym.subs({sympy.Symbol(a): ipred for a in assigned(model.statements.after_odes) if a.startswith('IPREDADJ')})
        factors = []
        for e, p in zip(old_eps, newp):
            # documented: eps * ipred ** theta replaces eps * ipred (proportional term) or eps (any other term):
            # new coefficient = (old coefficient / ipred, when that no longer mentions ipred, else old coefficient) * ipred**theta
            cb = ysym.coeff(sympy.Symbol(e))
            q = sympy.simplify(cb / ipred)
            base = q if ipred not in q.free_symbols else cb
            factors.append((e, base * ipred ** sympy.Symbol(p), False))
    elif what == 'time_varying':
        after = im.fn('set_time_varying_error_model')(model, cutoff=spec['cutoff'])
        th = sympy.Symbol('time_varying')
        fct = sympy.Piecewise((th, sympy.Symbol('TIME') < sympy.Float(spec['cutoff'])), (1, True))
        factors = [(e, fct, True) for e in old_eps]
    elif what == 'weighted':
        after = im.fn('set_weighted_error_model')(model)
        factors = [(e, sympy.Integer(1), True) for e in old_eps]
    else:
        raise AssertionError(what)
    names = new_names()
    before_t = stmts_term(model.statements.after_odes, names)
    after_t = stmts_term(after.statements.after_odes, names)
    eps_t = ct.lst([ct.tup(names.p(e), sc.expr(f, names), ct.boolean(m)) for e, f, m in factors])
    syms = [s for s in assigned(model.statements.after_odes) if s != 'Y']
    envs = err_envs(rng, after, names, 6, extra_zero=old_eps)
    for e in envs:
        if 'TIME' in e:
            e['TIME'] = rng.choice([F(0), F(1, 2), F(2), F(5)])
    pairs_t = ct.lst([ct.pair(names.p(e), names.p('ETA_RV1')) for e in old_eps]) if what == 'iiv_on_ruv' else '[]'
    term = "(CRuv (mkRuv %s\n %s\n %s %s\n %s %s %s))" % (
        before_t, after_t, names.p('Y'), eps_t, ct.lst([names.p(s) for s in syms]), envs_term(envs, names), pairs_t)
    return term, {'kind': 'ruv', 'what': what}


def build_ode(spec, rng):
    im = impl()
    model = load_model(spec)
    what = spec['what']
    if what == 'transit':
        after = model
        for n in spec['n']:
            after = im.fn('set_transit_compartments')(after, n, keep_depot=spec.get('keep_depot', True))
        n = spec['n'][-1]
        odes = after.statements.ode_system
        # every compartment created by the setter is called TRANSIT<i> (independent of the detector
        # find_transit_compartments, which by design does not report a single transit compartment)
        transits = [odes.find_compartment(nm) for nm in odes.compartment_names if nm.startswith('TRANSIT')]
        exprs = [odes.get_compartment_outflows(c)[0][1] for c in transits]
        kind, time = 'OTransit', 'MDT'
    elif what == 'fo':
        after = im.fn('set_first_order_absorption')(model)
        if after.statements.find_assignment('MAT') is None:
            return None, {'skip': 'model keeps its own first-order parameterisation (no MAT)'}
        odes = after.statements.ode_system
        depot = odes.find_depot(after.statements)
        if depot is None:
            return None, {'skip': 'no depot', 'broken': True}
        exprs = [odes.get_flow(depot, odes.central_compartment)]
        kind, time, n = 'OFirstOrder', 'MAT', 1
    elif what == 'zo':
        after = im.fn('set_zero_order_absorption')(model)
        odes = after.statements.ode_system
        dose = odes.dosing_compartments[0].doses[0]
        exprs = [dose.duration]
        kind, time, n = 'OZeroOrder', 'MAT', 1
    else:
        raise AssertionError(what)
    names = new_names()
    st_t = stmts_term(after.statements.before_odes, names)
    ex_t = ct.lst([sc.expr(e, names) for e in exprs])
    names.get(time)
    eg = EnvGen(rng, after)
    envs = eg.envs(names, 5)
    term = "(COde (mkOde %s %s\n %s %s %s %s))" % (kind, st_t, ex_t, names.p(time), ct.nat(n), envs_term(envs, names))
    return term, {'kind': 'ode', 'what': what, 'n': n, 'nrates': len(exprs)}


def build_allo(spec, rng):
    im = impl()
    model = load_model(spec)
    ref = spec.get('reference', 70)
    after = im.fn('add_allometry')(model, allometric_variable=spec['var'], reference_value=ref,
                                   parameters=spec.get('parameters'))
    newp = [p for p in after.parameters.names if p not in model.parameters.names]
    params = [(p[len('ALLO_'):], p) for p in newp if p.startswith('ALLO_')]
    if not params:
        return None, {'skip': 'no allometry added'}
    names = new_names()
    before_t = stmts_term(model.statements, names)
    after_t = stmts_term(after.statements, names)
    syms = assigned(model.statements)
    eg = EnvGen(rng, after)
    eg.rules[spec['var']] = [F(35), F(140), F(7), F(10)]
    envs = eg.envs(names, 6)
    term = "(CAllo (mkAllo %s\n %s\n %s %s %s\n %s %s))" % (
        before_t, after_t, ct.lst([ct.pair(names.p(a), names.p(b)) for a, b in params]), names.p(spec['var']),
        ct.q(F(str(ref))), ct.lst([names.p(s) for s in syms]), envs_term(envs, names))
    return term, {'kind': 'allo', 'nparams': len(params)}


def build_iov(spec, rng):
    """One add_iov call of a history, probed at non-zero pairwise distinct eta values."""
    im = impl()
    model = load_model(spec)
    calls = spec['calls']
    for c in calls[:-1]:
        model = im.fn('add_iov')(model, c['occ'], c['params'], distribution=c.get('distribution', 'disjoint'))
    last = calls[-1]
    after = im.fn('add_iov')(model, last['occ'], last['params'], distribution=last.get('distribution', 'disjoint'))
    occ = last['occ']
    levels = sorted({int(float(x)) for x in model.dataset[occ].unique()})
    # requested etas: the IIV etas in the full expression of each requested parameter (documented: parameter names
    # or eta names), in request order
    iiv = [n for n in model.random_variables.iiv.names]
    params = last['params']
    flat = [q for grp in params for q in grp] if params and isinstance(params[0], list) else list(params)
    req = []
    for P in flat:
        if P in model.random_variables.names:
            cand = [P]
        else:
            # "parameter names": the IIV etas occurring in the parameter's own assignment
            fs = {str(x) for x in model.statements.find_assignment(P).expression.free_symbols}
            cand = [e for e in iiv if e in fs]
            if not cand:
                fs = {str(x) for x in model.statements.before_odes.full_expression(P).free_symbols}
                cand = [e for e in iiv if e in fs]
        for e in cand:
            if e not in req:
                req.append(e)
    newetas = [e for e in after.random_variables.etas.names if e not in model.random_variables.etas.names]
    byn = {}
    for e in newetas:
        mm = re.fullmatch(r'ETA_IOV_(\d+)_(\d+)', e)
        if not mm:
            return None, {'skip': f'unexpected IOV eta name {e}', 'broken': True}
        byn.setdefault(int(mm.group(1)), {})[int(mm.group(2))] = e
    if len(byn) != len(req) or any(sorted(d) != list(range(1, len(levels) + 1)) for d in byn.values()):
        return None, {'skip': f'IOV etas {newetas} do not match requested etas {req} x levels {levels}', 'broken': True}
    names = new_names()
    before_t = stmts_term(model.statements, names)
    after_t = stmts_term(after.statements, names)
    removed = im.fn('remove_iov')(after, newetas)
    removed_t = stmts_term(removed.statements, names)
    etas_t = ct.lst([ct.pair(names.p(e), ct.lst([ct.pair(ct.q(F(lv)), names.p(byn[n][k]))
                                                  for k, lv in enumerate(levels, 1)]))
                     for e, n in zip(req, sorted(byn))])
    syms = assigned(model.statements)
    eg = EnvGen(rng, after)
    eg.rules[occ] = [F(lv) for lv in levels]
    for c in calls[:-1]:
        eg.rules.setdefault(c['occ'], [F(int(float(x))) for x in sorted(model.dataset[c['occ']].unique())])
    envs = eg.envs(names, 6)
    alletas = list(after.random_variables.etas.names)
    for e in envs:       # pairwise distinct non-zero integers, a different assignment at every point
        vals = list(range(1, len(alletas) + 1))
        rng.shuffle(vals)
        for nm, v in zip(alletas, vals):
            e[nm] = F(v if rng.random() < 0.7 else -v)
    # documented names of the declared symbols: IOV_<n>, ETAI<n> with the n of the IOV etas
    items_t = ct.lst([ct.pair(names.p(f'IOV_{n}'), names.p(f'ETAI{n}')) for n in sorted(byn)])
    # declared distributions: documented names ETA_IOV_<n>_<k>, OMEGA_IOV_<n> (variance), OMEGA_IOV_<n>_<j> (covariance i < j)
    ns = sorted(byn)
    dist = last.get('distribution', 'disjoint')
    if dist == 'disjoint':
        groups = [[i] for i in range(1, len(ns) + 1)]
    elif dist == 'joint':
        groups = [list(range(1, len(ns) + 1))]
    elif dist == 'explicit':
        groups, pos = [], 1
        for grp in params:
            groups.append(list(range(pos, pos + len(grp))))
            pos += len(grp)
    else:
        groups = []          # same-as-iiv: the grouping is read from the existing distributions (not compared)
    en = [ct.tup(ct.nat(i), ct.nat(k), names.p(byn[n][k])) for i, n in enumerate(ns, 1) for k in sorted(byn[n])]
    on = []
    for i, n in enumerate(ns, 1):
        on.append(ct.tup(ct.nat(i), ct.nat(i), names.p(f'OMEGA_IOV_{n}')))
        for j in range(i + 1, len(ns) + 1):
            on.append(ct.tup(ct.nat(i), ct.nat(j), names.p(f'OMEGA_IOV_{n}_{j}')))
    dists = []
    for d in after.random_variables:
        if all(nm in newetas for nm in d.names):
            var = sc.to_sympy(d.variance)
            rows = [[var]] if not hasattr(var, 'shape') else [[var[a, b] for b in range(var.shape[1])] for a in range(var.shape[0])]
            dists.append(ct.pair(ct.lst([names.p(nm) for nm in d.names]),
                                 ct.lst([ct.lst([names.p(str(x)) for x in row]) for row in rows])))
    term = "(CIov (mkIov %s\n %s\n %s\n %s %s\n %s %s %s\n %s %s %s %s))" % (
        before_t, after_t, ct.opt(removed_t), names.p(occ), etas_t, ct.lst([names.p(x) for x in syms]),
        envs_term(envs, names), items_t,
        ct.lst([ct.lst([ct.nat(i) for i in g]) for g in groups]), ct.lst(en), ct.lst(on), ct.lst(dists))
    return term, {'kind': 'iov', 'ncalls': len(calls), 'distribution': last.get('distribution', 'disjoint')}


def build_num(spec, rng):
    """odes._update_numerators on a transit model whose rate numerators were set to a wrong integer."""
    from pharmpy.basic import Expr
    from pharmpy.model import CompartmentalSystem, CompartmentalSystemBuilder
    im = impl()
    mod = im.module('odes.py')
    model = im.fn('set_transit_compartments')(load_model(spec), spec['n'])
    wrong = spec['wrong']
    odes = model.statements.ode_system
    tnames = [nm for nm in odes.compartment_names if nm.startswith('TRANSIT')]
    if spec['direct']:
        cb = CompartmentalSystemBuilder(odes)
        for nm in tnames:
            comp = odes.find_compartment(nm)
            to, rate = odes.get_compartment_outflows(comp)[0]
            full = model.statements.before_odes.full_expression(rate)
            _, den = full.as_numer_denom()
            cb.add_flow(comp, to, Expr.integer(wrong) / den)
        model = model.replace(statements=model.statements.before_odes + CompartmentalSystem(cb) + model.statements.after_odes)
    else:
        st = model.statements
        for nm in tnames:
            rate = odes.get_compartment_outflows(odes.find_compartment(nm))[0][1]
            if not rate.is_symbol():
                return None, {'skip': 'rate is not a symbol', 'broken': True}
            _, den = st.find_assignment(rate.name).expression.as_numer_denom()
            st = st.reassign(rate, Expr.integer(wrong) / den)
        model = model.replace(statements=st)
    names = new_names()
    odes = model.statements.ode_system

    def numer_term(e):
        if e.is_integer():
            return f"(NInt {ct.q(F(int(e)))})"
        if e.is_symbol():
            return f"(NSym {names.p(e.name)})"
        return "NOther"
    rates, defs = [], {}
    for nm in tnames:
        rate = odes.get_compartment_outflows(odes.find_compartment(nm))[0][1]
        num, den = rate.as_numer_denom()
        rates.append("{| tr_numer := %s; tr_denom := %s |}" % (numer_term(num), sc.expr(den, names)))
        if num.is_symbol():
            a = model.statements.find_assignment(num.name)
            if a is not None:
                n2, d2 = a.expression.as_numer_denom()
                defs[num.name] = ct.pair(names.p(num.name), ct.pair(numer_term(n2), sc.expr(d2, names)))
    after = mod._update_numerators(model)
    odes2 = after.statements.ode_system
    outs = []
    for nm in tnames:
        rate = odes2.get_compartment_outflows(odes2.find_compartment(nm))[0][1]
        a = after.statements.find_assignment(rate.name) if rate.is_symbol() else None
        outs.append(sc.expr(a.expression if a is not None else rate, names))   # one level, as the model looks it up
    eg = EnvGen(rng, after)
    envs = eg.envs(names, 4)
    term = "(CNum (mkNum %s %s\n %s %s))" % (ct.lst(rates), ct.lst(list(defs.values())), ct.lst(outs), envs_term(envs, names))
    return term, {'kind': 'num', 'direct': spec['direct']}


def build_blq(spec, rng):
    """transform_blq M3/M4: the statement-level hand model against the implementation."""
    import sympy
    im = impl()
    model = load_model(spec)
    after = im.fn('transform_blq')(model, method=spec['method'], lloq=spec['lloq'])

    def tf(e):   # PHI -> the function id reserved for it (exported through sympy's gamma)
        return e.replace(lambda x: isinstance(x, sympy.Function) and type(x).__name__ == 'PHI',
                         lambda x: sympy.gamma(x.args[0]))
    names = new_names()
    before_t = stmts_term(model.statements, names, tf)
    after_t = stmts_term(after.statements, names, tf)
    sd = after.statements.find_assignment('SD')
    lloq = after.statements.find_assignment('LLOQ')
    dv = model.datainfo.dv_column.name
    eps = list(model.random_variables.epsilons.names)
    args = ("{| b_y := %s; b_sd_stmt := %s; b_sd := %s; b_lloq_stmt := %s; b_level := (Sym %s); "
            "b_above := (CRel OGe (Sym %s) (Sym %s)); b_fflag := %s; b_cumd := %s; b_cumdz := %s; b_epsilons := %s; "
            "b_m4 := %s |}" % (names.p('Y'), stmt_term(sd, names, tf), names.p('SD'), ct.opt(stmt_term(lloq, names, tf)),
                               names.p('LLOQ'), names.p(dv), names.p('LLOQ'), names.p('F_FLAG'), names.p('CUMD'),
                               names.p('CUMDZ'), ct.lst([names.p(e) for e in eps]), ct.boolean(spec['method'] == 'm4')))
    eg = EnvGen(rng, after)
    eg.rules['SIGMA'] = [F(1), F(4)]
    eg.rules['sigma'] = [F(1), F(4)]
    eg.rules['sigma_prop'] = [F(1), F(4)]
    eg.rules['sigma_add'] = [F(1), F(4)]
    eg.rules[dv] = [F(0), F(1), F(2), F(3)]
    envs = eg.envs(names, 8)
    es = []
    for d in model.random_variables.epsilons:
        es.append(ct.pair(names.p(d.names[0]), names.p(str(sc.to_sympy(d.variance)))))
    term = "(CBlq (mkBlq %s\n %s\n %s\n %s %s))" % (args, before_t, after_t, envs_term(envs, names), ct.lst(es))
    return term, {'kind': 'blq', 'method': spec['method']}


def build_rem(spec, rng):
    """remove_iiv on the statement that carries the eta: replacement rule (hand model) vs implementation."""
    import sympy
    im = impl()
    model = load_model(spec)
    if 'form' in spec:
        base = model
        model = im.fn('add_iiv')(model, spec['param'], spec['form'], spec['op'])
        eta = f"ETA_{spec['param']}"
        original = base.statements.find_assignment(spec['stmt']).expression
    else:
        eta = spec['eta']
        original = None
    removed = im.fn('remove_iiv')(model, eta)
    st = model.statements.find_assignment(spec['stmt'])
    ex = sympy.sympify(sc.to_sympy(st.expression)).expand()
    if len(ex.args) == 0:
        kind = 0
    elif len(ex.args) == 1 and ex.func == sympy.exp:
        kind = 1
    elif ex.func == sympy.Mul:
        kind = 2
    elif ex.func == sympy.Add:
        kind = 3
    else:
        kind = 4
    names = new_names()
    args_t = ct.lst([sc.expr(a, names) for a in ex.args]) if kind in (2, 3) else '[]'
    whole_t = sc.expr(ex, names)
    res = removed.statements.find_assignment(spec['stmt'])
    res_t = sc.expr(res.expression, names)
    orig_t = sc.expr(original, names) if original is not None else res_t
    eg = EnvGen(rng, model)
    eg.etas.add(eta)
    for k, v in spec.get('rules', {}).items():
        eg.rules[k] = [F(x) for x in v]
    names.get(eta)
    envs = eg.envs(names, 6)
    term = "(CRem (mkRem %s %s %s\n %s\n %s\n %s %s))" % (names.p(eta), ct.nat(kind), args_t, whole_t, res_t, orig_t,
                                                        envs_term(envs, names))
    return term, {'kind': 'rem', 'top': kind}


def build_same(spec, rng):
    import sympy
    im = impl()
    model = load_model(spec)
    what = spec['what']
    tf = None
    zero, rules = [], {}
    if what == 'etat':
        after = im.fn('transform_etas_' + spec['transformation'])(model)
        tagno = 28
        zero = list(after.random_variables.etas.names)
    elif what == 'iov':
        after = im.fn('add_iov')(model, spec['occ'], spec['params'], distribution=spec.get('distribution', 'disjoint'))
        tagno = 29
        zero = list(after.random_variables.etas.names)
        rules[spec['occ']] = [F(str(float(x))) for x in sorted(model.dataset[spec['occ']].unique())]
    elif what == 'blq':
        after = im.fn('transform_blq')(model, method=spec['method'], lloq=spec['lloq'])
        tagno = 53

        def tf(e):   # PHI (normal cdf) only occurs in the below-LLOQ branch: a total stand-in
            return e.replace(lambda x: isinstance(x, sympy.Function) and type(x).__name__ == 'PHI',
                             lambda x: sympy.cos(x.args[0]))
        dvcol = model.datainfo.dv_column.name
        rules[dvcol] = [F(1), F(2), F(3)]
        rules['SIGMA'] = [F(1), F(4)]
    else:
        raise AssertionError(what)
    names = new_names()
    before_t = stmts_term(model.statements, names, tf)
    after_t = stmts_term(after.statements, names, tf)
    syms = assigned(model.statements)
    eg = EnvGen(rng, after)
    for z in zero:
        eg.rules[z] = [F(0)]
    for k, v in rules.items():
        eg.rules[k] = v
    envs = eg.envs(names, 6)
    term = "(CSame (mkSame %s %s\n %s\n %s %s))" % (ct.nat(tagno), before_t, after_t, ct.lst([names.p(s) for s in syms]),
                                                    envs_term(envs, names))
    return term, {'kind': 'same', 'what': what}


def build_cat(spec, rng):
    """CovariateEffect.categorical on a generated table of counts."""
    import numpy as np
    import pandas as pd
    mod = impl().module('covariate_effect.py')
    idx = [float('nan') if c is None else float(c) for c in spec['cats']]
    counts = pd.Series(spec['counts'], index=idx)
    ce = mod.CovariateEffect.categorical(counts, alternative=spec['alt'])
    names = ct.Names(start=1000)
    for k, v in PLACEHOLDERS.items():
        names.ids[k] = v
        names.rev[v] = k
    for i in range(1, len(idx) + 2):
        names.ids[f'theta{i}'] = 100 + i
        names.rev[100 + i] = f'theta{i}'
    e_t = sc.expr(ce.template.expression, names)
    cats = [None if c is None else F(str(float(c))) for c in spec['cats']]
    mc = F(str(float(counts.idxmax())))
    envs = []
    for _ in range(5):
        e = {nm: F(rng.choice([1, 2, 3, 4, -1])) for nm in names.ids}
        e['cov'] = rng.choice([c for c in cats if c is not None])
        envs.append(e)
    term = "(CCat (mkCat %s %s %s\n %s %s))" % (
        ct.lst([ct.opt(None if c is None else ct.q(c)) for c in cats]), ct.q(mc), ct.boolean(spec['alt']), e_t,
        envs_term(envs, names))
    return term, {'kind': 'cat', 'ncats': len(cats), 'nan': any(c is None for c in cats)}


BUILDERS = {'num': build_num, 'blq': build_blq, 'iov': build_iov, 'rem': build_rem, 'same': build_same, 'cov': build_cov, 'iiv': build_iiv, 'err': build_err, 'ruv': build_ruv, 'ode': build_ode,
            'allo': build_allo, 'cat': build_cat}


# ------------------------------------------------------------------ specs
def pheno_cov_specs(full):
    out = []
    effects = ['lin', 'cat', 'cat2', 'piece_lin', 'exp', 'pow']
    first = True
    for P in (['CL', 'VC', 'V', 'S1', 'TVCL', 'TVV'] if full else ['CL', 'VC', 'S1']):
        for eff in effects:
            for op in ['*', '+']:
                if not full and op == '+' and eff not in ('lin', 'exp'):
                    continue
                out.append({'kind': 'cov', 'model': 'pheno', 'param': P, 'cov': 'APGR', 'effect': eff, 'op': op,
                            'groups': first})
                first = False
    # categorical effects on covariates with exactly two levels (FA1, FA2: 0/1) — one theta, no index
    for P, cov in ([('CL', 'FA1'), ('VC', 'FA2'), ('S1', 'FA1')] if full else [('CL', 'FA1'), ('VC', 'FA2')]):
        for eff in ['cat', 'cat2']:
            for op in (['*', '+'] if full else ['*']):
                out.append({'kind': 'cov', 'model': 'pheno', 'param': P, 'cov': cov, 'effect': eff, 'op': op})
    # WGT after removing the built-in weight effects, and nested on top of them
    prep = [['remove_covariate_effect', 'CL', 'WGT'], ['remove_covariate_effect', 'VC', 'WGT']]
    first = True
    for P in ['CL', 'VC']:
        for eff in ['lin', 'piece_lin', 'exp', 'pow']:
            for op in (['*', '+'] if full else ['*']):
                out.append({'kind': 'cov', 'model': 'pheno', 'prep': prep, 'param': P, 'cov': 'WGT', 'effect': eff,
                            'op': op, 'groups': first})
                first = False
    out.append({'kind': 'cov', 'model': 'pheno', 'prep': [['_vary', 'WGT']] + prep, 'param': 'CL', 'cov': 'WGT',
                'effect': 'lin', 'op': '*', 'groups': True})
    for eff in (['lin', 'exp', 'pow', 'piece_lin'] if full else ['pow', 'exp']):
        out.append({'kind': 'cov', 'model': 'pheno', 'param': 'CL', 'cov': 'WGT', 'effect': eff, 'op': '*', 'nested': True})
    # two effects in a row (grouping heuristic; shared statistic statement)
    out.append({'kind': 'cov', 'model': 'pheno', 'prep': [['add_covariate_effect', 'CL', 'APGR', 'exp']],
                'param': 'CL', 'cov': 'WGT', 'effect': 'pow', 'op': '*', 'nested': True})
    out.append({'kind': 'cov', 'model': 'pheno', 'prep': [['add_covariate_effect', 'CL', 'APGR', 'lin']],
                'param': 'VC', 'cov': 'APGR', 'effect': 'exp', 'op': '*'})
    out.append({'kind': 'cov', 'model': 'pheno', 'prep': [['add_covariate_effect', 'CL', 'APGR', 'lin', '+']],
                'param': 'CL', 'cov': 'WGT', 'effect': 'lin', 'op': '*', 'nested': True})
    return out


def pheno_iiv_specs(full):
    out = []
    for P, prep in [('CL', [['remove_iiv', 'CL']]), ('VC', [['remove_iiv', 'VC']]), ('TVCL', []), ('S1', []), ('V', [])]:
        if not full and P in ('S1', 'V'):
            continue
        for kind in IKINDS:
            for op in ['*', '+']:
                if kind != 'exp' and op == '+' and not full:
                    continue
                spec = {'kind': 'iiv', 'model': 'pheno', 'prep': prep, 'param': P, 'form': kind, 'op': op}
                if kind == 're_log':
                    # log(P/(1-P)) must stay in the exact domain: P/(1-P) a power of two
                    spec['rules'] = {'POP_CL': ['2/3', '4/5'], 'POP_VC': ['2/3', '4/5'], 'TVCL': ['2/3', '4/5'], 'TVV': ['2/3', '4/5'], 'CL': ['2/3', '4/5'], 'VC': ['2/3', '4/5'], 'WGT': [1], 'COVAPGR': [1],
                                     'APGR': [6, 7, 8], 'ETA_CL': [0], 'ETA_VC': [0]}
                out.append(spec)
    return out


def pheno_err_specs(full):
    out = []
    bases = {'pheno': [], 'noerr': [['remove_error_model']], 'additive': [['set_additive_error_model']],
             'combined': [['set_combined_error_model']]}
    for bname, prep in bases.items():
        for setter in ERR_SETTERS:
            if setter == 'comb_iivruv':
                continue
            if not full and bname in ('additive', 'combined') and setter not in ('prop', 'add', 'comb'):
                continue
            out.append({'kind': 'err', 'model': 'pheno', 'prep': prep, 'setter': setter})
    out.append({'kind': 'err', 'model': 'pheno', 'prep': [['set_iiv_on_ruv']], 'setter': 'comb_iivruv'})
    return out


def pheno_ruv_specs(full):
    out = []
    out.append({'kind': 'ruv', 'model': 'pheno', 'prep': [['set_iiv_on_ruv']], 'what': 'power_on_ruv'})
    out.append({'kind': 'ruv', 'model': 'pheno', 'prep': [['set_power_on_ruv']], 'what': 'power_on_ruv'})
    for bname, prep in [('pheno', []), ('additive', [['set_additive_error_model']]),
                        ('combined', [['set_combined_error_model']])]:
        for what in ['iiv_on_ruv', 'power_on_ruv', 'time_varying', 'weighted']:
            if what == 'weighted' and bname != 'pheno':
                continue
            s = {'kind': 'ruv', 'model': 'pheno', 'prep': prep, 'what': what}
            if what == 'time_varying':
                s['cutoff'] = 1.0
            out.append(s)
    return out


def transit_spec(d):
    # "Cannot set the number of transits to 1 for model with instantaneous absorption" is a documented refusal
    if d['n'][0] == 1:
        d['may_refuse'] = True
    return d


def pheno_ode_specs(full):
    out = []
    for ns in ([[1], [2], [3], [5], [3, 5], [4, 2], [2, 3, 1]] if full else [[2], [3], [3, 5], [4, 2]]):
        out.append(transit_spec({'kind': 'ode', 'model': 'pheno', 'what': 'transit', 'n': ns}))
    for ns in ([[1], [2], [4], [2, 4], [3, 1]] if full else [[2], [3, 1]]):
        out.append(transit_spec({'kind': 'ode', 'model': 'pheno', 'prep': [['set_first_order_absorption']], 'what': 'transit', 'n': ns}))
        out.append(transit_spec({'kind': 'ode', 'model': 'pheno', 'prep': [['set_first_order_absorption']], 'what': 'transit', 'n': ns,
                                 'keep_depot': False}))
    for n, wrong, direct in ([(3, 5, False), (3, 5, True), (2, 7, False), (4, 1, True)] + ([(5, 2, False), (2, 3, True)] if full else [])):
        out.append({'kind': 'num', 'model': 'pheno', 'n': n, 'wrong': wrong, 'direct': direct})
    out.append({'kind': 'ode', 'model': 'pheno', 'what': 'fo'})
    out.append({'kind': 'ode', 'model': 'pheno', 'what': 'zo'})
    out.append({'kind': 'ode', 'model': 'pheno', 'prep': [['set_zero_order_absorption']], 'what': 'fo'})
    out.append({'kind': 'ode', 'model': 'pheno', 'prep': [['set_first_order_absorption']], 'what': 'zo'})
    return out


def pheno_allo_specs(full):
    prep = [['remove_covariate_effect', 'CL', 'WGT'], ['remove_covariate_effect', 'VC', 'WGT']]
    out = [{'kind': 'allo', 'model': 'pheno', 'prep': prep, 'var': 'WGT', 'reference': 70},
           {'kind': 'allo', 'model': 'pheno', 'prep': prep, 'var': 'WGT', 'reference': 2, 'parameters': ['CL']},
           {'kind': 'allo', 'model': 'pheno', 'var': 'APGR', 'reference': 7, 'parameters': ['CL']}]
    return out


def moxo_specs(full):
    out = []
    # (the moxo example model ships without a loadable dataset: no covariate-effect cases)
    for P in ['K', 'S2'] + (['ALAG1'] if full else []):
        for form in IKINDS:
            if form == 're_log':
                continue
            out.append({'kind': 'iiv', 'model': 'moxo', 'param': P, 'form': form, 'op': '*'})
    for setter in (ERR_SETTERS if full else ['add', 'prop', 'comb', 'comb_log', 'prop_log']):
        if setter == 'comb_iivruv':
            continue
        out.append({'kind': 'err', 'model': 'moxo', 'setter': setter})
        out.append({'kind': 'err', 'model': 'moxo', 'prep': [['remove_error_model']], 'setter': setter})
    for what in ['iiv_on_ruv', 'power_on_ruv', 'weighted']:
        out.append({'kind': 'ruv', 'model': 'moxo', 'what': what, 'ipred': 'IPRED'})
    for ns in ([[1], [2], [4], [2, 4], [3, 1], [4, 2]] if full else [[2], [2, 4], [4, 2]]):
        out.append(transit_spec({'kind': 'ode', 'model': 'moxo', 'what': 'transit', 'n': ns}))
        if full:
            # observed on the unchanged tree: ValueError 'Symbol LAG is not defined' (lag-time clean-up of the setter,
            # outside C09: no model is produced, so no formula can be checked) -> counted as refused
            out.append(dict(transit_spec({'kind': 'ode', 'model': 'moxo', 'what': 'transit', 'n': ns, 'keep_depot': False}),
                            may_refuse=True))
    out.append({'kind': 'ode', 'model': 'moxo', 'what': 'zo'})
    out.append({'kind': 'ode', 'model': 'moxo', 'what': 'fo'})
    out.append({'kind': 'allo', 'model': 'moxo', 'var': 'WT', 'reference': 70})
    return out


def rem_specs(full):
    out = []
    for P, prep in [('CL', [['remove_iiv', 'CL']]), ('VC', [['remove_iiv', 'VC']])]:
        for form in IKINDS:
            for op in (['*', '+'] if form == 'exp' else ['*']):
                spec = {'kind': 'rem', 'model': 'pheno', 'prep': prep, 'param': P, 'stmt': P, 'form': form, 'op': op}
                if form == 're_log':
                    spec['rules'] = {'POP_CL': ['2/3', '4/5'], 'POP_VC': ['2/3', '4/5'], 'TVCL': ['2/3', '4/5'],
                                     'TVV': ['2/3', '4/5'], 'WGT': [1], 'COVAPGR': [1], 'APGR': [6, 7, 8]}
                    spec['rules'][f'phi_TV{"CL" if P == "CL" else "V"}'] = [1, 2]
                out.append(spec)
    for form in ['add', 'prop', 'exp', 'log']:
        out.append({'kind': 'rem', 'model': 'moxo', 'param': 'K', 'stmt': 'K', 'form': form, 'op': '*'})
    # statements of the unchanged example models that carry an eta
    out.append({'kind': 'rem', 'model': 'pheno', 'stmt': 'CL', 'eta': 'ETA_CL'})
    out.append({'kind': 'rem', 'model': 'pheno', 'stmt': 'VC', 'eta': 'ETA_VC'})
    out.append({'kind': 'rem', 'model': 'moxo', 'stmt': 'V', 'eta': 'ETA_2'})
    return out


def iov_specs(full):
    def call(occ, params, dist='disjoint'):
        return {'occ': occ, 'params': params, 'distribution': dist}
    hist = [
        ([], [call('FA1', ['CL'])]),
        ([], [call('FA1', ['CL']), call('FA1', ['VC'])]),                       # two separate calls
        ([], [call('FA1', ['CL']), call('FA2', ['VC'])]),                       # different occasion columns
        ([], [call('FA1', ['VC']), call('APGR', ['CL'])]),                      # 2 and 10 levels
        ([], [call('FA1', ['CL', 'VC'], 'joint')]),
        ([], [call('FA1', ['CL', 'VC'], 'same-as-iiv')]),
        ([['add_iiv', 'S1', 'exp']], [call('FA1', ['S1']), call('FA2', ['CL']), call('FA1', ['VC'])]),   # after add_iiv; three calls
        ([], [call('FA2', ['ETA_VC']), call('FA1', ['ETA_CL'], 'joint')]),      # eta names
    ]
    if full:
        hist += [
            ([], [call('FA1', [['CL'], ['VC']], 'explicit')]),
            ([], [call('FA1', [['CL', 'VC']], 'explicit')]),
            ([['add_iiv', 'S1', 'exp']], [call('FA1', ['CL', 'VC', 'S1']), ]),
            ([['add_iiv', 'S1', 'exp']], [call('FA2', ['CL']), call('FA1', ['S1', 'VC'], 'joint')]),
            ([['create_joint_distribution', ['ETA_CL', 'ETA_VC']]], [call('FA1', ['CL']), call('FA2', ['VC'], 'same-as-iiv')]),
            ([], [call('APGR', ['VC']), call('FA1', ['CL']), ]),
        ]
    out = []
    for prep, calls in hist:
        for n in range(1, len(calls) + 1):
            if n < len(calls) and not full and n != len(calls) - 1:
                continue
            out.append({'kind': 'iov', 'model': 'pheno', 'prep': prep, 'calls': calls[:n]})
    return out


def same_specs(full):
    out = []
    for t in ['boxcox', 'tdist', 'john_draper']:
        out.append({'kind': 'same', 'model': 'pheno', 'what': 'etat', 'transformation': t})
    out.append({'kind': 'same', 'model': 'pheno', 'what': 'iov', 'occ': 'FA1', 'params': ['CL']})
    out.append({'kind': 'same', 'model': 'pheno', 'what': 'iov', 'occ': 'FA1', 'params': ['CL', 'VC'], 'distribution': 'joint'})
    for meth in ['m3', 'm4']:
        out.append({'kind': 'same', 'model': 'pheno', 'what': 'blq', 'method': meth, 'lloq': 0.1})
        out.append({'kind': 'blq', 'model': 'pheno', 'method': meth, 'lloq': 0.1})
        out.append({'kind': 'blq', 'model': 'pheno', 'prep': [['set_additive_error_model']], 'method': meth, 'lloq': 0.5})
    if full:
        out.append({'kind': 'same', 'model': 'pheno', 'what': 'iov', 'occ': 'APGR', 'params': ['VC']})
        out.append({'kind': 'same', 'model': 'pheno', 'prep': [['set_combined_error_model']], 'what': 'blq', 'method': 'm4', 'lloq': 0.5})
    return out


VARIANT_PREPS = [
    ['set_additive_error_model'], ['set_combined_error_model'], ['set_proportional_error_model'],
    ['set_first_order_absorption'], ['set_zero_order_absorption'], ['add_iiv', 'S1', 'exp'], ['remove_iiv', 'VC'],
    ['remove_iiv', 'CL'], ['add_covariate_effect', 'CL', 'APGR', 'exp'], ['add_covariate_effect', 'CL', 'APGR', 'cat'],
    ['add_covariate_effect', 'VC', 'WGT', 'pow', '*', {'allow_nested': True}], ['set_transit_compartments', 2],
    ['add_peripheral_compartment'], ['set_iiv_on_ruv'], ['set_power_on_ruv'], ['transform_etas_boxcox'],
    ['remove_covariate_effect', 'CL', 'WGT'], ['set_michaelis_menten_elimination'], ['add_lag_time'],
]


def variant_specs(rng, n):
    """Reachable variants: a random chain of transformations of pheno, then one extension."""
    out = []
    for _ in range(n):
        prep = [rng.choice(VARIANT_PREPS) for _ in range(rng.choice([1, 1, 2, 2, 3]))]
        k = rng.choice(['cov', 'cov', 'cov', 'iiv', 'iiv', 'err', 'ruv', 'ode', 'allo', 'same', 'rem'])
        if k == 'cov':
            sp = {'kind': 'cov', 'model': 'pheno', 'prep': prep, 'param': rng.choice(['CL', 'VC', 'V', 'S1']),
                  'cov': rng.choice(['APGR', 'WGT']), 'effect': rng.choice(list(EKINDS)), 'op': rng.choice(['*', '*', '+'])}
        elif k == 'iiv':
            sp = {'kind': 'iiv', 'model': 'pheno', 'prep': prep, 'param': rng.choice(['S1', 'V', 'TVCL', 'TVV']),
                  'form': rng.choice(['add', 'prop', 'exp', 'log']), 'op': rng.choice(['*', '*', '+'])}
        elif k == 'err':
            sp = {'kind': 'err', 'model': 'pheno', 'prep': prep,
                  'setter': rng.choice([x for x in ERR_SETTERS if x != 'comb_iivruv'])}
        elif k == 'ruv':
            sp = {'kind': 'ruv', 'model': 'pheno', 'prep': prep, 'what': rng.choice(['iiv_on_ruv', 'power_on_ruv', 'weighted'])}
        elif k == 'ode':
            what = rng.choice(['transit', 'transit', 'fo', 'zo'])
            sp = {'kind': 'ode', 'model': 'pheno', 'prep': prep, 'what': what}
            if what == 'transit':
                sp['n'] = [rng.choice([2, 3, 4])] + ([rng.choice([2, 3, 5])] if rng.random() < 0.4 else [])
                sp['keep_depot'] = rng.random() < 0.7
        elif k == 'allo':
            sp = {'kind': 'allo', 'model': 'pheno', 'prep': prep, 'var': 'WGT', 'reference': 70}
        elif k == 'same':
            sp = {'kind': 'same', 'model': 'pheno', 'prep': prep, 'what': 'etat',
                  'transformation': rng.choice(['boxcox', 'tdist', 'john_draper'])}
        else:
            P = rng.choice(['S1', 'V', 'TVCL'])
            sp = {'kind': 'rem', 'model': 'pheno', 'prep': prep, 'param': P, 'stmt': P,
                  'form': rng.choice(['add', 'prop', 'exp', 'log']), 'op': '*'}
        # a chain may make the request invalid (documented ValueError) and may leave the exact domain of the
        # interpretation (inconclusive points are counted, not failed)
        sp['may_refuse'] = True
        sp['lenient'] = True
        out.append(sp)
    return out


def cat_specs(rng, n):
    out = []
    for _ in range(n):
        k = rng.choice([2, 2, 3, 4, 5, 7])
        cats = sorted(rng.sample([0, 1, 2, 3, 4, 5, 6, 7, 8, 9, 10], k))
        cats = [float(c) for c in cats]
        counts = [rng.choice([1, 2, 3, 5, 5, 8, 13]) for _ in cats]
        if rng.random() < 0.3:
            cats = cats + [None]
            counts = counts + [0]
        out.append({'kind': 'cat', 'cats': cats, 'counts': counts, 'alt': rng.random() < 0.5})
    return out


def all_specs(ctx):
    full = ctx.tier == 'thorough'
    specs = []
    specs += pheno_cov_specs(full)
    specs += pheno_iiv_specs(full)
    specs += pheno_err_specs(full)
    specs += pheno_ruv_specs(full)
    specs += pheno_ode_specs(full)
    specs += pheno_allo_specs(full)
    specs += moxo_specs(full)
    specs += same_specs(full)
    specs += iov_specs(full)
    specs += rem_specs(full)
    specs += cat_specs(ctx.rng, 150 if full else 40)
    specs += variant_specs(ctx.rng, 400 if full else 16)
    return specs


# ------------------------------------------------------------------ running and classification
FALLBACK_PRELUDE = 'Definition gen_templates : templates := doc_templates.\n'
IMPORTS = 'Base.PyData Base.Expr Base.Interp Base.Stmts C09.Model C09.Check'


def observe(spec, seed):
    rng = random.Random(f'{seed}-{json.dumps(spec, sort_keys=True)}')
    return BUILDERS[spec['kind']](spec, rng)


def run_specs(ctx, specs, label, prelude, quiet=False):
    terms, kept, infos = [], [], []
    skipped = {}
    raised = []
    refused = []
    for spec in specs:
        try:
            with warnings.catch_warnings():
                warnings.simplefilter('ignore')
                term, info = observe(spec, ctx.seed)
        except sc.Unconvertible as e:
            skipped['unconvertible:' + str(e)] = skipped.get('unconvertible:' + str(e), 0) + 1
            continue
        except (ValueError, NotImplementedError) as e:
            if spec.get('may_refuse'):     # a request the documentation allows to refuse
                key = 'refused:' + type(e).__name__
                skipped[key] = skipped.get(key, 0) + 1
            else:                          # every other curated request is valid: pseudo tag 91
                refused.append((spec, e))
            continue
        except Exception as e:
            if spec.get('lenient'):
                # random chains may ask for a parameter that no longer exists (KeyError) or hit failures of the
                # code generator (outside C09): recorded with their class, not judged
                key = 'variant chain not applicable: ' + type(e).__name__
                skipped[key] = skipped.get(key, 0) + 1
            else:               # a curated, valid, documented call raised: pseudo tag 90
                raised.append((spec, e))
            continue
        if term is None:
            key = info.get('skip', 'skipped')
            skipped[key] = skipped.get(key, 0) + 1
            if info.get('broken') and not quiet:
                ctx.broken.append(f'harness could not export {json.dumps(spec)}: {key}')
            continue
        terms.append(term)
        kept.append(spec)
        infos.append(info)
    verdicts = ctx.run_cases(label, IMPORTS, 'case', terms, 'verdict gen_templates', shard=12, prelude=prelude,
                             timeout=900)
    for tg, lst_ in ((90, raised), (91, refused)):
        for spec, e in lst_:
            kept.append(spec)
            verdicts.append([tg])
            infos.append({'kind': spec['kind'], 'exception': f'{type(e).__name__}: {str(e)[:160]}'})
    return kept, verdicts, infos, skipped


def classify(ctx, spec, tags):
    tags = set(tags)
    status = 'ok'
    corr = sorted(t for t in tags if t in CORR)
    for t in sorted(tags):
        if t in ORACLE:
            fid, guard = ORACLE_FINDING.get(t, (None, None))
            f = None
            for cand in ([fid] if fid else []) + EXTRA_FINDINGS.get(t, []):
                f = ctx.open_finding(cand)
                if f and guard is None:
                    # findings without a guard tag are only excused on inputs matching the stored pattern
                    view = dict(spec, n_last=(spec.get('n') or [None])[-1])
                    pat = dict(f.get('match', f['witness']))
                    has = pat.pop('prep_has', None)
                    ok = all(view.get(k) == v for k, v in pat.items())
                    ok = ok and (has is None or any(op and op[0] == has for op in spec.get('prep', [])))
                    f = f if ok else None
                if f:
                    fid = cand
                    break
            if f and (guard is None or guard in tags) and not corr:
                ctx.coverage.setdefault('known_hits', {}).setdefault(fid, 0)
                ctx.coverage['known_hits'][fid] += 1
                if status == 'ok':
                    status = 'known'
            else:
                ctx.violation(TAGS[t], {'spec': spec, 'tags': sorted(tags), 'tag_meaning': TAGS[t]})
                status = 'violation'
    if corr and status != 'violation':
        ctx.broken.append('correspondence C09: ' + ', '.join(TAGS[t] for t in corr) + ' on ' + json.dumps(spec))
        ctx.coverage.setdefault('corr_disagreements', []).append({'spec': spec, 'tags': sorted(tags)})
        status = 'broken'
    inconcl = sorted(t - 1000 for t in tags if t >= 1000)
    if inconcl and status in ('ok', 'known') and not spec.get('lenient'):
        # every sub-check of a curated case must be decided: fail closed
        ctx.broken.append('inconclusive sub-check(s) ' + ', '.join(TAGS.get(t, str(t)) for t in inconcl)
                          + ' on ' + json.dumps(spec))
        status = 'inconclusive'
    return status


def finding_probes(ctx, prelude):
    """Replay the stored witness of every open finding on the real code (one batch)."""
    fs = [f for f in ctx.findings if f.get('status') == 'open']
    if not fs:
        return
    kept, verdicts, _, _ = run_specs(ctx, [f['witness'] for f in fs], 'findings', prelude, quiet=True)
    res = {json.dumps(s, sort_keys=True): set(v) for s, v in zip(kept, verdicts)}
    for f in fs:
        tags = res.get(json.dumps(f['witness'], sort_keys=True), set())
        if f['expect_tag'] in tags:
            ctx.known(f['id'])
        else:
            ctx.notes.append(f"finding_not_reproduced {f['id']} (tags {sorted(tags)})")


def dedupe_findings(ctx):
    """known_findings.d (staging) overrides known_findings.json entry by entry (same id)."""
    byid = {}
    for f in ctx.findings:
        byid[f['id']] = f
    ctx.findings = list(byid.values())


def run(ctx):
    dedupe_findings(ctx)
    ctx.build_gate(['C09'])
    ctx.trusted += [
        'harness/props/c09_templates.py (fail-closed ast translator pharmpy source -> Coq terms) and coqterm.py / sym2coq.py '
        '(conversion of real sympy trees to Gallina terms)',
        'harness/props/c09.py: case construction, sample points, classification',
        'Base/Interp.v exact interpretation of exp/log/pow (2^n on integers, log2 on powers of two, integer powers) used '
        'only for comparing expressions by evaluation; the theorems quantify over every interpretation',
    ]
    ctx.assumptions += [
        'sympy canonicalisation, series expansion (additive error on log scale), expand (remove_iiv) and simplification '
        '(remove_covariate_effect) are engines: their results are exported and compared by exact evaluation over Q, not modelled',
        'the ODE solver is an oracle: amounts are a fixed function of the values of the system\'s rhs symbols; mean '
        'transit/absorption times are computed from the exported rates (sum of 1/rate, duration/2), the ODE is not integrated',
        'pandas groupby/median/mean: the centring statistic is recomputed exactly inside Coq from the exported column '
        '(median exactly, mean within 1e-12 relative); std and parameter initial estimates/bounds are not covered',
        'interpretation hypotheses of the neutrality theorems: fi respects Qeq, exp 0 = 1, 1^y = 1 (quantified, not assumed '
        'globally); a theorem over the real exponential is not part of this check',
        'template placeholder names (cov, median, theta, original, eta_new, x ...) are assumed not to be model symbols',
        'numeric behaviour of the generated NONMEM code, estimation, and the M3/M4 BLQ likelihood are not covered',
    ]
    prelude = prepare_gen(ctx)
    if prelude is None:
        # The regenerated model is not available (translator refused the source / Templates.v does not compile):
        # go on and search for a concrete failing input with the implementation-side oracle, instantiating the hand
        # models with the DOCUMENTED templates.
        prelude = FALLBACK_PRELUDE
        ctx.notes.append('regenerated templates unavailable: cases run against the documented templates')
    finding_probes(ctx, prelude)
    reg = sorted((VERIF / 'regress' / 'C09').glob('*.json'))
    specs = [json.loads(p.read_text()) for p in reg]
    specs = [s.get('spec', s) for s in specs]
    specs += all_specs(ctx)
    seen, uniq = set(), []
    for sp in specs:
        key = json.dumps(sp, sort_keys=True)
        if key not in seen:
            seen.add(key)
            uniq.append(sp)
    specs = uniq
    kept, verdicts, infos, skipped = run_specs(ctx, specs, 'gen', prelude)
    stats = {}
    for spec, tags in zip(kept, verdicts):
        st = classify(ctx, spec, tags)
        stats[st] = stats.get(st, 0) + 1
    kinds = {}
    for i in infos:
        kinds[i['kind']] = kinds.get(i['kind'], 0) + 1
    ctx.coverage['evaluations'] = len(kept)
    ctx.coverage['distinct_nontrivial'] = len({json.dumps(s, sort_keys=True) for s in kept})
    ctx.coverage['rule'] = ('one case per (example model, preparation, parameter, covariate, effect, operation) / eta form / '
                            'error-model setter / RUV transformation / transit-absorption request / allometry call, plus random '
                            'category-count tables from VERIF_SEED; every case compares all assigned symbols at 6-12 exact '
                            'rational points including the reference point; distinct by spec text')
    ctx.coverage['case_status'] = stats
    ctx.coverage['input_distribution'] = {
        'cases_by_kind': kinds,
        'cov_effects': {e: sum(1 for i in infos if i.get('effect') == e) for e in EKINDS},
        'cov_operation_plus': sum(1 for i in infos if i['kind'] == 'cov' and i.get('op') == '+'),
        'cov_roundtrips': sum(1 for i in infos if i.get('roundtrip')),
        'cov_nested': sum(1 for i in infos if i.get('nested')),
        'cov_cases_outside_soundness_guard': sum(1 for sp, v in zip(kept, verdicts) if sp['kind'] == 'cov' and 204 in v),
        'rem_cases_outside_purity_guard': sum(1 for sp, v in zip(kept, verdicts) if sp['kind'] == 'rem' and 203 in v),
        'iiv_forms': {k: sum(1 for i in infos if i.get('form') == k) for k in IKINDS},
        'err_setters': {k: sum(1 for i in infos if i.get('setter') == k) for k in ERR_SETTERS},
        'cat_tables_with_nan': sum(1 for i in infos if i.get('nan')),
        'skipped': skipped,
        'inconclusive_subchecks': sum(1 for v in verdicts for t in v if t >= 1000),
        'variant_chains': sum(1 for sp in kept if sp.get('lenient')),
        'variant_chains_fully_decided': sum(1 for sp, v in zip(kept, verdicts) if sp.get('lenient') and not any(t >= 1000 for t in v)),
    }
    ctx.coverage['samples'] = [{'spec': s, 'tags': v} for s, v in list(zip(kept, verdicts))[:4]]
    ctx.coverage['inconclusive_cases'] = [{'spec': s, 'tags': v} for s, v in zip(kept, verdicts) if any(t >= 1000 for t in v)][:10]


def replay(ctx, rep):
    dedupe_findings(ctx)
    spec = rep.get('spec', rep)
    prelude = prepare_gen(ctx)
    if prelude is None:
        print('translator / obligations broken (documented templates used):', ctx.broken)
        prelude = FALLBACK_PRELUDE
    kept, verdicts, _, skipped = run_specs(ctx, [spec], 'replay', prelude, quiet=True)
    print('spec', json.dumps(spec))
    if not verdicts:
        print('skipped', skipped)
        return 1
    tags = verdicts[0]
    print('tags', tags, [TAGS.get(t, TAGS.get(t - 1000, t)) for t in tags])
    bad = [t for t in tags if t in ORACLE or t in CORR]
    return 1 if bad else 0
