"""C20, .lst files: reference writer of the fixed-format lines pharmpy reads (mirror of C20/Lst.v render_lst),
generator, malformed stream, observation of the real NONMEMResultsFile, verdicts through C20.LstCheck.lverdict."""
import json
import math
from fractions import Fraction

from harness.lib import coqterm as ct

LTAGS = {8: 'NONMEMResultsFile facts (termination, covariance status, run time, method) differ from model',
         9: 'python lst writer and Coq lst renderer disagree',
         30: '.lst facts reported are not the ones written'}

METHODS = ['First Order Conditional Estimation with Interaction', 'First Order', 'Importance Sampling',
           'Stochastic Approximation Expectation-Maximization', 'First Order (Evaluation): D-OPTIMALITY',
           'Laplacian Conditional Estimation (Centered)']
OUTCOME = {
    0: ['0MINIMIZATION SUCCESSFUL'],
    1: ['0MINIMIZATION TERMINATED', ' DUE TO ROUNDING ERRORS (ERROR=134)'],
    2: ['0MINIMIZATION TERMINATED', ' DUE TO MAX. NO. OF FUNCTION EVALUATIONS EXCEEDED'],
    3: ['0MINIMIZATION TERMINATED'],
    4: [' OPTIMIZATION WAS COMPLETED'],
    5: [' OPTIMIZATION WAS NOT COMPLETED'],
}
COV = {0: [], 1: [' Elapsed covariance  time in seconds:     0.30'],
       2: [' INTERPRET VARIANCE-COVARIANCE OF ESTIMATES WITH CARE'],
       3: [' Elapsed opt. design time in seconds:     0.10']}


def T(s):
    from harness.props.c20 import T as t
    return t(s)


def rjust(s, w):
    return ' ' * max(0, w - len(s)) + s


def block_lines(b):
    ls = [' #TBLN:' + rjust(b['number'], 7), ' #METH: ' + b['method'], ' #TERM:']
    ls += OUTCOME[min(b['outcome'], 5)]
    if b['near']:
        ls.append('0PARAMETER ESTIMATE IS NEAR ITS BOUNDARY')
    if b['fevals'] is not None:
        ls.append(' NO. OF FUNCTION EVALUATIONS USED:' + rjust(b['fevals'], 9))
    if b['sig'] is not None:
        ls.append(' NO. OF SIG. DIGITS IN FINAL EST.:' + rjust(b['sig'][0] + '.' + b['sig'][1], 5))
    ls.append(' #TERE:')
    if b['time'] is not None:
        ls.append(' Elapsed estimation  time in seconds:' + rjust(b['time'][0] + '.' + b['time'][1], 9))
    ls += COV[min(b['cov'], 3)]
    ls += ['1', ' #OBJV:********************      586.276       ********************']
    return ls


def render(version, blocks):
    ls = ['Mon Jan  1 10:00:00 CET 2024', '$PROBLEM synthetic',
          '1NONLINEAR MIXED EFFECTS MODEL PROGRAM (NONMEM) VERSION ' + version]
    for b in blocks:
        ls += block_lines(b)
    ls += ['Stop Time:', 'Mon Jan  1 10:00:05 CET 2024']
    return ''.join(l + '\n' for l in ls)


def gen_block(rng, number):
    digits = lambda n: ''.join(str(rng.randint(0, 9)) for _ in range(n))  # noqa
    return {'number': str(number), 'method': rng.choice(METHODS), 'outcome': rng.choice([0, 0, 0, 1, 2, 3, 4, 5]),
            'near': rng.random() < 0.25,
            'fevals': str(rng.randint(1, 9999)) if rng.random() < 0.7 else None,
            'sig': [str(rng.randint(0, 9)), digits(rng.choice([1, 1, 2]))] if rng.random() < 0.7 else None,
            'time': [str(rng.randint(0, 500)), digits(rng.choice([1, 2, 2]))] if rng.random() < 0.85 else None,
            'cov': rng.choice([0, 1, 1, 2, 3])}


def mutate(rng, text):
    lines = text.split('\n')
    k = rng.choice(['dropline', 'dupterm', 'tere_first', 'version', 'stars', 'garbage', 'dupblock', 'blank', 'truncate',
                    'interrupt', 'sigbad', 'hessian', 'notime'])
    i = rng.randrange(len(lines))
    if k == 'dropline':
        del lines[i]
    elif k == 'dupterm':
        t = [j for j, l in enumerate(lines) if l.startswith(' #TERM:')]
        if t:
            lines.insert(rng.choice(t), ' #TERM:')
    elif k == 'tere_first':
        t = [j for j, l in enumerate(lines) if l.startswith(' #TERM:')]
        if t:
            lines[rng.choice(t)] = ' #TERE:'
    elif k == 'version':
        lines = [l.replace('VERSION 7.5.0', 'VERSION ' + rng.choice(['7.1.2', '7.2.0', '6.0', 'VI', '7.4.3', '8.0']))
                 for l in lines]
    elif k == 'stars':
        lines[i] = lines[i].replace(': ', ':*** ', 1)
    elif k == 'garbage':
        lines.insert(i, rng.choice([' #CPUT: Total CPU Time in Seconds,        2.168', '0PROGRAM TERMINATED BY OBJ',
                                    ' SOMETHING ELSE', ' #TERE', '#ABCD: x', ' S MATRIX ALGORITHMICALLY SINGULAR',
                                    ' OBJECTIVE FUNCTION VALUE WITH CONSTANT:       762.112']))
    elif k == 'dupblock':
        t = [j for j, l in enumerate(lines) if l.startswith(' #TBLN:')]
        if t:
            j = rng.choice(t)
            lines = lines[:j] + lines[j:j + 6] + lines[j:]
    elif k == 'blank':
        lines.insert(i, rng.choice(['', '   ']))
    elif k == 'truncate':
        lines = lines[:max(3, i)]
    elif k == 'interrupt':
        t = [j for j, l in enumerate(lines) if 'NOT COMPLETED' in l]
        if t:
            lines.insert(t[0] + 1, ' USER INTERRUPT')
    elif k == 'sigbad':
        lines = [l.replace('FINAL EST.:', 'FINAL EST.: x', 1) if rng.random() < 0.5 else l for l in lines]
    elif k == 'hessian':
        t = [j for j, l in enumerate(lines) if l.startswith(' #TERM:')]
        if t and t[0] >= 2:
            lines.insert(t[0] - 1, '0HESSIAN OF POSTERIOR DENSITY IS NON-POSITIVE-DEFINITE DURING SEARCH')
    elif k == 'notime':
        lines = [l for l in lines if 'Elapsed estimation' not in l]
    return '\n'.join(lines)


def gen_lspec(rng):
    n = rng.choice([1, 1, 2, 3])
    blocks = [gen_block(rng, k + 1) for k in range(n)]
    spec = {'level': 'lst', 'version': rng.choice(['7.5.0', '7.4.3', '7.3.0', '7.5.1']), 'blocks': blocks,
            'numbers': list(range(1, n + 2))}
    if rng.random() < 0.4:
        text = render(spec['version'], blocks)
        spec = {'level': 'lst', 'raw': mutate(rng, text), 'numbers': spec['numbers']}
    return spec


def lst_text(spec):
    return spec['raw'] if spec.get('raw') is not None else render(spec['version'], spec['blocks'])


# ------------------------------------------------------------------ observation
def lval(v):
    if v is None:
        return 'None'
    v = float(v)
    if math.isnan(v):
        return '(Some LNaN)'
    fr = Fraction(v)
    return f'(Some (LNum ({fr.numerator}#{fr.denominator})))'


def obool(v):
    return 'None' if v is None else f'(Some {ct.boolean(bool(v))})'


def observe(path, numbers, mod=None):
    from pharmpy.workflows.log import Log
    if mod is None:
        import pharmpy.tools.external.nonmem.results_file as mod
    try:
        rf = mod.NONMEMResultsFile(path, log=Log())
    except (NotImplementedError, ValueError) as e:
        return 'LObsRaise', type(e).__name__
    except IndexError:
        # parse_runtime (not modelled) indexes past the end when the file stops right after 'Stop Time:'
        return None, 'IndexError(runtime, not modelled)'
    if not rf._supported_nonmem_version:
        return 'LObsUnsupported', None
    out = []
    for n in numbers:
        es = rf.estimation_status(n)
        cs = rf.covariance_status(n)['covariance_step_ok']
        tb = rf.table.get(n, {})
        found = n in rf.table
        term_present = 'minimization_successful' in tb
        sig = es['significant_digits'] if (term_present or not found) else None
        fev = es['function_evaluations'] if (term_present or not found) else None
        out.append(f"({n}, mkLObs {ct.boolean(found)} {obool(es['minimization_successful'])} {obool(es['estimate_near_boundary'])} "
                   f"{obool(es['rounding_errors'])} {obool(es['maxevals_exceeded'])} {obool(es['warning'])} "
                   f"{lval(sig)} {lval(fev)} {lval(tb.get('ofv_with_constant'))} {obool(cs)} "
                   f"{lval(tb.get('estimation_runtime'))} {ct.opt(None if tb.get('METH') is None else T(tb['METH']))})")
    return f'(LObsOk {T(rf.nonmem_version)} {ct.lst(out)})', None


def wblock_term(b):
    def ot(x):
        return 'None' if x is None else f'(Some {T(x)})'

    def od(x):
        return 'None' if x is None else f'(Some ({T(x[0])}, {T(x[1])}))'
    return (f"(mkWBlock {T(b['number'])} {T(b['method'])} {int(b['outcome'])}%nat {ct.boolean(b['near'])} {ot(b['fevals'])} "
            f"{od(b['sig'])} {od(b['time'])} {int(b['cov'])}%nat)")


def lcase_term(ctx, spec, k, mod=None, perturb=None):
    text = lst_text(spec)
    d = ctx.rundir / 'lst'
    d.mkdir(exist_ok=True)
    path = d / f'l{k}.lst'
    with open(path, 'w', newline='') as fh:
        fh.write(text)
    obs, exc = observe(path, spec['numbers'], mod)
    if obs is None:
        return None, {'exc': exc, 'raw': True, 'skipped': True}
    if perturb:
        obs = perturb(obs)
    written = ('None' if spec.get('raw') is not None
               else f"(Some ({T(spec['version'])}, {ct.lst([wblock_term(b) for b in spec['blocks']])}))")
    term = f"(mkL {T(text)} {ct.lst([str(n) for n in spec['numbers']])} {written}\n  {obs})"
    return term, {'exc': exc, 'raw': spec.get('raw') is not None}


def run_lspecs(ctx, specs, label, quiet=False, **kw):
    from harness.props.c20 import PRELUDE
    terms, infos, kept = [], [], []
    for k, spec in enumerate(specs):
        term, info = lcase_term(ctx, spec, f'{label}{k}', **kw)
        infos.append(info)
        if term is None:
            ctx.coverage['lst_skipped_runtime_crash'] = ctx.coverage.get('lst_skipped_runtime_crash', 0) + 1
            continue
        terms.append(term)
        kept.append(spec)
    specs = kept
    verdicts = ctx.run_cases(label, 'C20.Model C20.Check C20.Lst C20.LstCheck', 'lcase', terms, 'lverdict', shard=25,
                             prelude=PRELUDE) if terms else []
    stats = {'ok': 0, 'violation': 0, 'broken': 0}
    if not quiet:
        for spec, tags in zip(specs, verdicts):
            tags = set(tags)
            if 30 in tags and 8 not in tags:
                ctx.violation(LTAGS[30], {'spec': spec, 'tags': sorted(tags), 'tag_meaning': LTAGS[30]})
                stats['violation'] += 1
            elif tags & {8, 9, 30}:
                ctx.broken.append('correspondence C20 .lst model vs implementation: '
                                  + ', '.join(LTAGS[t] for t in sorted(tags & {8, 9, 30})) + ' on ' + json.dumps(spec)[:500])
                ctx.coverage.setdefault('corr_disagreements', []).append({'spec': spec, 'tags': sorted(tags)})
                stats['broken'] += 1
            else:
                stats['ok'] += 1
    return verdicts, infos, stats
