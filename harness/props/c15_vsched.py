"""Deterministic scheduler for the REAL pharmpy lock code (property C15).

`lock.py` is loaded as a separate module instance (one per simulated process) and the names it
looks up at call time -- Lock, RLock, Condition, get_ident (and, for the path level, os and fcntl) --
are replaced in that instance's namespace by virtual versions bound to a `Sched`.  Real OS threads
execute the unmodified functions of lock.py; every blocking primitive (`acquire`, `wait`, `lockf`)
parks the calling thread on a private semaphore and hands control back to the scheduler, which
grants exactly one thread at a time.  A state in which no parked thread can be granted is a
deadlock and is detected exactly (no timeouts).  Nothing in /repo is edited."""
import importlib.util
import threading
from pathlib import Path

LOCK_PY = 'src/pharmpy/internals/fs/lock.py'


class Abort(BaseException):
    """Raised inside parked threads to unwind them when a run is abandoned."""


class Boom(Exception):
    """User exception raised inside a `with` body by a thread program."""


class Sched:
    def __init__(self):
        self.recs = []
        self.back = threading.Semaphore(0)
        self.aborting = False
        self.local = threading.local()
        self.events = []

    # ---- called from virtual threads
    def me(self):
        return self.local.rec

    def ident(self):
        return self.local.rec['id']

    def yield_point(self, want):
        if self.aborting:
            raise Abort()
        me = self.local.rec
        me['want'] = want
        self.back.release()
        me['sem'].acquire()
        if self.aborting:
            raise Abort()
        me['want'] = None

    # ---- called from the scheduler
    def spawn(self, fn, **extra):
        rec = dict(sem=threading.Semaphore(0), want=None, done=False, id=len(self.recs), crash=None)
        rec.update(extra)

        def body():
            self.local.rec = rec
            try:
                fn(rec)
            except Abort:
                pass
            except BaseException as e:  # noqa: unexpected exception escaping the thread program
                rec['crash'] = f'{type(e).__name__}: {e}'
            rec['done'] = True
            rec['want'] = None
            self.back.release()

        th = threading.Thread(target=body, daemon=True)
        rec['thread'] = th
        self.recs.append(rec)
        th.start()
        self.back.acquire()          # until it is parked at its first yield point (or finished)
        return rec

    def runnable(self, rec):
        if rec['done']:
            return False
        w = rec['want']
        k = w[0]
        if k == 'acquire':           # ('acquire', lock, blocking)
            return (not w[2]) or w[1].can_acquire(rec['id'])
        if k == 'wait':              # ('wait', condition)
            return rec['id'] in w[1].notified and w[1].lock.owner is None
        if k == 'released':
            return True
        if k == 'lockf':             # ('lockf', kernel, pid, file, op, blocking)
            return (not w[5]) or w[1].compatible(w[2], w[3], w[4])
        return True

    def grant(self, rec):
        self.events = []
        rec['sem'].release()
        self.back.acquire()
        return self.events

    def abort_all(self):
        self.aborting = True
        for rec in self.recs:
            if not rec['done']:
                rec['sem'].release()
                self.back.acquire()
        for rec in self.recs:
            rec['thread'].join(5)

    # ---- virtual primitives bound to this scheduler
    def Lock(self):
        return VLock(self, False)

    def RLock(self):
        return VLock(self, True)

    def Condition(self, lock=None):
        return VCondition(self, lock if lock is not None else VLock(self, True))


class VLock:
    def __init__(self, S, reentrant):
        self.S = S
        self.reentrant = reentrant
        self.owner = None
        self.depth = 0

    def can_acquire(self, tid):
        return self.owner is None or (self.reentrant and self.owner == tid)

    def acquire(self, blocking=True, timeout=-1):
        S = self.S
        if S.aborting:
            return True
        tid = S.ident()
        S.yield_point(('acquire', self, bool(blocking)))
        if not self.can_acquire(tid):
            assert not blocking
            return False
        self.owner = tid
        self.depth += 1
        if self.depth == 1:
            S.me()['held'] = S.me().get('held', 0) + 1
        return True

    def release(self):
        S = self.S
        if S.aborting:
            return
        if self.owner != S.ident() or self.depth == 0:
            raise RuntimeError('cannot release un-acquired lock')
        self.depth -= 1
        if self.depth == 0:
            self.owner = None
            S.me()['held'] = S.me().get('held', 0) - 1
            # Releasing the LAST lock a thread holds is a scheduling point too: the code that follows (up to the next
            # blocking primitive) runs outside every critical section and must not touch shared state; the check
            # verifies that by demanding that such a "stutter" step changes nothing.  (While the thread still holds
            # another lock -- an exclusive holder keeps the condition's RLock -- it is still inside a critical section.)
            if S.me()['held'] == 0:
                S.yield_point(('released',))

    def locked(self):
        return self.owner is not None

    def __enter__(self):
        self.acquire()
        return self

    def __exit__(self, *a):
        self.release()


class VCondition:
    def __init__(self, S, lock):
        self.S = S
        self.lock = lock
        self.waiters = []
        self.notified = []

    def acquire(self, *a, **k):
        return self.lock.acquire(*a, **k)

    def release(self):
        return self.lock.release()

    def __enter__(self):
        self.lock.acquire()
        return self

    def __exit__(self, *a):
        self.lock.release()

    def wait(self, timeout=None):
        S = self.S
        if S.aborting:
            raise Abort()
        tid = S.ident()
        if self.lock.owner != tid:
            raise RuntimeError('cannot wait on un-acquired lock')
        saved = self.lock.depth
        self.lock.depth = 0
        self.lock.owner = None
        S.me()['held'] = S.me().get('held', 0) - 1
        self.waiters.append(tid)
        S.events.append(('wait',))
        S.yield_point(('wait', self))
        self.notified.remove(tid)
        self.lock.owner = tid
        self.lock.depth = saved
        S.me()['held'] = S.me().get('held', 0) + 1
        return True

    def notify(self, n=1):
        S = self.S
        if S.aborting:
            return
        if self.lock.owner != S.ident():
            raise RuntimeError('cannot notify on un-acquired lock')
        moved = self.waiters[:n]
        self.waiters = self.waiters[n:]
        self.notified += moved
        S.events.append(('notify', len(moved)))

    def notify_all(self):
        self.notify(len(self.waiters))


class Holder:
    """The scheduler currently in charge of a module instance (a module instance outlives one run)."""

    def __init__(self):
        self.S = None


def load_lock_module(holder, name, path):
    """A fresh module instance of lock.py whose synchronisation primitives are the virtual ones of the
    scheduler that `holder.S` names at call time."""
    spec = importlib.util.spec_from_file_location(name, str(path))
    mod = importlib.util.module_from_spec(spec)
    spec.loader.exec_module(mod)
    mod.Lock = lambda: holder.S.Lock()
    mod.RLock = lambda: holder.S.RLock()
    mod.Condition = lambda lock=None: holder.S.Condition(lock)
    mod.get_ident = lambda: holder.S.ident()
    mod._verif_holder = holder
    return mod


def reset_pools(mod):
    """The pools were created at import time with real Locks: give them virtual ones (of the current
    scheduler); the factories / destructors stay those of the source.  Returns True iff all pools are empty."""
    empty = True
    for pool in (mod._thread_level_lock_ref, mod._process_level_lock_ref, mod._fd_ref):
        pool._lock = mod._verif_holder.S.Lock()
        empty = empty and not pool._refs
    return empty


_SRC_CACHE = {}


def lock_source(repo):
    return Path(repo) / LOCK_PY


# ------------------------------------------------------------------ virtual kernel (fcntl table, descriptors)
import fcntl as _real_fcntl
import os as _real_os


class VKernel:
    """POSIX record locks as lock.py uses them: one lock mode per (process, file); a request is granted iff it
    is compatible with the locks of every OTHER process; a process's own lock is replaced (conversion keeps the
    old lock while it waits); closing ANY descriptor of the file drops the process's lock."""

    def __init__(self, S):
        self.S = S
        self.locks = {}     # (pid, file) -> 'SH' | 'EX'
        self.fds = {}       # pid -> {fd: file}
        self.log = []

    def compatible(self, pid, path, mode):
        for (q, f), m in self.locks.items():
            if f == path and q != pid and (mode == 'EX' or m == 'EX'):
                return False
        return True

    def open(self, pid, path):
        table = self.fds.setdefault(pid, {})
        fd = 3
        while fd in table:
            fd += 1
        table[fd] = _real_os.path.normpath(path)
        self.S.events.append(('open', pid, fd))
        return fd

    def close(self, pid, fd):
        table = self.fds.setdefault(pid, {})
        if fd not in table:
            raise OSError(9, 'Bad file descriptor')
        path = table.pop(fd)
        self.locks.pop((pid, path), None)
        self.S.events.append(('close', pid, fd))

    def lockf(self, pid, fd, op):
        table = self.fds.setdefault(pid, {})
        if fd not in table:
            raise OSError(9, 'Bad file descriptor')
        path = table[fd]
        if op & _real_fcntl.LOCK_UN:
            self.locks.pop((pid, path), None)
            return
        mode = 'EX' if op & _real_fcntl.LOCK_EX else 'SH'
        blocking = not (op & _real_fcntl.LOCK_NB)
        if self.S.aborting:
            raise Abort()
        self.S.yield_point(('lockf', self, pid, path, mode, blocking))
        if not self.compatible(pid, path, mode):
            assert not blocking
            self.S.events.append(('lockf-fail', mode))
            raise BlockingIOError(11, 'Resource temporarily unavailable')
        self.locks[(pid, path)] = mode


class VOs:
    """Stands for the `os` module inside one module instance of lock.py (= one process)."""

    def __init__(self, holder, pid):
        self._holder = holder
        self._pid = pid
        self.path = _real_os.path
        self.O_RDWR = _real_os.O_RDWR
        self.name = _real_os.name

    def open(self, path, flags, *a, **k):
        return self._holder.kernel.open(self._pid, path)

    def close(self, fd):
        return self._holder.kernel.close(self._pid, fd)


class VFcntl:
    LOCK_SH = _real_fcntl.LOCK_SH
    LOCK_EX = _real_fcntl.LOCK_EX
    LOCK_NB = _real_fcntl.LOCK_NB
    LOCK_UN = _real_fcntl.LOCK_UN

    def __init__(self, holder, pid):
        self._holder = holder
        self._pid = pid

    def lockf(self, fd, op, *a):
        return self._holder.kernel.lockf(self._pid, fd, op)


def virtualise_os(mod, pid):
    mod.os = VOs(mod._verif_holder, pid)
    mod.fcntl = VFcntl(mod._verif_holder, pid)


# ------------------------------------------------------------------ conformance of the virtual primitives
def _scenarios(Lock, RLock, Condition, spawn_join):
    """Small programs whose outcome does not depend on the schedule; run once on the real `threading` primitives
    and several times on the virtual ones.  Returns the recorded outcomes."""
    out = {}

    def s1():
        L = RLock()
        r = [L.acquire(), L.acquire(), L.acquire(blocking=False)]
        L.release(); L.release(); L.release()
        try:
            L.release()
            r.append('no-error')
        except RuntimeError:
            r.append('RuntimeError')
        out['rlock_reentrant_depth'] = r

    def s2():
        L = Lock()
        r = [L.acquire(), L.acquire(blocking=False)]
        L.release()
        r.append(L.acquire(blocking=False))
        L.release()
        out['lock_not_reentrant'] = r

    def s4():
        c = Condition(RLock())
        r = []
        for f in (c.wait, c.notify_all, c.release):
            try:
                f()
                r.append('no-error')
            except RuntimeError:
                r.append('RuntimeError')
        out['unowned_errors'] = r

    spawn_join([s1])
    spawn_join([s2])
    spawn_join([s4])

    # wait() releases every level of the RLock and restores them; notify_all wakes every waiter
    c = Condition(RLock())
    st = {'waiting': 0, 'log': []}

    def waiter(k):
        def run():
            c.acquire(); c.acquire()
            st['waiting'] += 1
            c.wait()
            st['log'].append('woken')
            c.release(); c.release()
            try:
                c.release()
                st['log'].append('third-release-ok')
            except RuntimeError:
                st['log'].append('third-release-RuntimeError')
        return run

    def notifier():
        while True:
            c.acquire()              # only possible while the waiters are inside wait() or not yet started
            if st['waiting'] == 2:
                c.notify_all()
                c.release()
                return
            c.release()

    spawn_join([waiter(0), waiter(1), notifier])

    def final():     # the lock is free again
        out['wait_releases_all_levels_and_notify_all'] = sorted(st['log']) + [c.acquire(blocking=False)]
        c.release()

    spawn_join([final])

    # a non-blocking acquire fails while another thread owns the lock (RLock and Lock)
    for name, mk in (('rlock', RLock), ('lock', Lock)):
        L = mk()
        gate = Condition(RLock())
        st2 = {'held': False, 'done': False, 'r': None}

        def holder():
            L.acquire()
            gate.acquire(); st2['held'] = True; gate.release()
            while True:
                gate.acquire()
                d = st2['done']
                gate.release()
                if d:
                    break
            L.release()

        def prober():
            while True:
                gate.acquire()
                h = st2['held']
                gate.release()
                if h:
                    break
            st2['r'] = L.acquire(blocking=False)
            gate.acquire(); st2['done'] = True; gate.release()

        spawn_join([holder, prober])
        out['nonblocking_fails_when_owned_' + name] = st2['r']
    return out


def primitive_conformance(seeds=(1, 2, 3, 4, 5)):
    """Compares the virtual Lock/RLock/Condition with the real ones of `threading` on the scenarios above.
    Returns a list of differences (empty = conforming)."""
    import random

    def real_spawn_join(fns):
        ths = [threading.Thread(target=f, daemon=True) for f in fns]
        for t in ths:
            t.start()
        for t in ths:
            t.join(20)
        if any(t.is_alive() for t in ths):
            raise RuntimeError('real-thread scenario did not terminate')

    real = _scenarios(threading.Lock, threading.RLock, threading.Condition, real_spawn_join)
    diffs = []
    for seed in seeds:
        rng = random.Random(seed)
        holder = {'S': Sched()}

        def virt_spawn_join(fns):
            S = holder['S']
            recs = [S.spawn(lambda rec, f=f: (S.yield_point(('idle',)), f())) for f in fns]
            steps = 0
            while True:
                alive = [r for r in recs if not r['done']]
                if not alive:
                    break
                runnable = [r for r in alive if S.runnable(r)]
                if not runnable or steps > 20000:
                    S.abort_all()
                    raise RuntimeError('virtual scenario blocked')
                S.grant(rng.choice(runnable))
                steps += 1
            crashed = [r['crash'] for r in recs if r['crash']]
            if crashed:
                raise RuntimeError('virtual scenario crashed: ' + crashed[0])

        virt = _scenarios(lambda: holder['S'].Lock(), lambda: holder['S'].RLock(),
                          lambda lock=None: holder['S'].Condition(lock), virt_spawn_join)
        if virt != real:
            diffs.append({'seed': seed, 'real': real, 'virtual': virt})
    return diffs, real


def kernel_conformance(workdir):
    """Compares the virtual kernel with the real fcntl.lockf of this OS on the facts lock.py relies on: shared locks of
    two processes are compatible; a non-blocking conflicting request raises BlockingIOError(11, 'Resource temporarily
    unavailable'); a process converts its own lock freely; closing ANOTHER descriptor of the file drops the process's
    lock.  Uses real fork.  Returns (differences, real observations)."""
    import json
    workdir = Path(workdir)
    workdir.mkdir(parents=True, exist_ok=True)
    f = workdir / 'kernel_conformance.lock'
    f.write_text('x')
    SH, EX, NB, UN = _real_fcntl.LOCK_SH, _real_fcntl.LOCK_EX, _real_fcntl.LOCK_NB, _real_fcntl.LOCK_UN

    def attempt(lockf, fd, op):
        try:
            lockf(fd, op)
            return 'ok'
        except BlockingIOError as e:
            return ['BlockingIOError', e.errno, e.strerror]
        except OSError as e:
            return ['OSError', e.errno]

    def in_child(fn):
        r, w = _real_os.pipe()
        pid = _real_os.fork()
        if pid == 0:
            try:
                _real_os.close(r)
                res = fn()
                _real_os.write(w, json.dumps(res).encode())
            finally:
                _real_os._exit(0)
        _real_os.close(w)
        data = b''
        while True:
            chunk = _real_os.read(r, 65536)
            if not chunk:
                break
            data += chunk
        _real_os.close(r)
        _real_os.waitpid(pid, 0)
        return json.loads(data.decode())

    def probe_real():
        fd = _real_os.open(str(f), _real_os.O_RDWR)
        res = [attempt(_real_fcntl.lockf, fd, EX | NB), attempt(_real_fcntl.lockf, fd, SH | NB)]
        _real_fcntl.lockf(fd, UN)
        _real_os.close(fd)
        return res

    real = {}
    fd1 = _real_os.open(str(f), _real_os.O_RDWR)
    _real_fcntl.lockf(fd1, SH)
    real['other_holds_SH'] = in_child(probe_real)
    real['own_upgrade'] = attempt(_real_fcntl.lockf, fd1, EX | NB)
    real['other_holds_EX'] = in_child(probe_real)
    real['own_downgrade'] = attempt(_real_fcntl.lockf, fd1, SH | NB)
    fd2 = _real_os.open(str(f), _real_os.O_RDWR)
    _real_os.close(fd2)                        # drops the lock taken through fd1
    real['after_closing_another_fd'] = in_child(probe_real)
    _real_os.close(fd1)

    class _S:                                   # the virtual kernel outside a schedule: lockf must not park
        aborting = False
        events = []

        def yield_point(self, want):
            pass

    K = VKernel(_S())
    virt = {}

    def probe_virt():
        fd = K.open(1, str(f))
        res = [attempt(lambda a, b: K.lockf(1, a, b), fd, EX | NB), attempt(lambda a, b: K.lockf(1, a, b), fd, SH | NB)]
        K.lockf(1, fd, UN)
        K.close(1, fd)
        return res

    v1 = K.open(0, str(f))
    K.lockf(0, v1, SH)
    virt['other_holds_SH'] = probe_virt()
    virt['own_upgrade'] = attempt(lambda a, b: K.lockf(0, a, b), v1, EX | NB)
    virt['other_holds_EX'] = probe_virt()
    virt['own_downgrade'] = attempt(lambda a, b: K.lockf(0, a, b), v1, SH | NB)
    v2 = K.open(0, str(f))
    K.close(0, v2)
    virt['after_closing_another_fd'] = probe_virt()
    K.close(0, v1)
    diffs = [] if virt == real else [{'real': real, 'virtual': virt}]
    return diffs, real
