"""Deterministic scheduler for the REAL pharmpy lock code (property C15).

`lock.py` is loaded as a separate module instance (one per simulated process) and the names it
looks up at call time -- Lock, RLock, Condition, get_ident (and, for the path level, os and fcntl) --
are replaced in that instance's namespace by virtual versions bound to a `Sched`.  Real OS threads
execute the unmodified functions of lock.py; every blocking primitive (`acquire`, `wait`, `lockf`)
parks the calling thread on a private semaphore and hands control back to the scheduler, which
grants exactly one thread at a time.  A state in which no parked thread can be granted is a
deadlock and is detected exactly (no timeouts).  Nothing in /repo is edited."""
import importlib.util
import threading
from pathlib import Path

LOCK_PY = 'src/pharmpy/internals/fs/lock.py'


class Abort(BaseException):
    """Raised inside parked threads to unwind them when a run is abandoned."""


class Boom(Exception):
    """User exception raised inside a `with` body by a thread program."""


class Sched:
    def __init__(self):
        self.recs = []
        self.back = threading.Semaphore(0)
        self.aborting = False
        self.local = threading.local()
        self.events = []

    # ---- called from virtual threads
    def me(self):
        return self.local.rec

    def ident(self):
        return self.local.rec['id']

    def yield_point(self, want):
        if self.aborting:
            raise Abort()
        me = self.local.rec
        me['want'] = want
        self.back.release()
        me['sem'].acquire()
        if self.aborting:
            raise Abort()
        me['want'] = None

    # ---- called from the scheduler
    def spawn(self, fn, **extra):
        rec = dict(sem=threading.Semaphore(0), want=None, done=False, id=len(self.recs), crash=None)
        rec.update(extra)

        def body():
            self.local.rec = rec
            try:
                fn(rec)
            except Abort:
                pass
            except BaseException as e:  # noqa: unexpected exception escaping the thread program
                rec['crash'] = f'{type(e).__name__}: {e}'
            rec['done'] = True
            rec['want'] = None
            self.back.release()

        th = threading.Thread(target=body, daemon=True)
        rec['thread'] = th
        self.recs.append(rec)
        th.start()
        self.back.acquire()          # until it is parked at its first yield point (or finished)
        return rec

    def runnable(self, rec):
        if rec['done']:
            return False
        w = rec['want']
        k = w[0]
        if k == 'acquire':           # ('acquire', lock, blocking)
            return (not w[2]) or w[1].can_acquire(rec['id'])
        if k == 'wait':              # ('wait', condition)
            return rec['id'] in w[1].notified and w[1].lock.owner is None
        if k == 'lockf':             # ('lockf', kernel, pid, file, op, blocking)
            return (not w[5]) or w[1].compatible(w[2], w[3], w[4])
        return True

    def grant(self, rec):
        self.events = []
        rec['sem'].release()
        self.back.acquire()
        return self.events

    def abort_all(self):
        self.aborting = True
        for rec in self.recs:
            if not rec['done']:
                rec['sem'].release()
                self.back.acquire()
        for rec in self.recs:
            rec['thread'].join(5)

    # ---- virtual primitives bound to this scheduler
    def Lock(self):
        return VLock(self, False)

    def RLock(self):
        return VLock(self, True)

    def Condition(self, lock=None):
        return VCondition(self, lock if lock is not None else VLock(self, True))


class VLock:
    def __init__(self, S, reentrant):
        self.S = S
        self.reentrant = reentrant
        self.owner = None
        self.depth = 0

    def can_acquire(self, tid):
        return self.owner is None or (self.reentrant and self.owner == tid)

    def acquire(self, blocking=True, timeout=-1):
        S = self.S
        if S.aborting:
            return True
        tid = S.ident()
        S.yield_point(('acquire', self, bool(blocking)))
        if not self.can_acquire(tid):
            assert not blocking
            return False
        self.owner = tid
        self.depth += 1
        return True

    def release(self):
        S = self.S
        if S.aborting:
            return
        if self.owner != S.ident() or self.depth == 0:
            raise RuntimeError('cannot release un-acquired lock')
        self.depth -= 1
        if self.depth == 0:
            self.owner = None

    def locked(self):
        return self.owner is not None

    def __enter__(self):
        self.acquire()
        return self

    def __exit__(self, *a):
        self.release()


class VCondition:
    def __init__(self, S, lock):
        self.S = S
        self.lock = lock
        self.waiters = []
        self.notified = []

    def acquire(self, *a, **k):
        return self.lock.acquire(*a, **k)

    def release(self):
        return self.lock.release()

    def __enter__(self):
        self.lock.acquire()
        return self

    def __exit__(self, *a):
        self.lock.release()

    def wait(self, timeout=None):
        S = self.S
        if S.aborting:
            raise Abort()
        tid = S.ident()
        if self.lock.owner != tid:
            raise RuntimeError('cannot wait on un-acquired lock')
        saved = self.lock.depth
        self.lock.depth = 0
        self.lock.owner = None
        self.waiters.append(tid)
        S.events.append(('wait',))
        S.yield_point(('wait', self))
        self.notified.remove(tid)
        self.lock.owner = tid
        self.lock.depth = saved
        return True

    def notify(self, n=1):
        S = self.S
        if S.aborting:
            return
        if self.lock.owner != S.ident():
            raise RuntimeError('cannot notify on un-acquired lock')
        moved = self.waiters[:n]
        self.waiters = self.waiters[n:]
        self.notified += moved
        S.events.append(('notify', len(moved)))

    def notify_all(self):
        self.notify(len(self.waiters))


class Holder:
    """The scheduler currently in charge of a module instance (a module instance outlives one run)."""

    def __init__(self):
        self.S = None


def load_lock_module(holder, name, path):
    """A fresh module instance of lock.py whose synchronisation primitives are the virtual ones of the
    scheduler that `holder.S` names at call time."""
    spec = importlib.util.spec_from_file_location(name, str(path))
    mod = importlib.util.module_from_spec(spec)
    spec.loader.exec_module(mod)
    mod.Lock = lambda: holder.S.Lock()
    mod.RLock = lambda: holder.S.RLock()
    mod.Condition = lambda lock=None: holder.S.Condition(lock)
    mod.get_ident = lambda: holder.S.ident()
    mod._verif_holder = holder
    return mod


def reset_pools(mod):
    """The pools were created at import time with real Locks: give them virtual ones (of the current
    scheduler); the factories / destructors stay those of the source.  Returns True iff all pools are empty."""
    empty = True
    for pool in (mod._thread_level_lock_ref, mod._process_level_lock_ref, mod._fd_ref):
        pool._lock = mod._verif_holder.S.Lock()
        empty = empty and not pool._refs
    return empty


_SRC_CACHE = {}


def lock_source(repo):
    return Path(repo) / LOCK_PY
