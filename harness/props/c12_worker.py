"""C12 worker (own module of property C12): run as a fresh interpreter with its own PYTHONHASHSEED.
Reads a JSON list of model specs on stdin, rebuilds every model from its spec and prints, per model,
the database key, the dataset hash and a digest of the dictionary text."""
import hashlib
import json
import sys
import warnings

warnings.filterwarnings('ignore')


def main():
    from harness.props import c12_gen
    from pharmpy.modeling import load_dataset
    from pharmpy.workflows.hashing import DatasetHash, ModelHash
    specs = json.load(sys.stdin)
    if isinstance(specs, dict) and 'frames' in specs:
        import os
        res = []
        for fs in specs['frames']:
            try:
                res.append({'hash': str(DatasetHash(c12_gen.build_frame(fs)))})
            except Exception as e:
                res.append({'error': f'{type(e).__name__}: {e}'})
        print(json.dumps({'hashseed': os.environ.get('PYTHONHASHSEED'), 'results': res}))
        return
    out = []
    for spec in specs:
        try:
            m = c12_gen.build_model(spec)
            mh = ModelHash(m)
            if m.dataset is None and m.datainfo is not None and m.datainfo.path is not None:
                ds = str(DatasetHash(load_dataset(m).dataset))
            elif m.dataset is not None:
                ds = str(DatasetHash(m.dataset))
            else:
                ds = None
            text = json.dumps(m.to_dict())
            out.append({'key': str(mh), 'ds': ds, 'dataset_hash': mh.dataset_hash,
                        'text_sha': hashlib.sha256(text.encode()).hexdigest()})
        except Exception as e:  # reported to the parent, which decides
            out.append({'error': f'{type(e).__name__}: {e}'})
    import os
    print(json.dumps({'hashseed': os.environ.get('PYTHONHASHSEED'), 'results': out}))


if __name__ == '__main__':
    main()
