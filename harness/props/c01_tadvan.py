"""T-advan: fail-closed `ast` translator  advan.py -> Coq.

Reads (never imports) /repo/src/pharmpy/model/external/nonmem/advan.py and emits
  build/gen/C01/AdvanTables.v        trans_table / advan_flows / advan_struct as Gallina definitions
  build/gen/C01/AdvanObligations.v   the proof obligations against the NONMEM specification of C01/Model.v
Any AST shape it does not know raises Refuse (=> TRANSLATOR-REFUSED, treated as a broken obligation)."""
import ast
import hashlib

ADVAN_PY = 'src/pharmpy/model/external/nonmem/advan.py'

# symbol name -> Coq constant of C01/Model.v (and its number, re-checked by a generated lemma)
PK_SYMS = ['K', 'KA', 'K12', 'K21', 'K13', 'K31', 'K23', 'K32', 'K24', 'K42', 'CL', 'V', 'Q', 'VSS', 'V1', 'V2',
           'V3', 'V4', 'Q2', 'Q3', 'Q4', 'AOB', 'ALPHA', 'BETA', 'GAMMA', 'VM', 'KM']
SYM_ID = {n: 101 + i for i, n in enumerate(PK_SYMS)}
AMOUNTS = {'CENTRAL': 131, 'DEPOT': 132, 'PERIPHERAL': 133, 'PERIPHERAL1': 134, 'PERIPHERAL2': 135}
CNAMES = ['CENTRAL', 'DEPOT', 'PERIPHERAL', 'PERIPHERAL1', 'PERIPHERAL2', 'OUTPUT']
TRANS_FUNCS = {'_advan1and2_trans', '_advan3_trans', '_advan4_trans', '_advan11_trans', '_advan12_trans'}
ADVANS = {'ADVAN1': 'A1', 'ADVAN2': 'A2', 'ADVAN3': 'A3', 'ADVAN4': 'A4', 'ADVAN10': 'A10', 'ADVAN11': 'A11',
          'ADVAN12': 'A12'}
TRANSES = ['TRANS1', 'TRANS2', 'TRANS3', 'TRANS4', 'TRANS5', 'TRANS6']
# NONMEM's valid (ADVAN, TRANS) pairs (= domain of trans_inputs in C01/Model.v)
VALID = {'A1': [1, 2], 'A2': [1, 2], 'A3': [1, 3, 4, 5, 6], 'A4': [1, 3, 4, 5, 6], 'A10': [1],
         'A11': [1, 4, 6], 'A12': [1, 4, 6]}
INPUTS = {
    ('A1', 1): ['K'], ('A1', 2): ['CL', 'V'], ('A2', 1): ['K', 'KA'], ('A2', 2): ['CL', 'V', 'KA'],
    ('A3', 1): ['K', 'K12', 'K21'], ('A3', 3): ['CL', 'V', 'Q', 'VSS'], ('A3', 4): ['CL', 'V1', 'Q', 'V2'],
    ('A3', 5): ['AOB', 'ALPHA', 'BETA'], ('A3', 6): ['ALPHA', 'BETA', 'K21'],
    ('A4', 1): ['K', 'K23', 'K32', 'KA'], ('A4', 3): ['CL', 'V', 'Q', 'VSS', 'KA'],
    ('A4', 4): ['CL', 'V2', 'Q', 'V3', 'KA'], ('A4', 5): ['AOB', 'ALPHA', 'BETA', 'KA'],
    ('A4', 6): ['ALPHA', 'BETA', 'K32', 'KA'], ('A10', 1): ['VM', 'KM'],
    ('A11', 1): ['K', 'K12', 'K21', 'K13', 'K31'], ('A11', 4): ['CL', 'V1', 'Q2', 'V2', 'Q3', 'V3'],
    ('A11', 6): ['ALPHA', 'BETA', 'GAMMA', 'K21', 'K31'],
    ('A12', 1): ['K', 'K23', 'K32', 'K24', 'K42', 'KA'], ('A12', 4): ['CL', 'V2', 'Q3', 'V3', 'Q4', 'V4', 'KA'],
    ('A12', 6): ['ALPHA', 'BETA', 'GAMMA', 'K32', 'K42', 'KA'],
}


class Refuse(Exception):
    pass


def _is_expr_call(e, attr):
    return (isinstance(e, ast.Call) and isinstance(e.func, ast.Attribute) and isinstance(e.func.value, ast.Name)
            and e.func.value.id == 'Expr' and e.func.attr == attr)


def tr_expr(e, env):
    """Python expression over Expr.symbol/Expr.integer/+-*/ (and names bound in env) -> Coq expr text."""
    if _is_expr_call(e, 'symbol'):
        if len(e.args) == 1 and not e.keywords and isinstance(e.args[0], ast.Constant) and isinstance(e.args[0].value, str):
            name = e.args[0].value
            if name not in SYM_ID:
                raise Refuse(f'unknown symbol {name!r}')
            return f'(Sym s_{name})'
        raise Refuse('Expr.symbol shape')
    if _is_expr_call(e, 'integer'):
        if len(e.args) == 1 and isinstance(e.args[0], ast.Constant) and isinstance(e.args[0].value, int):
            return f'(Num ({e.args[0].value}#1)%Q)'
        raise Refuse('Expr.integer shape')
    if _is_expr_call(e, 'function'):
        # Expr.function(<comp>.amount.name, 't')  ->  amount symbol of that compartment
        a = e.args
        if (len(a) == 2 and isinstance(a[1], ast.Constant) and a[1].value == 't' and isinstance(a[0], ast.Attribute)
                and a[0].attr == 'name' and isinstance(a[0].value, ast.Attribute) and a[0].value.attr == 'amount'
                and isinstance(a[0].value.value, ast.Name)):
            var = a[0].value.value.id
            if var in env and env[var][0] == 'comp':
                return f'(Sym s_A_{env[var][1]})'
        raise Refuse('Expr.function shape')
    if isinstance(e, ast.Constant) and isinstance(e.value, int) and not isinstance(e.value, bool):
        return f'(Num ({e.value}#1)%Q)'
    if isinstance(e, ast.Name):
        if e.id in env and env[e.id][0] == 'expr':
            return env[e.id][1]
        raise Refuse(f'unbound name {e.id}')
    if isinstance(e, ast.BinOp):
        a, b = tr_expr(e.left, env), tr_expr(e.right, env)
        if isinstance(e.op, ast.Add):
            return f'(Add {a} {b})'
        if isinstance(e.op, ast.Sub):
            return f'(Add {a} (Neg {b}))'
        if isinstance(e.op, ast.Mult):
            return f'(Mul {a} {b})'
        if isinstance(e.op, ast.Div):
            return f'(Div {a} {b})'
        raise Refuse('operator ' + type(e.op).__name__)
    raise Refuse('expression ' + ast.dump(e)[:80])


def trans_function(fn):
    """if trans == 'TRANSn': return (...)  elif ...  else: return (...)   ->  {TRANSn: [expr...]} total on TRANS1..6"""
    if len(fn.args.args) != 1 or fn.args.args[0].arg != 'trans':
        raise Refuse(f'{fn.name}: signature')
    body = [s for s in fn.body if not (isinstance(s, ast.Expr) and isinstance(s.value, ast.Constant))]
    if len(body) != 1 or not isinstance(body[0], ast.If):
        raise Refuse(f'{fn.name}: body shape')
    table, node = {}, body[0]
    while True:
        t = node.test
        if not (isinstance(t, ast.Compare) and isinstance(t.left, ast.Name) and t.left.id == 'trans' and len(t.ops) == 1
                and isinstance(t.ops[0], ast.Eq) and isinstance(t.comparators[0], ast.Constant)
                and t.comparators[0].value in TRANSES):
            raise Refuse(f'{fn.name}: test shape')
        key = t.comparators[0].value
        if len(node.body) != 1 or not isinstance(node.body[0], ast.Return) or key in table:
            raise Refuse(f'{fn.name}: branch shape')
        table[key] = node.body[0].value
        if len(node.orelse) == 1 and isinstance(node.orelse[0], ast.If):
            node = node.orelse[0]
        elif len(node.orelse) == 1 and isinstance(node.orelse[0], ast.Return):
            default = node.orelse[0].value
            break
        else:
            raise Refuse(f'{fn.name}: else shape')
    out = {}
    for tname in TRANSES:
        val = table.get(tname, default)
        elts = val.elts if isinstance(val, ast.Tuple) else [val]
        out[tname] = [tr_expr(x, {}) for x in elts]
    n = {len(v) for v in out.values()}
    if len(n) != 1:
        raise Refuse(f'{fn.name}: tuple sizes differ')
    return out


def _kw(call, name):
    for k in call.keywords:
        if k.arg == name:
            return k.value
    raise Refuse(f'missing keyword {name}')


def _int_arg_call(e, fname, pos):
    """fname(control_stream, N) -> N"""
    if isinstance(e, ast.Call) and isinstance(e.func, ast.Name) and e.func.id == fname and len(e.args) == pos + 1 \
            and isinstance(e.args[pos], ast.Constant) and isinstance(e.args[pos].value, int):
        return e.args[pos].value
    raise Refuse(f'{fname} call shape')


def advan_branch(stmts, trans_tables):
    """Straight-line body of one `advan == 'ADVANn'` branch."""
    env = {}          # python variable -> ('comp', NAME) | ('expr', coq) | ('trans', fn, i)
    comps, order, flows = {}, [], []
    comp_map = defdose = obs = None
    for s in stmts:
        if isinstance(s, ast.Assign) and len(s.targets) == 1:
            tgt, val = s.targets[0], s.value
            if isinstance(tgt, ast.Name) and tgt.id == 'doses':
                defdose = _int_arg_call(val, 'dosing', 2)
                continue
            if isinstance(tgt, ast.Name) and tgt.id == 'cb':
                if isinstance(val, ast.Call) and isinstance(val.func, ast.Name) and val.func.id == 'CompartmentalSystemBuilder' \
                        and not val.args and not val.keywords:
                    continue
                raise Refuse('cb shape')
            if isinstance(tgt, ast.Name) and tgt.id == 'comp_map':
                if not isinstance(val, ast.Dict):
                    raise Refuse('comp_map shape')
                comp_map = []
                for k, v in zip(val.keys, val.values):
                    if not (isinstance(k, ast.Constant) and k.value in CNAMES and isinstance(v, ast.Constant) and isinstance(v.value, int)):
                        raise Refuse('comp_map entry')
                    comp_map.append((k.value, v.value))
                continue
            if isinstance(tgt, ast.Name) and tgt.id == 'ass':
                if not (isinstance(val, ast.Call) and isinstance(val.func, ast.Name) and val.func.id == '_f_link_assignment'
                        and len(val.args) == 6 and isinstance(val.args[4], ast.Name) and isinstance(val.args[5], ast.Constant)):
                    raise Refuse('_f_link_assignment shape')
                var = val.args[4].id
                if var not in env or env[var][0] != 'comp':
                    raise Refuse('_f_link_assignment compartment')
                obs = (env[var][1], val.args[5].value)
                continue
            if isinstance(tgt, ast.Name) and isinstance(val, ast.Call) and isinstance(val.func, ast.Attribute) \
                    and isinstance(val.func.value, ast.Name) and val.func.value.id == 'Compartment' and val.func.attr == 'create':
                if len(val.args) != 1 or not isinstance(val.args[0], ast.Constant) or val.args[0].value not in CNAMES[:-1]:
                    raise Refuse('Compartment.create name')
                if {k.arg for k in val.keywords} != {'doses', 'lag_time', 'bioavailability'}:
                    raise Refuse('Compartment.create keywords')
                d = _kw(val, 'doses')
                if isinstance(d, ast.Call) and isinstance(d.func, ast.Name) and d.func.id == 'tuple' and not d.args:
                    dose = None
                elif isinstance(d, ast.Call) and isinstance(d.func, ast.Name) and d.func.id == 'find_dose' and len(d.args) == 1 \
                        and isinstance(d.args[0], ast.Name) and d.args[0].id == 'doses' and len(d.keywords) == 1 \
                        and d.keywords[0].arg == 'comp_number' and isinstance(d.keywords[0].value, ast.Constant):
                    dose = d.keywords[0].value.value
                else:
                    raise Refuse('doses shape')
                name = val.args[0].value
                comps[name] = (dose, _int_arg_call(_kw(val, 'lag_time'), '_get_alag', 1),
                               _int_arg_call(_kw(val, 'bioavailability'), '_get_bioavailability', 1))
                env[tgt.id] = ('comp', name)
                continue
            if isinstance(val, ast.Call) and isinstance(val.func, ast.Name) and val.func.id in TRANS_FUNCS:
                if not (len(val.args) == 1 and isinstance(val.args[0], ast.Name) and val.args[0].id == 'trans'):
                    raise Refuse('trans call shape')
                names = [t.id for t in tgt.elts] if isinstance(tgt, ast.Tuple) else [tgt.id]
                if len(names) != len(trans_tables[val.func.id]['TRANS1']):
                    raise Refuse('trans tuple unpack size')
                for i, n in enumerate(names):
                    env[n] = ('trans', val.func.id, i)
                continue
            if isinstance(tgt, ast.Name):
                env[tgt.id] = ('expr', tr_expr(val, env))
                continue
            raise Refuse('assignment ' + ast.dump(s)[:80])
        if isinstance(s, ast.Expr) and isinstance(s.value, ast.Call) and isinstance(s.value.func, ast.Attribute) \
                and isinstance(s.value.func.value, ast.Name) and s.value.func.value.id == 'cb':
            c = s.value
            if c.func.attr == 'add_compartment' and len(c.args) == 1 and isinstance(c.args[0], ast.Name) \
                    and env.get(c.args[0].id, ('',))[0] == 'comp':
                order.append(env[c.args[0].id][1])
                continue
            if c.func.attr == 'add_flow' and len(c.args) == 3 and isinstance(c.args[0], ast.Name) and isinstance(c.args[1], ast.Name):
                src = env.get(c.args[0].id)
                dst = ('comp', 'OUTPUT') if c.args[1].id == 'output' else env.get(c.args[1].id)
                if not src or not dst or src[0] != 'comp' or dst[0] != 'comp':
                    raise Refuse('add_flow endpoints')
                r = c.args[2]
                if isinstance(r, ast.Name) and env.get(r.id, ('',))[0] == 'trans':
                    rate = env[r.id][1:]
                elif isinstance(r, ast.Call) and isinstance(r.func, ast.Name) and r.func.id in TRANS_FUNCS \
                        and len(r.args) == 1 and isinstance(r.args[0], ast.Name) and r.args[0].id == 'trans':
                    if len(trans_tables[r.func.id]['TRANS1']) != 1:
                        raise Refuse('scalar trans call of a tuple function')
                    rate = (r.func.id, 0)
                else:
                    rate = ('expr', tr_expr(r, env))
                flows.append((src[1], dst[1], rate))
                continue
        raise Refuse('statement ' + ast.dump(s)[:100])
    if comp_map is None or defdose is None or obs is None or sorted(order) != sorted(comps):
        raise Refuse('incomplete ADVAN branch')
    return {'comps': comps, 'order': order, 'flows': flows, 'comp_map': comp_map, 'defdose': defdose, 'obs': obs}


def translate(repo):
    src = (repo / ADVAN_PY).read_text()
    mod = ast.parse(src)
    funcs = {f.name: f for f in mod.body if isinstance(f, ast.FunctionDef)}
    for need in list(TRANS_FUNCS) + ['_compartmental_model']:
        if need not in funcs:
            raise Refuse(f'function {need} not found')
    extra = [n for n in funcs if n.startswith('_advan') and n.endswith('_trans') and n not in TRANS_FUNCS]
    if extra:
        raise Refuse(f'unknown trans functions {extra}')
    tables = {name: trans_function(funcs[name]) for name in sorted(TRANS_FUNCS)}
    cm = funcs['_compartmental_model']
    body = [s for s in cm.body if not (isinstance(s, ast.Expr) and isinstance(s.value, ast.Constant))]
    if len(body) != 2 or not isinstance(body[0], ast.If) or not isinstance(body[1], ast.Return):
        raise Refuse('_compartmental_model: body shape')
    structs, skipped = {}, []
    node = body[0]
    while True:
        t = node.test
        key = None
        if isinstance(t, ast.Compare) and isinstance(t.left, ast.Name) and t.left.id == 'advan' and isinstance(t.ops[0], ast.Eq) \
                and isinstance(t.comparators[0], ast.Constant):
            key = t.comparators[0].value
        if key in ADVANS:
            if ADVANS[key] in structs:
                raise Refuse(f'duplicate branch {key}')
            structs[ADVANS[key]] = advan_branch(node.body, tables)
        elif isinstance(t, ast.BoolOp) and isinstance(t.op, ast.Or) and ast.unparse(t) == "advan == 'ADVAN5' or advan == 'ADVAN7'":
            skipped.append('ADVAN5/ADVAN7 (general linear: modelled by find_rate + live streams)')
        elif isinstance(t, ast.Name) and t.id == 'des':
            skipped.append('$DES (to_compartmental_system: C05)')
        else:
            raise Refuse('unknown _compartmental_model branch: ' + ast.unparse(t)[:80])
        if len(node.orelse) == 1 and isinstance(node.orelse[0], ast.If):
            node = node.orelse[0]
        else:
            if not (len(node.orelse) == 1 and isinstance(node.orelse[0], ast.Return)):
                raise Refuse('_compartmental_model: final else')
            break
    if set(structs) != set(ADVANS.values()):
        raise Refuse(f'ADVAN branches found: {sorted(structs)}')
    sha = hashlib.sha256('\n'.join(ast.get_source_segment(src, funcs[n]) for n in sorted(TRANS_FUNCS) + ['_compartmental_model'])
                         .encode()).hexdigest()[:16]
    return tables, structs, skipped, sha


# ------------------------------------------------------------------ emission
def flows_of(st, tables, tname):
    num = dict(st['comp_map'])
    out = []
    for src, dst, rate in st['flows']:
        e = rate[1] if rate[0] == 'expr' else tables[rate[0]][tname][rate[1]]
        out.append(f"({num[src]}, {0 if dst == 'OUTPUT' else num[dst]}, {e})")
    return out


def tfn_of(st):
    fns = {r[0] for _, _, r in st['flows'] if r[0] != 'expr'}
    if len(fns) > 1:
        raise Refuse('two trans functions in one ADVAN')
    return next(iter(fns)) if fns else None


def emit_tables(tables, structs, sha):
    L = ['(* GENERATED by harness/props/c01_tadvan.py from advan.py (sha ' + sha + ') — do not edit *)',
         'From Coq Require Import QArith List PArith Arith.', 'From PV Require Import Base.Expr C01.Model.',
         'Import ListNotations.', 'Local Open Scope nat_scope.', '']
    L.append('Lemma pk_symbol_numbering : [' + '; '.join(f's_{n}' for n in PK_SYMS) + '] = ['
             + '; '.join(f'{SYM_ID[n]}%positive' for n in PK_SYMS) + '].')
    L.append('Proof. reflexivity. Qed.')
    L.append('Lemma amount_numbering : [' + '; '.join(f's_A_{n}' for n in AMOUNTS) + '] = ['
             + '; '.join(f'{v}%positive' for v in AMOUNTS.values()) + '].')
    L.append('Proof. reflexivity. Qed.\n')
    L.append('(* the tuples returned by the _advanN_trans function each ADVAN calls, per TRANS *)')
    L.append('Definition trans_table (a : advan) (t : trans) : list expr :=\n  match a, t with')
    for a in sorted(structs, key=lambda x: int(x[1:])):
        fn = tfn_of(structs[a])
        for i, tn in enumerate(TRANSES, 1):
            row = tables[fn][tn] if fn else []
            L.append(f'  | {a}, T{i} => [' + '; '.join(row) + ']')
    L.append('  end.\n')
    L.append('(* cb.add_flow calls with compartment numbers from comp_map (0 = output) *)')
    L.append('Definition advan_flows (a : advan) (t : trans) : list flow :=\n  match a, t with')
    for a in sorted(structs, key=lambda x: int(x[1:])):
        for i, tn in enumerate(TRANSES, 1):
            L.append(f'  | {a}, T{i} => [' + '; '.join(flows_of(structs[a], tables, tn)) + ']')
    L.append('  end.\n')
    L.append('Definition advan_struct (a : advan) : code_struct :=\n  match a with')
    for a in sorted(structs, key=lambda x: int(x[1:])):
        st = structs[a]
        comps = '; '.join(
            f"mkComp {n} {'None' if st['comps'][n][0] is None else '(Some %d)' % st['comps'][n][0]} {st['comps'][n][1]} {st['comps'][n][2]}"
            for n in st['order'])
        cmap = '; '.join(f'({n}, {k})' for n, k in st['comp_map'])
        L.append(f"  | {a} => mkCode [{comps}] [{cmap}] {st['defdose']} ({st['obs'][0]}, {st['obs'][1]})")
    L.append('  end.')
    return '\n'.join(L) + '\n'


def witness_env(a, ti):
    """inputs of (a, TRANSti) -> small distinct rationals; nothing else is defined"""
    vals = [2, 3, 5, 7, 11, 13, 17]
    return '[' + '; '.join(f'(s_{n}, ({v}#1)%Q)' for n, v in zip(INPUTS[(a, ti)], vals)) + ']'


def obligation_text(a, ti, positive):
    name = f'{a}_T{ti}'
    if positive:
        return (f'Lemma flows_{name} : forall fi r, Some (eval_flows r fi (advan_flows {a} T{ti})) = '
                f'option_map (eval_flows r fi) (nonmem_flows {a} T{ti}).\nProof. intros fi r. reflexivity. Qed.\n')
    w = witness_env(a, ti)
    return (f'(* the code\'s rate expressions mention symbols that are not inputs of this TRANS *)\n'
            f'Lemma flows_{name}_refuted : exists m, only_inputs {a} T{ti} m = true /\\\n'
            f'  Some (eval_flows (env_of m) std_fi (advan_flows {a} T{ti})) <> '
            f'option_map (eval_flows (env_of m) std_fi) (nonmem_flows {a} T{ti}).\n'
            f'Proof. exists {w}. split; [vm_compute; reflexivity | vm_compute; discriminate]. Qed.\n')


HEADER = ('From Coq Require Import QArith List PArith Arith Bool.\n'
          'From PV Require Import Base.PyData Base.Expr Base.Interp C01.Model.\nFrom C01Gen Require Import AdvanTables.\n'
          'Import ListNotations.\nLocal Open Scope nat_scope.\n\n')


def emit_obligations(expect_refuted):
    """expect_refuted: set of (a, ti) expected to fail (open finding).  Returns (text, names)."""
    L = ['(* GENERATED by harness/props/c01_tadvan.py — proof obligations of the regenerated ADVAN/TRANS tables *)', HEADER]
    names = []
    for a in sorted(VALID, key=lambda x: int(x[1:])):
        for ti in VALID[a]:
            pos = (a, ti) not in expect_refuted
            L.append(obligation_text(a, ti, pos))
            names.append(f'flows_{a}_T{ti}' + ('' if pos else '_refuted'))
    sup = [(a, ti) for a in sorted(VALID, key=lambda x: int(x[1:])) for ti in VALID[a] if ti not in (5, 6)]
    if all(p not in expect_refuted for p in sup):
        L.append('(* for every supported ADVAN/TRANS, every interpretation and every environment the flows of the\n'
                 '   compartmental system built by _compartmental_model carry exactly NONMEM\'s rate constants *)')
        L.append('Theorem trans_table_correct : forall a t, supported a t = true -> forall fi r,\n'
                 '  Some (eval_flows r fi (advan_flows a t)) = option_map (eval_flows r fi) (nonmem_flows a t).')
        L.append('Proof. intros a t H fi r. destruct a; destruct t; try discriminate H; reflexivity. Qed.\n')
        names.append('trans_table_correct')
    L.append('(* compartment numbering, ALAGn/Fn indices, default dose and observation compartments *)')
    L.append('Theorem advan_struct_correct : forall a, struct_ok (advan_struct a) (nonmem_struct a) = true.')
    L.append('Proof. intros a. destruct a; vm_compute; reflexivity. Qed.\n')
    names.append('advan_struct_correct')
    return '\n'.join(L), names


def single_obligation(a, ti, positive):
    return HEADER + obligation_text(a, ti, positive)
