"""Sensitivity test of the C05 check (not part of ./check): runs the C05 correspondence against mutated
copies of pharmpy/model/statements.py loaded under another module name (never touches /repo).

  cd /verif && PYTHONPATH=/repo/src:/verif PYTHONHASHSEED=0 /venv/bin/python -m harness.props.c05_sensitivity [ncases] [Mxx ...]

For every mutant the set of (tag, number of systems) is printed; compare with the BASELINE line (unmutated
code: only the known-finding tags 14/15 (with 201) and 17 (with 202))."""
import json
import os
import subprocess
import sys
from collections import Counter

SRC_PATH = '/repo/src/pharmpy/model/statements.py'
MUTDIR = '/verif/build/scratch/C05/mut'
MUTS = [
 ('M00 self flow subtracted on the diagonal again (pre-34eef54)', "                    f[j, i] = rate\n                    diagsum -= rate\n", "                    f[j, i] = rate\n                diagsum -= rate\n"),
 ('M01 sort_neighbors reversed', "            a = sorted(a, key=lambda x: x.name)\n            return iter(a)", "            a = sorted(a, key=lambda x: x.name, reverse=True)\n            return iter(a)"),
 ('M02 remaining: without input first', "remaining = sorted(remaining_with_input, key=lambda x: x.name) + sorted(\n            remaining_without_input, key=lambda x: x.name\n        )", "remaining = sorted(remaining_without_input, key=lambda x: x.name) + sorted(\n            remaining_with_input, key=lambda x: x.name\n        )"),
 ('M03 matrix transposed', "f[j, i] = rate", "f[i, j] = rate"),
 ('M04 diagsum sign', "diagsum -= rate", "diagsum += rate"),
 ('M05 output flow dropped from diagonal', "f[i, i] = diagsum - outrate", "f[i, i] = diagsum"),
 ('M06 eqs without inputs', "a = self.compartmental_matrix @ amount_funcs + inputs", "a = self.compartmental_matrix @ amount_funcs"),
 ('M07 dosing insert threshold', "if len(dosing_comps) >= 2:", "if len(dosing_comps) >= 1:"),
 ('M08 central = first predecessor', "central = list(self._g.predecessors(output))[-1]", "central = list(self._g.predecessors(output))[0]"),
 ('M09 to_dict edge endpoints swapped', "edge = (from_n, to_n, rate.serialize())", "edge = (to_n, from_n, rate.serialize())"),
 ('M10 from_dict edge reversed', "cb.add_flow(from_comp, to_comp, Expr.deserialize(rate))", "cb.add_flow(to_comp, from_comp, Expr.deserialize(rate))"),
 ('M11 move_dose admid test inverted', "new_source_dose = tuple([d for d in source.doses if d.admid != admid])", "new_source_dose = tuple([d for d in source.doses if d.admid == admid])"),
 ('M12 add_dose prepends', "new_comp = compartment.replace(doses=compartment.doses + dose)", "new_comp = compartment.replace(doses=dose + compartment.doses)"),
 ('M13 doses property: boluses first', "key=lambda d: isinstance(d, Infusion), reverse=True", "key=lambda d: isinstance(d, Infusion), reverse=False"),
 ('M14 amounts in name order', "        ordered_cmts = self._order_compartments()\n        amts = [cmt.amount for cmt in ordered_cmts]", "        ordered_cmts = sorted(self._order_compartments(), key=lambda c: c.name)\n        amts = [cmt.amount for cmt in ordered_cmts]"),
 ('M15 zero_order_inputs reversed', "inputs = [node.input for node in self._order_compartments()]", "inputs = [node.input for node in reversed(self._order_compartments())]"),
 ('M16 subs skips rates', "rate_sub = rate.subs(substitutions)", "rate_sub = rate"),
 ('M17 remove_dose test inverted', "doses = tuple(dose for dose in compartment.doses if dose.admid != admid)", "doses = tuple(dose for dose in compartment.doses if dose.admid == admid)"),
 ('M18 set_lag_time writes bioavailability', "new_comp = compartment.replace(lag_time=lag_time)", "new_comp = compartment.replace(bioavailability=lag_time)"),
 ('M19 __eq__ ignores dosing compartments', "            and self.dosing_compartments == other.dosing_compartments\n", "\n"),
 ('M20 remaining popped from the end', "comp = remaining.pop(0)", "comp = remaining.pop()"),
 ('M21 Compartment.to_dict swaps lag/bio', "'lag_time': self._lag_time.serialize(),\n            'bioavailability': self._bioavailability.serialize(),", "'lag_time': self._bioavailability.serialize(),\n            'bioavailability': self._lag_time.serialize(),"),
 ('M22 to_compartmental_system output sign', "cb.add_flow(from_comp, output, -o / comp_func)", "cb.add_flow(from_comp, output, o / comp_func)"),
 ('M23 get_flow reversed', "rate = self._g.edges[source, destination]['rate']", "rate = self._g.edges[destination, source]['rate']"),
 ('M24 compartment_names sorted', "        ordered_cmts = self._order_compartments()\n        names = [cmt.name for cmt in ordered_cmts]", "        ordered_cmts = sorted(self._order_compartments(), key=lambda c: c.name)\n        names = [cmt.name for cmt in ordered_cmts]"),
 ('M25 fallback order by insertion', "            comps = list(_comps(self._g))\n            return sorted(comps, key=lambda comp: comp.name)", "            comps = [c for c in self._g.nodes if not isinstance(c, Output)]\n            return comps"),
 ('M26 special central names: one dropped', '["METABOLITE", "EFFECT", "COMPLEX", "RESPONSE"]', '["METABOLITE", "EFFECT", "COMPLEX"]'),
 ('M27 set_dose keeps old doses', "        new_comp = compartment.replace(doses=dose)\n        mapping = {compartment: new_comp}\n        nx.relabel_nodes(self._g, mapping, copy=False)\n        return new_comp\n\n    def add_dose", "        new_comp = compartment.replace(doses=compartment.doses + dose)\n        mapping = {compartment: new_comp}\n        nx.relabel_nodes(self._g, mapping, copy=False)\n        return new_comp\n\n    def add_dose"),
 ('M28 builder copy dropped (freeze shares graph)', "            self._g = cs._g.copy()", "            self._g = nx.DiGraph(cs._g)"),
 ('M29 from_dict ignores t', "return cls(cb, t=Expr.deserialize(d['t']))", "return cls(cb)"),
 ('M30 BFS root is last dosing compartment', "dosecmt = self.dosing_compartments[0]", "dosecmt = self.dosing_compartments[-1]"),
 ('M31 matrix off-diagonal skipped for last column', "                if i != j:\n                    f[j, i] = rate", "                if i != j and i != size - 1:\n                    f[j, i] = rate"),
 ('M32 move_dose: all doses moved even with admid', "            new_dest_dose += tuple([d for d in source.doses if d.admid == admid])", "            new_dest_dose += source.doses"),
 ('M33 Infusion.to_dict rate/duration swapped', "'rate': self._rate.serialize() if self._rate is not None else None,\n            'duration': self._duration.serialize() if self._duration is not None else None,", "'duration': self._rate.serialize() if self._rate is not None else None,\n            'rate': self._duration.serialize() if self._duration is not None else None,"),
 ('M34 input != 0 test inverted', "remaining_with_input = {comp for comp in remaining_unsorted if comp.input != 0}", "remaining_with_input = {comp for comp in remaining_unsorted if comp.input == 0}"),
 ('M35 Compartment.__eq__ ignores lag_time', "            and self._lag_time == other._lag_time\n", "\n"),
 ('M36 Bolus.__eq__ ignores admid', "return self._amount == other._amount and self._admid == other._admid", "return self._amount == other._amount"),
 ('M37 dosing insert threshold 3', "if len(dosing_comps) >= 2:", "if len(dosing_comps) >= 3:"),
 ('M38 dosing: non-central appended', "                        dosing_comps = (node,) + dosing_comps\n", "                        dosing_comps = dosing_comps + (node,)\n"),
 ('M39 remove_flow removes reverse edge', "self._g.remove_edge(source, destination)", "self._g.remove_edge(destination, source)"),
 ('M40 to_dict nodes sorted', "comps = [comp for comp in self._g.nodes]", "comps = sorted(self._g.nodes, key=lambda c: getattr(c, 'name', ''))"),
 ('M41 Compartment.subs drops bioavailability', "bioavailability=self._bioavailability.subs(substitutions),", "bioavailability=self._bioavailability,"),
 ('M42 central lookup name', 'central = self.find_compartment("CENTRAL")', 'central = self.find_compartment("CENTRAL1")'),
 ('M43 to_cs: accumulated flow dropped', "new_flow = term / comp_func + current_flow", "new_flow = term / comp_func"),
 ('M44 to_cs: flow direction swapped', "cb.add_flow(from_comp, to_comp, term / comp_func)", "cb.add_flow(to_comp, from_comp, term / comp_func)"),
 ('M45 to_cs: input not set', "                cb.set_input(from_comp, i)", "                pass"),
 ('M46 to_cs: matched term not removed from the source equation', "neweq.lhs, sympy.expand(xrhs + term)  # pyright: ignore", "neweq.lhs, sympy.expand(xrhs)  # pyright: ignore"),
 ('M47 subs relabels into a new graph (node order kept)', "        nx.relabel_nodes(cb._g, mapping, copy=False)\n        return CompartmentalSystem(cb)", "        cb._g = nx.relabel_nodes(cb._g, mapping, copy=True)\n        return CompartmentalSystem(cb)"),
 ('M48 get_compartment_inflows walks successors', "        for node in self._g.predecessors(destination):\n            flow = self.get_flow(node, destination)", "        for node in self._g.successors(destination):\n            flow = self.get_flow(node, destination)"),
 ('M49 get_bidirectionals without the has_edge test', "            if self._g.has_edge(compartment, node):\n                comps.append(node)", "            if True:\n                comps.append(node)"),
 ('M50 get_n_connected counts output', "return len((out_comps | in_comps) - {output})", "return len(out_comps | in_comps)"),
]


def drive(n, seed):
    from harness.lib.core import Ctx
    from harness.props import c05
    ctx = Ctx('C05', 'quick', seed)
    specs = [c05.gen_spec(ctx.rng) for _ in range(n)]
    kept, verdicts, infos = c05.run_specs(ctx, specs, 'sens', quiet=True)
    cnt = Counter(t for v in verdicts for t in set(v))
    print('TAGS', json.dumps(sorted(cnt.items())), flush=True)


def main():
    if os.environ.get('C05_SENS_CHILD'):
        drive(int(sys.argv[1]), 7)
        return
    n = sys.argv[1] if len(sys.argv) > 1 else '150'
    only = sys.argv[2:]
    src = open(SRC_PATH).read()
    os.makedirs(MUTDIR, exist_ok=True)
    jobs = [('BASELINE', None, None)] + MUTS
    for name, old, new in jobs:
        if only and name != 'BASELINE' and not any(name.startswith(o) for o in only):
            continue
        env = dict(os.environ, C05_SENS_CHILD='1', PYTHONHASHSEED='0', PYTHONDONTWRITEBYTECODE='1')
        if old is not None:
            assert src.count(old) == 1, (name, src.count(old))
            open(os.path.join(MUTDIR, 'c05mut.py'), 'w').write(src.replace(old, new))
            env['C05_STATEMENTS_MODULE'] = 'c05mut'
            env['PYTHONPATH'] = env.get('PYTHONPATH', '/repo/src:/verif') + ':' + MUTDIR
        p = subprocess.run([sys.executable, '-m', 'harness.props.c05_sensitivity', n], env=env, capture_output=True, text=True,
                           cwd='/verif')
        line = [l for l in p.stdout.split('\n') if l.startswith('TAGS')]
        print(name, '->', line[0][5:] if line else 'ERROR ' + p.stderr.strip().split('\n')[-1], flush=True)


if __name__ == '__main__':
    main()
