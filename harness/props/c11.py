"""C11 — random-effect algebra keeps names, variances and a valid covariance.
Model: coq/theories/C11 (Model.v, Check.v, NumModel.v, NumCheck.v); theorems in Properties.v / Refuted.v.
Tie: histories (an initial RandomVariables and a sequence of join/unjoin/index/subs/+ operations) are run
on the real pharmpy classes; every state is exported from the REAL objects and compared inside Coq with
the model re-run on the previous exported state; the property statements are evaluated on the
implementation's own states (oracle tags)."""
import json
import random
from fractions import Fraction as F

import sympy

from harness.lib import coqterm as ct
from harness.lib import sym2coq as sc
from harness.lib.core import VERIF, source_sha

LEVEL = 'proof'
VALUES = [F(1), F(2), F(4), F(1, 2), F(-1), F(3), F(8), F(1, 4), F(5), F(-2), F(7), F(1, 8)]
LEVELS = {'IIV': 1, 'IOV': 2, 'RUV': 3}
PAIR_BASE = 100000
ERRS = {'KeyError': 'KeyError', 'IndexError': 'IndexError', 'ValueError': 'ValueError', 'TypeError': 'TypeError'}

TAGS = {
    1: 'unjoin differs from model', 2: 'join differs from model', 3: '__getitem__ differs from model',
    4: '__add__ differs from model', 5: 'subs differs from model', 6: 'etas/epsilons/iiv/iov differs from model',
    7: 'distribution __getitem__ differs from model',
    8: 'names / covariance_matrix of a state differ from the model observers',
    9: 'get_covariance differs from model',
    11: 'names not preserved', 12: 'a variance changed', 13: 'a covariance inside a block changed',
    14: 'covariance_matrix is not the block-diagonal composition of the distributions',
    15: 'symmetry lost', 16: 'new covariance is not the fill value / 0', 17: 'unjoin reorders although not needed',
    18: 'selection is not the marginal', 19: 'a variability level changed',
}
CORR = (1, 2, 3, 4, 5, 6, 7, 8, 9)
# oracle tag -> (correspondence tags that must be absent for the model to explain it, guard tag that must be
# present (= guard false), finding id)
ORACLE = {
    11: (CORR, None, None),
    12: (CORR, None, None),        # C11-JOIN-FILL-ZERO-VARIANCE fixed in a9c876f: any recurrence is a VIOLATION
    13: ((2,), 202, 'C11-JOIN-FILL-INBLOCK-ZERO'),
    14: (CORR, None, None),
    15: (CORR, None, None),
    16: (CORR, None, None),
    17: ((1,), 203, 'C11-UNJOIN-ORDER'),
    18: (CORR, None, None),
    19: (CORR, None, None),
}


class Impl:
    """The implementation under test (the real pharmpy classes unless a mutated copy is injected)."""

    def __init__(self, rv_module=None):
        import pharmpy.model.random_variables as rvm
        m = rv_module or rvm
        self.RandomVariables = m.RandomVariables
        self.NormalDistribution = m.NormalDistribution
        self.JointNormalDistribution = m.JointNormalDistribution


_IMPL = None


def impl():
    global _IMPL
    if _IMPL is None:
        _IMPL = Impl()
    return _IMPL


class CNames(ct.Names):
    """Names with reserved codes for the symbols created by name_template.format(a, b)."""

    def __init__(self):
        super().__init__()
        self.tmpl = {}

    def get(self, name):
        name = str(name)
        if name in self.tmpl:
            return self.tmpl[name]
        return super().get(name)

    def register_template(self, template, pnames):
        for a in pnames:
            for b in pnames:
                ia, ib = self.get(a), self.get(b)
                assert ia < 64 and ib < 64
                self.tmpl[template.format(a, b)] = PAIR_BASE + ia * 64 + ib

    def all_ids(self):
        return list(self.ids.values()) + list(self.tmpl.values())


def level_id(level, names):
    if level in LEVELS:
        return LEVELS[level]
    return 10 + names.get('LEVEL:' + level)


# ------------------------------------------------------------------ generator
VARNAMES = ['xa', 'xb', 'xc', 'xd', 'xe', 'xf', 'xg', 'xh']
PARAMNAMES = ['pa', 'pb', 'pc', 'pd', 'pe', 'pf', 'pg', 'ph']


def gen_entry(rng, mode, i, j, ns, diag):
    x, y = ns[min(i, j)], ns[max(i, j)]
    if mode == 'sym':
        return f'O_{x}_{y}'
    if mode == 'num':
        if diag:
            return rng.choice(['1', '2', '4', '1/2', '9', '3'])
        return rng.choice(['0', '1/10', '1/4', '-1/10', '1/5', '0'])
    if mode == 'mixed':
        if diag:
            return rng.choice([f'O_{x}_{y}', f'O_{x}_{y}', '1', '0', f'2*O_{x}_{y}'])
        return rng.choice([f'O_{x}_{y}', '0', '0', f'O_{x}_{y} + 1', '0.0', '1/10'])
    raise AssertionError(mode)


def gen_dist(rng, ns, mode=None, level=None):
    mode = mode or rng.choice(['sym', 'sym', 'num', 'mixed', 'mixed'])
    level = level or rng.choice(['IIV', 'IIV', 'IIV', 'IOV', 'RUV', 'RUV'])
    meanmode = rng.choice(['0', '0', '0', 'sym'])
    if len(ns) == 1 and rng.random() < 0.85:
        return {'k': 'N', 'name': ns[0], 'level': level, 'mean': '0' if meanmode == '0' else f'm_{ns[0]}',
                'var': gen_entry(rng, mode, 0, 0, ns, True)}
    n = len(ns)
    sym = rng.random() < 0.9
    M = [[None] * n for _ in range(n)]
    for i in range(n):
        for j in range(n):
            if j < i and sym:
                M[i][j] = M[j][i]
            else:
                M[i][j] = gen_entry(rng, mode, i, j, ns, i == j)
                if not sym and i != j and mode == 'sym':
                    M[i][j] = f'O_{ns[i]}_{ns[j]}'
    return {'k': 'J', 'names': list(ns), 'level': level,
            'mean': ['0' if meanmode == '0' else f'm_{x}' for x in ns], 'var': M}


def gen_dists(rng, pool):
    if rng.random() < 0.12:
        # IOV "SAME": one symbolic block repeated for every occasion (shared parameter symbols), after an IIV block
        m = rng.choice([1, 2])
        nocc = rng.choice([2, 3]) if m == 1 else 2
        tmpl = [[f'OI_{min(i, j)}_{max(i, j)}' for j in range(m)] for i in range(m)]
        dists = [gen_dist(rng, pool[:rng.choice([1, 2])], mode='sym', level='IIV')]
        used = len(dists[0]['names']) if dists[0]['k'] == 'J' else 1
        for o in range(nocc):
            ns = pool[used:used + m]
            used += m
            if m == 1:
                dists.append({'k': 'N', 'name': ns[0], 'level': 'IOV', 'mean': '0', 'var': tmpl[0][0]})
            else:
                dists.append({'k': 'J', 'names': list(ns), 'level': 'IOV', 'mean': ['0'] * m, 'var': tmpl})
        return dists
    nvar = rng.choice([1, 2, 3, 3, 4, 4, 5, 5, 6, 6])
    ns = pool[:nvar]
    if rng.random() < 0.3:
        ns = list(ns)
        rng.shuffle(ns)
    dists = []
    i = 0
    while i < len(ns):
        k = min(rng.choice([1, 1, 2, 2, 3, 4]), len(ns) - i)
        dists.append(gen_dist(rng, ns[i:i + k]))
        i += k
    return dists


def subset(rng, names, allow_empty=False):
    if not names:
        return []
    k = rng.choice([1, 1, 2, 2, 3, len(names)])
    k = min(k, len(names))
    if allow_empty and rng.random() < 0.05:
        return []
    return rng.sample(names, k)


def gen_op(rng, cur_names, ndists, dist_names=()):
    kind = rng.choice(['unjoin', 'unjoin', 'join', 'join', 'join', 'getlist', 'getlist', 'getint', 'getname',
                       'slice', 'add_dist', 'add_coll', 'subs', 'levels', 'levels', 'dget', 'dget'])
    bad = rng.random() < 0.06
    if kind == 'unjoin':
        inds = subset(rng, cur_names, True)
        if bad:
            inds = inds + ['zz']
        if rng.random() < 0.15 and inds:
            inds = inds + [inds[0]]
        return {'op': 'unjoin', 'inds': inds}
    if kind == 'join':
        inds = subset(rng, cur_names, True)
        if bad:
            inds = inds + ['zz']
        if rng.random() < 0.1 and inds:
            inds = inds + [inds[0]]
        mode = rng.choice(['zero', 'zero', 'fill', 'fill', 'tmpl', 'tmpl', 'both'])
        fill = '0'
        tmpl = None
        if mode in ('fill', 'both'):
            fill = rng.choice(['F', '1/10', '1', 'F', '0.05'])
        if mode in ('tmpl', 'both'):
            k = len(set(inds))
            if rng.random() < 0.1 and k > 1:
                k -= 1
            tmpl = {'template': rng.choice(['IIV_{}_IIV_{}', 'T_{}_{}']), 'params': rng.sample(PARAMNAMES, min(k, 8))}
        return {'op': 'join', 'inds': inds, 'fill': fill, 'tmpl': tmpl}
    if kind == 'getlist':
        ind = subset(rng, cur_names, True)
        if bad:
            ind = ind + ['zz']
        return {'op': 'getlist', 'ind': ind, 'container': rng.choice(['list', 'tuple', 'set']),
                'adopt': rng.random() < 0.3}
    if kind == 'getint':
        return {'op': 'getint', 'i': rng.randint(-ndists - 1, ndists)}
    if kind == 'getname':
        return {'op': 'getname', 'x': 'zz' if bad or not cur_names else rng.choice(cur_names)}

    def ob():
        return rng.choice([None, None, rng.randint(-ndists - 2, ndists + 2)])
    if kind == 'slice':
        return {'op': 'slice', 'a': ob(), 'b': ob(), 'c': rng.choice([None, None, 1, 2, -1, -2, 0]),
                'adopt': rng.random() < 0.2}
    fresh = [v for v in VARNAMES if v not in cur_names]
    if kind == 'add_dist':
        if rng.random() < 0.1 and cur_names:
            ns = [rng.choice(cur_names)]          # duplicate name: __add__ does not check
        elif fresh:
            ns = fresh[:rng.choice([1, 1, 2])]
        else:
            return gen_op(rng, cur_names, ndists, dist_names)
        d = gen_dist(rng, ns)
        if rng.random() < 0.1:
            d['level'] = 'XYZ'
        return {'op': 'add_dist', 'dist': d, 'radd': rng.random() < 0.3}
    if kind == 'add_coll':
        if not fresh:
            return gen_op(rng, cur_names, ndists, dist_names)
        ds = []
        i = 0
        fr = fresh[:rng.choice([1, 2, 3])]
        while i < len(fr):
            k = min(rng.choice([1, 2]), len(fr) - i)
            ds.append(gen_dist(rng, fr[i:i + k]))
            i += k
        return {'op': 'add_coll', 'dists': ds, 'as': rng.choice(['rvs', 'list'])}
    if kind == 'subs':
        nm = {}
        if cur_names:
            for x in rng.sample(cur_names, min(len(cur_names), rng.choice([0, 1, 1, 2]))):
                r = rng.random()
                if r < 0.15:
                    nm[x] = rng.choice(cur_names)          # possible collision -> ValueError, or swap
                else:
                    nm[x] = x.upper() + '2'
            if rng.random() < 0.1 and len(cur_names) >= 2:
                x, y = rng.sample(cur_names, 2)
                nm = {x: y, y: x}
        pm = {}
        for _ in range(rng.choice([0, 1, 2])):
            x, y = rng.sample(cur_names, 2) if len(cur_names) >= 2 else ('xa', 'xb')
            key = f'O_{min(x, y)}_{max(x, y)}' if rng.random() < 0.6 else f'O_{x}_{x}'
            pm[key] = rng.choice(['NEW1', 'NEW2', '3', '1/2', '0', f'O_{y}_{y}'])
        return {'op': 'subs', 'names': nm, 'params': pm, 'keys': rng.choice(['str', 'expr'])}
    if kind == 'levels':
        return {'op': 'levels', 'which': rng.randrange(4), 'adopt': rng.random() < 0.15}
    if kind == 'dget':
        k = rng.randrange(ndists + 1) if rng.random() < 0.05 else rng.randrange(max(ndists, 1))
        sub = rng.choice(['int', 'name', 'list', 'list'])
        own = list(dist_names[k]) if k < len(dist_names) and rng.random() < 0.8 else cur_names
        return {'op': 'dget', 'k': k, 'sub': sub, 'i': rng.randint(-3, 3), 'x': rng.choice(own + ['zz']) if own else 'zz',
                'ind': subset(rng, own) + (['zz'] if bad else []), 'dup': rng.random() < 0.1}
    raise AssertionError(kind)


# ------------------------------------------------------------------ implementation side
def parse(s):
    return sympy.sympify(s, rational=True) if '.' not in s else sympy.sympify(s)


def build_dist(d, im):
    if d['k'] == 'N':
        return im.NormalDistribution.create(d['name'], d['level'], parse(d['mean']), parse(d['var']))
    return im.JointNormalDistribution.create(d['names'], d['level'], [parse(m) for m in d['mean']],
                                             [[parse(e) for e in row] for row in d['var']])


def dist_term(d, names, im):
    lev = ct.pos(level_id(d.level, names))
    if isinstance(d, im.NormalDistribution):
        return f"(Normal {names.p(d.names[0])} {lev} {sc.expr(d.mean, names)} {sc.expr(d.variance, names)})"
    n = len(d.names)
    V = d.variance
    mean = d.mean
    mu = [sc.expr(mean[i, 0], names) for i in range(mean.rows)]
    rows = [ct.lst([sc.expr(V[i, j], names) for j in range(V.cols)]) for i in range(V.rows)]
    return f"(Joint {ct.lst([names.p(x) for x in d.names])} {lev} {ct.lst(mu)} {ct.lst(rows)})"


def state_term(rvs, names, qrng, im):
    dists = [dist_term(d, names, im) for d in rvs]
    nm = list(rvs.names)
    M = rvs.covariance_matrix
    rows = [ct.lst([sc.expr(M[i, j], names) for j in range(M.cols)]) for i in range(M.rows)]
    qs = []
    pool = nm + ['zz']
    for _ in range(min(4, len(nm) + 1)):
        x, y = qrng.choice(pool), qrng.choice(pool)
        try:
            r = ct.opt(sc.expr(rvs.get_covariance(x, y), names))
        except KeyError:
            r = 'None'
        qs.append(ct.tup(names.p(x), names.p(y), r))
    return f"(mkSt {ct.lst(dists)} {ct.lst([names.p(x) for x in nm])} {ct.lst(rows)} {ct.lst(qs)})"


def oz(v):
    return 'None' if v is None else f'(Some {ct.z(v)})'


def run_op(rvs, op, im):
    """Run one operation on the real object."""
    from pharmpy.basic import Expr
    k = op['op']
    if k == 'unjoin':
        return rvs.unjoin(list(op['inds']))
    if k == 'join':
        t = op['tmpl']
        kw = {}
        if t is not None:
            kw = {'name_template': t['template'], 'param_names': list(t['params'])}
        return rvs.join(list(op['inds']), fill=parse(op['fill']), **kw)
    if k == 'getlist':
        return rvs[{'list': list, 'tuple': tuple, 'set': set}[op['container']](op['ind'])]
    if k == 'getint':
        return rvs[op['i']]
    if k == 'getname':
        return rvs[op['x']]
    if k == 'slice':
        return rvs[op['a']:op['b']:op['c']]
    if k == 'add_dist':
        if op.get('radd'):
            return build_dist(op['dist'], im) + rvs
        return rvs + build_dist(op['dist'], im)
    if k == 'add_coll':
        ds = [build_dist(d, im) for d in op['dists']]
        return rvs + (im.RandomVariables.create(ds) if op['as'] == 'rvs' else ds)
    if k == 'subs':
        mk = (lambda s: s) if op['keys'] == 'str' else Expr.symbol
        d = {}
        for a, b in op['names'].items():
            d[mk(a)] = b if op['keys'] == 'str' else Expr.symbol(b)
        for a, b in op['params'].items():
            d[mk(a)] = parse(b)
        return rvs.subs(d)
    if k == 'levels':
        return [lambda: rvs.etas, lambda: rvs.epsilons, lambda: rvs.iiv, lambda: rvs.iov][op['which']]()
    if k == 'dget':
        d = rvs[op['k']]            # IndexError when there is no such distribution
        if op['sub'] == 'int':
            return d[op['i']]
        if op['sub'] == 'name':
            return d[op['x']]
        ind = [x for x in op['ind']]
        if op['dup'] and ind:
            ind = ind + [ind[0]]
        return d[ind]
    raise AssertionError(k)


def apply_op(rvs, op, names, im):
    """Returns (coq op term, python result or the exception raised)."""
    term = apply_op_term(op, names, im)
    try:
        return term, run_op(rvs, op, im)
    except (KeyError, IndexError, ValueError, TypeError) as e:
        return term, e


def apply_op_term(op, names, im):
    k = op['op']
    ids = lambda l: ct.lst([names.p(x) for x in l])
    if k == 'unjoin':
        return f"(OpUnjoin {ids(op['inds'])})"
    if k == 'join':
        fill = parse(op['fill'])
        t = op['tmpl']
        tt = 'None'
        if t is not None:
            for p in t['params']:
                names.get(p)
            names.register_template(t['template'], t['params'])
            tt = f"(Some {ids(t['params'])})"
        return f"(OpJoin {ids(op['inds'])} {sc.expr(fill, names)} {tt})"
    if k == 'getlist':
        return f"(OpGetList {ids(op['ind'])})"
    if k == 'getint':
        return f"(OpGetInt {ct.z(op['i'])})"
    if k == 'getname':
        return f"(OpGetName {names.p(op['x'])})"
    if k == 'slice':
        return f"(OpGetSlice {oz(op['a'])} {oz(op['b'])} {oz(op['c'])})"
    if k == 'add_dist':
        return f"({'OpRAddDist' if op.get('radd') else 'OpAddDist'} {dist_term(build_dist(op['dist'], im), names, im)})"
    if k == 'add_coll':
        return f"(OpAddColl {ct.lst([dist_term(build_dist(d, im), names, im) for d in op['dists']])})"
    if k == 'subs':
        nm = ct.lst([ct.pair(names.p(a), names.p(b)) for a, b in op['names'].items()])
        pm = ct.lst([ct.pair(names.p(a), sc.expr(parse(b), names)) for a, b in op['params'].items()])
        return f"(OpSubs {nm} {pm})"
    if k == 'levels':
        return f"(OpLevels {ct.nat(op['which'])})"
    if k == 'dget':
        if op['sub'] == 'int':
            return f"(OpDGetInt {ct.nat(op['k'])} {ct.z(op['i'])})"
        if op['sub'] == 'name':
            return f"(OpDGetName {ct.nat(op['k'])} {names.p(op['x'])})"
        ind = [x for x in op['ind']]
        if op['dup'] and ind:
            ind = ind + [ind[0]]
        return f"(OpDGetList {ct.nat(op['k'])} {ids(ind)})"
    raise AssertionError(k)


def outcome_term(res, names, qrng, im):
    """Returns (term, new state or None)."""
    if isinstance(res, Exception):
        return f"(OErr {ERRS[type(res).__name__]})", None
    if isinstance(res, tuple):
        rvs, params = res
        ps = []
        for name, (p1, p2) in params.items():
            ps.append(ct.tup(names.p(name), sc.expr(parse(p1), names), sc.expr(parse(p2), names)))
        return f"(OJoin {state_term(rvs, names, qrng, im)} {ct.lst(ps)})", rvs
    if isinstance(res, im.RandomVariables):
        return f"(OColl {state_term(res, names, qrng, im)})", res
    return f"(ODist {dist_term(res, names, im)})", None


ADOPT_ALWAYS = {'unjoin', 'join', 'add_dist', 'add_coll', 'subs'}


def observe(spec, im=None, mutate=None):
    """Run the implementation on a spec (initial distributions + explicit operations).
    Returns (coq case term, info).  `mutate(kind, obj)` may perturb exported objects (sensitivity tests)."""
    im = im or impl()
    names = CNames()
    for p in PARAMNAMES:
        names.get(p)
    qrng = random.Random(spec.get('qseed', 0))
    rvs = im.RandomVariables.create([build_dist(d, im) for d in spec['dists']])
    info = {'nvars': rvs.nrvs, 'ops': [], 'errors': [], 'nsteps': 0}
    init = state_term(rvs, names, qrng, im)
    steps = []
    for op in spec['steps']:
        term, res = apply_op(rvs, op, names, im)
        if mutate is not None:
            res = mutate(op, res)
        oterm, new = outcome_term(res, names, qrng, im)
        adopt = new is not None and (op['op'] in ADOPT_ALWAYS or op.get('adopt', False))
        steps.append(ct.tup(term, oterm, ct.boolean(adopt)))
        info['ops'].append(op['op'] + (':err' if isinstance(res, Exception) else ''))
        if isinstance(res, Exception):
            info['errors'].append(type(res).__name__)
        if adopt:
            rvs = new
        info['nsteps'] += 1
    prng = random.Random(f"{spec.get('qseed', 0)}-pts")
    ids = sorted(set(names.all_ids()))
    envs = ct.lst([ct.lst([ct.pair(ct.pos(i), ct.q(prng.choice(VALUES))) for i in ids]) for _ in range(3)])
    return f"(mkCase {init}\n {ct.lst(steps)}\n {envs})", info


def gen_spec(rng, im=None):
    """Generate a history while running the real code (operands are picked among the current names);
    the resulting spec lists the operations explicitly and is replayable."""
    im = im or impl()
    for _ in range(50):
        dists = gen_dists(rng, VARNAMES)
        try:
            rvs = im.RandomVariables.create([build_dist(d, im) for d in dists])
            break
        except ValueError:
            continue
    else:
        raise RuntimeError('generator could not build a collection')
    spec = {'dists': dists, 'steps': [], 'qseed': rng.randrange(10 ** 9)}
    nsteps = rng.choice([1, 2, 3, 3, 4, 5, 6])
    names = CNames()
    for _ in range(nsteps):
        op = gen_op(rng, list(rvs.names), len(rvs), [list(d.names) for d in rvs])
        try:
            _, res = apply_op(rvs, op, names, im)
        except (sc.Unconvertible, ValueError, TypeError):
            continue
        spec['steps'].append(op)
        if isinstance(res, Exception):
            continue
        new = res[0] if isinstance(res, tuple) else res
        if isinstance(new, im.RandomVariables) and (op['op'] in ADOPT_ALWAYS or op.get('adopt', False)):
            rvs = new
    return spec


def symblock(ns, level='IIV'):
    n = len(ns)
    if n == 1:
        return {'k': 'N', 'name': ns[0], 'level': level, 'mean': '0', 'var': f'O_{ns[0]}_{ns[0]}'}
    return {'k': 'J', 'names': list(ns), 'level': level, 'mean': ['0'] * n,
            'var': [[f'O_{ns[min(i, j)]}_{ns[max(i, j)]}' for j in range(n)] for i in range(n)]}


def exhaustive_specs(tier):
    """All index sets over a 5-variable layout (the thorough tier adds a second layout and more modes)."""
    from itertools import combinations
    names = ['xa', 'xb', 'xc', 'xd', 'xe']
    layouts = [[symblock(names[:3]), symblock(names[3:])]]
    if tier != 'quick':
        layouts.append([symblock(names[:2]), symblock(names[2:3]), symblock(names[3:])])
    subsets = [list(c) for k in range(6) for c in combinations(names, k)]
    specs = []
    for lay in layouts:
        for sub in subsets:
            ops = [{'op': 'unjoin', 'inds': sub}, {'op': 'getlist', 'ind': sub, 'container': 'list', 'adopt': False},
                   {'op': 'join', 'inds': sub, 'fill': 'F', 'tmpl': None}]
            if tier != 'quick':
                ops += [{'op': 'join', 'inds': sub, 'fill': '0', 'tmpl': None},
                        {'op': 'join', 'inds': sub, 'fill': '0',
                         'tmpl': {'template': 'IIV_{}_IIV_{}', 'params': PARAMNAMES[:len(sub)]}}]
            for op in ops:
                specs.append({'dists': lay, 'steps': [op], 'qseed': len(specs)})
    return specs


# ------------------------------------------------------------------ numeric side
NTAGS = {
    31: 'validate_parameters differs from model', 32: 'nearest_valid_parameters differs from model',
    33: 'Model.create initial estimates differ from canonicalize model',
    37: 'Model.replace initial estimates differ from the canonicalised pair (replace call structure)', 34: 'parameters_sdcorr differs from model',
    35: '_scale_matrix differs from model', 36: '_descale_matrix / from_ucp differs from model',
    41: 'a covariance block of the model initial estimates is not positive semidefinite',
    42: 'valid initial estimates were altered', 43: 'sd/corr form does not convert back to the covariance block',
    44: 'from_ucp(scale(M), 0.1) differs from the initial estimates',
    45: 'is_positive_semidefinite disagrees with the exact rational test (outside the tolerance band)',
    46: 'nearest_positive_semidefinite result is not positive semidefinite', 47: 'repaired matrix not symmetric',
}
NCORR = (31, 32, 33, 34, 35, 36, 37)
NORACLE = {41: (NCORR, None, None), 42: (NCORR, None, None), 43: (NCORR, None, None),
           44: (NCORR, None, None),   # C11-UCP-NEGATIVE-COVARIANCE fixed in 859061b
           45: (NCORR, None, None),
           46: (NCORR, None, None), 47: (NCORR, None, None)}
NIMPORTS = 'Base.PyData Base.Expr C11.Model C11.NumModel C11.NumCheck'


def gen_block_values(rng, n, force=None):
    """A symmetric n x n matrix of small rationals, of a chosen definiteness class."""
    cls = force or rng.choice(['pd', 'pd', 'pd_nonneg', 'indefinite', 'indefinite', 'singular', 'diag'])
    L = [[F(0)] * n for _ in range(n)]
    for i in range(n):
        for j in range(i + 1):
            if i == j:
                L[i][j] = rng.choice([F(1), F(1, 2), F(3, 10), F(2), F(3, 2)])
            else:
                pool = [F(0), F(1, 10), F(1, 2), F(3, 10), F(-1, 10), F(-1, 2), F(-3, 10)]
                if cls == 'pd_nonneg':
                    pool = [F(0), F(1, 10), F(1, 2), F(3, 10)]
                if cls == 'diag':
                    pool = [F(0)]
                L[i][j] = rng.choice(pool)
    A = [[sum(L[i][k] * L[j][k] for k in range(n)) for j in range(n)] for i in range(n)]
    if cls == 'indefinite' and n >= 2:
        i, j = rng.sample(range(n), 2)
        v = rng.choice([F(3), F(-2), F(5, 2)]) * max(A[i][i], A[j][j])
        A[i][j] = A[j][i] = v
    if cls == 'singular' and n >= 2:
        i, j = rng.sample(range(n), 2)
        for k in range(n):
            A[j][k] = A[i][k]
        for k in range(n):
            A[k][j] = A[k][i]
        A[j][j] = A[i][i]
    return cls, [[str(x) for x in row] for row in A]


def sym_matrix(ns, pre):
    n = len(ns)
    return [[f"{pre}_{ns[max(i, j)]}_{ns[min(i, j)]}" for j in range(n)] for i in range(n)]


def partition(rng, items, sizes=(1, 1, 2, 2, 3)):
    out, i = [], 0
    while i < len(items):
        k = min(rng.choice(sizes), len(items) - i)
        out.append(items[i:i + k])
        i += k
    return out


def gen_paramset(rng, etas, iov_m, eps, force=None):
    """Values for every symbol O_i_j over all eta pairs, the shared IOV template OI_*, and the eps block
    (force = definiteness class of the eta part)."""
    vals = {}
    classes = []
    for ns, pre in ((etas, 'O'), ([f'I{k + 1}' for k in range(iov_m)], 'OI'), (eps, 'S')):
        if not ns:
            continue
        cls, A = gen_block_values(rng, len(ns), force if pre == 'O' else None)
        classes.append(cls)
        sm = sym_matrix(ns, pre)
        for i in range(len(ns)):
            for j in range(i + 1):
                vals[sm[i][j]] = A[i][j]
    return vals, classes


def gen_num_spec(rng):
    """v2 numeric spec: eta/eps names, alternative random-variable layouts over the same parameter symbols
    (symbol of the pair (i, j) is fixed, so any grouping is meaningful), parameter value sets, and a history of
    Model.replace steps.  IOV layouts repeat one symbolic block for every occasion (shared parameters)."""
    netas = rng.choice([1, 2, 3, 3, 4, 4, 5])
    etas = [f'ETA{i + 1}' for i in range(netas)]
    eps = [f'EPS{i + 1}' for i in range(rng.choice([1, 1, 2]))]
    iov_m = rng.choice([0, 0, 1, 2, 2])
    nocc = rng.choice([2, 3]) if iov_m else 0

    def layout(groups):
        blocks = []
        for g in groups:
            blocks.append({'names': g, 'level': 'IIV', 'joint1': rng.random() < 0.15,
                           'sym': [[f"O_{max(a, b, key=etas.index)}_{min(a, b, key=etas.index)}" for b in g] for a in g]})
        tmpl = [f'I{k + 1}' for k in range(iov_m)]
        for o in range(nocc):
            blocks.append({'names': [f'ETAIOV{o + 1}x{k + 1}' for k in range(iov_m)], 'level': 'IOV',
                           'joint1': iov_m == 1 and rng.random() < 0.3, 'sym': sym_matrix(tmpl, 'OI')})
        blocks.append({'names': eps, 'level': 'RUV', 'joint1': False, 'sym': sym_matrix(eps, 'S')})
        return blocks
    joint = layout(partition(rng, etas))
    indep = layout([[e] for e in etas])
    other = layout(partition(rng, etas, sizes=(1, 2, 3, 4)))
    mode = rng.choice(['single', 'single', 'two_step', 'two_step', 'history'])
    thetas = []
    for t in range(rng.choice([0, 1, 2, 3])):
        lower = rng.choice([None, 0, -1, 0, -5])
        upper = rng.choice([None, 10, 100, None])
        lo = -1000000 if lower is None else lower
        up = 1000000 if upper is None else upper
        init = rng.choice([F(1, 2), F(1), F(2), F(15, 10), F(7, 2)])
        init = min(max(init, F(lo) + F(1, 4)), F(up) - F(1, 4))
        thetas.append({'name': f'TH{t + 1}', 'init': str(init), 'lower': lower, 'upper': upper,
                       'fix': rng.random() < 0.15})
    p0, c0 = gen_paramset(rng, etas, iov_m, eps, force='indefinite' if mode == 'two_step' and rng.random() < 0.7 else None)
    p1, c1 = gen_paramset(rng, etas, iov_m, eps, force=rng.choice([None, 'indefinite']))
    p2, c2 = gen_paramset(rng, etas, iov_m, eps)
    if mode == 'single':
        layouts, steps = [joint, indep, other], []
    elif mode == 'two_step':
        # covariance values that are harmless while the etas are independent, then the joint layout alone
        layouts = [indep, joint, other]
        steps = [{'s': 'rvs', 'layout': 1}]
        if rng.random() < 0.5:
            steps = [{'s': 'params', 'set': 1}] + steps
        if rng.random() < 0.4:
            steps.append({'s': rng.choice(['none', 'params']), 'set': 2})
    else:
        layouts = [rng.choice([joint, indep]), joint, other]
        steps = []
        for _ in range(rng.choice([1, 2, 3, 4])):
            k = rng.choice(['rvs', 'params', 'both', 'none'])
            steps.append({'s': k, 'layout': rng.randrange(3), 'set': rng.randrange(3)})
    return {'kind': 'num', 'v': 2, 'etas': etas, 'eps': eps, 'layouts': layouts, 'paramsets': [p0, p1, p2],
            'thetas': thetas, 'steps': steps, 'classes': c0 + c1 + c2, 'mode': mode}


def gen_pheno_spec(rng):
    """Modelling-level history on the pheno example (create_joint_distribution, set_initial_estimates,
    split_joint_distribution, replace(random_variables=...) alone)."""
    cov = rng.choice(['1/2', '-1/2', '1/100', '3/100', '-3/100', '1'])
    etas = ['ETA_CL', 'ETA_VC']
    plan = rng.choice([
        [['cjd', etas], ['sie', {'IIV_CL_IIV_VC': cov}], ['split', etas]],
        [['cjd', etas], ['rvs_indep', etas], ['sie', {'IIV_CL_IIV_VC': cov}], ['rvs_joint']],
        [['cjd', etas], ['sie', {'IIV_CL_IIV_VC': cov, 'IIV_CL': '1/100'}], ['rvs_indep', etas], ['rvs_joint']],
    ])
    return {'kind': 'num', 'v': 2, 'pheno': plan, 'layouts': [], 'paramsets': [], 'thetas': [], 'steps': [],
            'classes': [], 'mode': 'pheno'}


def upgrade_num_spec(spec):
    """Old numeric specs (one layout given by blocks with values) in the v2 format."""
    if spec.get('v') == 2:
        return spec
    blocks, vals = [], {}
    for b in spec['blocks']:
        ns = b['names']
        sm = sym_matrix(ns, 'S' if b['level'] == 'RUV' else 'O')
        blocks.append({'names': ns, 'level': b['level'], 'joint1': b.get('joint1', False), 'sym': sm})
        for i in range(len(ns)):
            for j in range(i + 1):
                vals[sm[i][j]] = b['values'][i][j]
    return {'kind': 'num', 'v': 2, 'layouts': [blocks], 'paramsets': [vals], 'thetas': spec['thetas'], 'steps': [],
            'classes': [b.get('cls', '?') for b in spec['blocks']], 'mode': 'single'}


def fq(x):
    return ct.q(F(float(x)))


def qmat(M):
    return ct.lst([ct.lst([fq(x) for x in row]) for row in M])


def observe_num(spec, mutate=None):
    import numpy as np
    import pharmpy.internals.math as pmath
    from pharmpy.model import (JointNormalDistribution, Model, NormalDistribution, Parameter, Parameters,
                               RandomVariables)
    from pharmpy.modeling import calculate_parameters_from_ucp, calculate_ucp_scale, set_initial_estimates
    from pharmpy.modeling import estimation as est
    spec = upgrade_num_spec(spec)
    names = ct.Names()
    names.get('ZERO')

    def rvs_term(rvs):
        """Any RandomVariables whose variance entries are parameter symbols."""
        terms = []
        for d in rvs:
            lev = ct.pos(level_id(d.level, names))
            if isinstance(d, NormalDistribution):
                terms.append(f"(Normal {names.p(d.names[0])} {lev} 1%positive {names.p(d.variance.name)})")
            else:
                V = d.variance
                rows = ct.lst([ct.lst([names.p(V[i, j].name) for j in range(V.cols)]) for i in range(V.rows)])
                terms.append(f"(Joint {ct.lst([names.p(x) for x in d.names])} {lev} "
                             f"{ct.lst(['1%positive'] * len(d.names))} {rows})")
        return ct.lst(terms)

    def build_rvs(layout):
        dists, terms = [], []
        for b in layout:
            ns, sym = b['names'], b['sym']
            n = len(ns)
            lev = ct.pos(LEVELS[b['level']])
            if n == 1 and not b['joint1']:
                dists.append(NormalDistribution.create(ns[0], b['level'], 0, sympy.Symbol(sym[0][0])))
                terms.append(f"(Normal {names.p(ns[0])} {lev} 1%positive {names.p(sym[0][0])})")
            else:
                dists.append(JointNormalDistribution.create(ns, b['level'], [0] * n,
                                                            [[sympy.Symbol(x) for x in row] for row in sym]))
                rows = ct.lst([ct.lst([names.p(x) for x in row]) for row in sym])
                terms.append(f"(Joint {ct.lst([names.p(x) for x in ns])} {lev} {ct.lst(['1%positive'] * n)} {rows})")
        return RandomVariables.create(dists), ct.lst(terms)

    def pdict(d):
        return ct.lst([ct.pair(names.p(k), fq(v)) for k, v in d.items()])

    symbols = []
    for lay in spec['layouts']:
        for b in lay:
            for row in b['sym']:
                for x in row:
                    if x not in symbols:
                        symbols.append(x)
    params = []
    for t in spec['thetas']:
        kw = {}
        if t['lower'] is not None:
            kw['lower'] = t['lower']
        if t['upper'] is not None:
            kw['upper'] = t['upper']
        params.append(Parameter.create(t['name'], float(F(t['init'])), fix=t['fix'], **kw))
    for x in symbols:
        params.append(Parameter.create(x, float(F(spec['paramsets'][0][x]))))
    psd_tab, rep_tab, seen = [], [], set()

    def tabulate(rvs, values, with_repair=True):
        for d in rvs:
            if isinstance(d, JointNormalDistribution):
                A = d.variance.subs(values).to_numpy()
                key = (with_repair, A.tobytes())
                if key in seen:
                    continue
                seen.add(key)
                ok = bool(pmath.is_positive_semidefinite(A))
                psd_tab.append(ct.pair(qmat(A), ct.boolean(ok)))
                if with_repair:
                    B = pmath.nearest_positive_semidefinite(A.copy()) if not ok else A
                    rep_tab.append(ct.pair(qmat(A), qmat(B)))

    stages = []
    info = {'classes': spec.get('classes', []), 'mode': spec.get('mode', 'single'), 'valid': [], 'steps': []}

    def stage(p_in, rvs, given_p, rterm, model):
        tabulate(rvs, p_in)
        valid = bool(rvs.validate_parameters(p_in))
        nearest = rvs.nearest_valid_parameters(p_in)
        out = dict(model.parameters.inits)
        tabulate(rvs, out, with_repair=False)
        info['valid'].append(valid)
        stages.append(f"(mkNStage {ct.opt(pdict(p_in)) if given_p else 'None'} {ct.opt(rterm) if rterm else 'None'} "
                      f"{ct.boolean(valid)} {pdict(nearest)} {pdict(out)})")

    if 'pheno' in spec:
        # modelling-level history on the pheno example: every resulting model is exported as a stage whose
        # given attributes are its own (inits, random variables): a model that was left un-canonicalised
        # shows as tags 37 / 41
        from pharmpy.modeling import create_joint_distribution, load_example_model, split_joint_distribution
        model = load_example_model('pheno')
        joint_rvs = None
        for op in spec['pheno']:
            k = op[0]
            info['steps'].append(k)
            if k == 'cjd':
                model = create_joint_distribution(model, list(op[1]))
                joint_rvs = model.random_variables
            elif k == 'split':
                model = split_joint_distribution(model, list(op[1]))
            elif k == 'sie':
                model = set_initial_estimates(model, {x: float(F(v)) for x, v in op[1].items()})
            elif k == 'rvs_indep':      # replace(random_variables=...) alone; the covariance parameter stays
                model = model.replace(random_variables=model.random_variables.unjoin(list(op[1])))
            elif k == 'rvs_joint':
                model = model.replace(random_variables=joint_rvs)
            rvs = model.random_variables
            stage(dict(model.parameters.inits), rvs, True, rvs_term(rvs), model)
        spec = dict(spec, steps=[])
    else:
        rvs, rterm = build_rvs(spec['layouts'][0])
        ps = Parameters.create(params)
        model = Model.create(name='m', parameters=ps, random_variables=rvs)
        stage(dict(ps.inits), rvs, True, rterm, model)
    for st in spec['steps']:
        k = st['s']
        info['steps'].append(k)
        vals = {x: float(F(v)) for x, v in spec['paramsets'][st.get('set', 0)].items() if x in symbols}
        if k == 'rvs':
            rvs, rterm = build_rvs(spec['layouts'][st['layout']])
            p_in = dict(model.parameters.inits)
            model = model.replace(random_variables=rvs)
            stage(p_in, rvs, False, rterm, model)
        elif k == 'params':
            p_in = dict(model.parameters.set_initial_estimates(vals).inits)
            model = set_initial_estimates(model, vals)
            stage(p_in, rvs, True, None, model)
        elif k == 'both':
            rvs, rterm = build_rvs(spec['layouts'][st['layout']])
            newp = model.parameters.set_initial_estimates(vals)
            p_in = dict(newp.inits)
            model = model.replace(parameters=newp, random_variables=rvs)
            stage(p_in, rvs, True, rterm, model)
        else:
            p_in = dict(model.parameters.inits)
            model = model.replace(name='renamed')
            stage(p_in, rvs, False, None, model)
    minits = dict(model.parameters.inits)
    info['nvars'] = rvs.nrvs
    info['shared'] = any(sum(1 for b2 in spec['layouts'][0] if b2['sym'] == b['sym']) > 1
                         for b in spec['layouts'][0]) if spec['layouts'] else False
    sq = {}
    diag_ok = True
    for d in rvs:
        if isinstance(d, JointNormalDistribution):
            A = d.variance.subs(minits).to_numpy()
            for i in range(len(A)):
                if not A[i, i] > 0:
                    diag_ok = False
                else:
                    sq[float(A[i, i])] = float(np.sqrt(A[i, i]))
        else:
            v = float(minits[d.variance.name])
            if not v > 0:
                diag_ok = False
            else:
                sq[v] = float(np.sqrt(v))
    sdcorr = 'None'
    if diag_ok:
        with np.errstate(all='ignore'):
            sd = rvs.parameters_sdcorr(minits)
        if all(np.isfinite(float(v)) for v in sd.values()):
            sdcorr = f"(Some {pdict(sd)})"
    info['sdcorr'] = sdcorr != 'None'
    ucp = 'None'
    from_ucp = {}
    free = [p.name for p in model.parameters if not p.fix]
    try:
        sc_ = calculate_ucp_scale(model)
        ucps = {n: 0.1 for n in free}
        res = calculate_parameters_from_ucp(model, sc_, ucps)
        from_ucp = {k: float(v) for k, v in dict(res).items()}
        groups = []
        for sub, S in ((model.random_variables.etas, sc_.omega), (model.random_variables.epsilons, sc_.sigma)):
            Ms = sub.covariance_matrix
            A = Ms.subs(minits).to_numpy()
            Lc = np.linalg.cholesky(A)
            U = Ms.subs(dict(ucps)).subs(model.parameters.fixed.inits).to_numpy()
            D = est._descale_matrix(U, S)
            msym = ct.lst([ct.lst([ct.opt(names.p(Ms[i, j].name)) if Ms[i, j] != 0 else 'None'
                                   for j in range(Ms.cols)]) for i in range(Ms.rows)])
            groups.append(ct.tup(msym, qmat(Lc), qmat(S), qmat(D)))
        ucp = f"(Some {ct.lst(groups)})"
    except np.linalg.LinAlgError:
        pass
    info['ucp'] = ucp != 'None'
    term = ("(mkNCase " + ct.lst(stages) + "\n " + ct.lst(psd_tab) + "\n " + ct.lst(rep_tab) + "\n " + sdcorr + "\n "
            + ct.lst([ct.pair(fq(k), fq(v)) for k, v in sq.items()]) + " " + fq(np.exp(0.1)) + " " + fq(0.1)
            + "\n " + ucp + "\n " + pdict(from_ucp) + " " + ct.lst([names.p(x) for x in free]) + ")")
    return term, info


def classify_num(ctx, spec, tags):
    tags = set(tags)
    corr = sorted(t for t in tags if t in NCORR)
    status = 'ok'
    for t in sorted(t for t in tags if t in NORACLE):
        need_absent, guard_tag, fid = NORACLE[t]
        explained = not any(c in tags for c in need_absent)
        guard_false = guard_tag is not None and guard_tag in tags
        if explained and guard_false and fid and ctx.open_finding(fid):
            ctx.coverage.setdefault('known_hits', {}).setdefault(fid, 0)
            ctx.coverage['known_hits'][fid] += 1
            if status == 'ok':
                status = 'known'
        else:
            ctx.violation(NTAGS[t], {'spec': spec, 'tags': sorted(tags), 'tag_meaning': NTAGS[t]})
            status = 'violation'
    if corr and status != 'violation':
        ctx.broken.append('correspondence C11 numeric model vs implementation: ' + ', '.join(NTAGS[t] for t in corr)
                          + ' on ' + json.dumps(spec)[:600])
        ctx.coverage.setdefault('corr_disagreements', []).append({'spec': spec, 'tags': sorted(tags)})
        status = 'broken'
    return status


def run_num_specs(ctx, specs, label, quiet=False, mutate=None, observed=()):
    terms, infos = [], []
    specs = list(specs)
    for spec in specs:
        term, info = observe_num(spec, mutate=mutate)
        terms.append(term)
        infos.append(info)
    for spec, term, info in observed:
        specs.append(spec)
        terms.append(term)
        infos.append(info)
    verdicts = ctx.run_cases(label, NIMPORTS, 'ncase', terms, 'nverdict', shard=40)
    if quiet:
        return verdicts, infos, None
    stats = {'ok': 0, 'known': 0, 'violation': 0, 'broken': 0}
    for spec, tags in zip(specs, verdicts):
        stats[classify_num(ctx, spec, tags)] += 1
    return verdicts, infos, stats


# ------------------------------------------------------------------ create/split_joint_distribution on real models
JTAGS = {
    51: 'create_joint_distribution random variables differ from model', 52: 'create_joint_distribution parameters differ from model',
    56: 'split_joint_distribution differs from model',
    53: 'a new covariance parameter is not named after the parameters of its two random variables',
    59: 'create_joint_distribution(rvs=None) did not select the etas in collection order',
    60: 'create_joint_distribution ended in an internal IndexError',
    70: 'variance_parameters differs from model', 71: 'variance_parameters repeats a name or is not the set of variance symbols',
    54: 'names of the random variables not preserved', 55: 'a variance changed',
    57: 'split_joint_distribution dropped a variance parameter or kept an unused covariance parameter',
    58: 'create_joint_distribution changed the value of an existing parameter',
}
JCORR = (51, 52, 56, 70)
JORACLE = {53: (JCORR, 251, 'C11-CJD-COV-PARAM-MISNAMED'), 59: (JCORR, None, None), 60: (JCORR, None, None), 71: (JCORR, None, None), 54: (JCORR, None, None), 55: (JCORR, None, None),
           57: (JCORR, None, None), 58: (JCORR, None, None)}
JIMPORTS = 'Base.PyData Base.Expr C11.Model C11.NumModel C11.JdModel C11.JdCheck'
_JD_BASE = {}


def jd_base(kind, fix=()):
    key = (kind, tuple(fix))
    if key not in _JD_BASE:
        from pharmpy.modeling import add_iiv, fix_parameters, load_example_model
        m = load_example_model('pheno')
        if kind == 'pheno_s1':
            m = add_iiv(m, ['S1'], 'exp')
        if fix:
            m = fix_parameters(m, list(fix))
        _JD_BASE[key] = m
    return _JD_BASE[key]


def gen_vp_dists(rng):
    """Collections with symbolic entries only (optionally a literal 0 on a diagonal), incl. IOV-SAME layouts
    sharing variance symbols: inputs for RandomVariables.variance_parameters."""
    dists = gen_dists(rng, VARNAMES)
    out = []
    for d in dists:
        ns = [d['name']] if d['k'] == 'N' else d['names']
        e = gen_dist(rng, ns, mode='sym', level=d['level'])
        if d['k'] == 'N' and isinstance(d.get('var'), str) and d['var'].startswith('OI_'):
            e = dict(e, var=d['var'] if e['k'] == 'N' else [[d['var']]])      # keep shared IOV symbols
        if d['k'] == 'J' and d['var'][0][0].startswith('OI_'):
            e = dict(e, var=d['var'])
        if rng.random() < 0.07:
            if e['k'] == 'N':
                e['var'] = '0'
            else:
                e['var'] = [row[:] for row in e['var']]
                e['var'][0][0] = '0'
        e['mean'] = '0' if e['k'] == 'N' else ['0'] * len(ns)
        out.append(e)
    return out


def gen_jd_spec(rng):
    if rng.random() < 0.3:
        return {'kind': 'jd', 'base': 'none', 'ops': [], 'vp': gen_vp_dists(rng)}
    base = rng.choice(['pheno', 'pheno_s1', 'pheno_s1'])
    etas = ['ETA_CL', 'ETA_VC'] + (['ETA_S1'] if base == 'pheno_s1' else [])
    omegas = ['IIV_CL', 'IIV_VC'] + (['IIV_S1'] if base == 'pheno_s1' else [])
    spec = {'kind': 'jd', 'base': base, 'ops': []}
    if rng.random() < 0.3:
        spec['fix'] = rng.sample(omegas, rng.choice([1, 1, 2]))
    if rng.random() < 0.4:
        # individual estimates: random columns (sometimes one eta is missing, sometimes a constant column)
        spec['ie'] = {'seed': rng.randrange(10 ** 6), 'drop': rng.choice([None, None, None, rng.choice(etas)]),
                      'constant': rng.choice([None, None, None, rng.choice(etas)])}
    # with fixed omegas only the default selection is exercised (joining a partly fixed block explicitly is
    # refused by the NONMEM record writer, which is outside this model)
    if 'fix' in spec or rng.random() < 0.35:
        spec['ops'].append(['cjd_none'])
        if rng.random() < 0.5:
            spec['ops'].append(['split', rng.sample(etas, 1)])
        return spec
    k = rng.choice([2, 2, len(etas), len(etas), 1])
    first = rng.sample(etas, k)
    if rng.random() < 0.5:
        first = sorted(first, key=etas.index)
    spec['ops'].append(['cjd', first])
    if rng.random() < 0.7 and k >= 2:
        spec['ops'].append(['split', rng.sample(first, rng.choice([1, 1, len(first)]))])
        if rng.random() < 0.5:
            spec['ops'].append(rng.choice([['cjd', rng.sample(etas, len(etas))], ['cjd_none']]))
    return spec


def observe_jd(spec):
    """One jcase term per operation of the history."""
    import numpy as np
    import pandas as pd
    import pharmpy.internals.math as pmath
    import pharmpy.model.random_variables as rvm
    from pharmpy.model import NormalDistribution
    from pharmpy.modeling import create_joint_distribution, split_joint_distribution
    if 'vp' in spec:
        im = impl()
        rvs = im.RandomVariables.create([build_dist(d, im) for d in spec['vp']])
        names = CNames()

        def sym0(e):
            return 'None' if e == 0 else f'(Some {names.p(e.name)})'
        out = []
        for d in rvs:
            lev = ct.pos(level_id(d.level, names))
            if isinstance(d, NormalDistribution):
                out.append(f"(Normal {names.p(d.names[0])} {lev} {sym0(d.mean)} {sym0(d.variance)})")
            else:
                V, mu = d.variance, d.mean
                rows = ct.lst([ct.lst([sym0(V[i, j]) for j in range(V.cols)]) for i in range(V.rows)])
                out.append(f"(Joint {ct.lst([names.p(x) for x in d.names])} {lev} "
                           f"{ct.lst([sym0(mu[i, 0]) for i in range(mu.rows)])} {rows})")
        rt = ct.lst(out)
        try:
            vp = f"(Some {ct.lst([names.p(x) for x in rvs.variance_parameters])})"
        except ValueError:
            vp = 'None'
        # no operation: split_joint_distribution of nothing is the identity in the model
        return [f"(mkJCase {rt} [] (JSplit []) (Some ({rt}, [])) [] [] [] [] [] {fq(0.0001)} false {vp})"]
    model = jd_base(spec['base'], spec.get('fix', ()))
    ie = None
    if spec.get('ie'):
        g = np.random.default_rng(spec['ie']['seed'])
        cols = [e for e in model.random_variables.etas.names if e != spec['ie']['drop']]
        ie = pd.DataFrame(g.normal(size=(12, len(cols))), columns=cols)
        if spec['ie']['constant'] in cols:
            ie[spec['ie']['constant']] = 0.5
    terms = []
    for op in spec['ops']:
        names = CNames()
        for q in PARAMNAMES:
            names.get(q)

        def sym(e):
            return 'None' if e == 0 else f'(Some {names.p(e.name)})'

        def rterm(rvs):
            out = []
            for d in rvs:
                lev = ct.pos(level_id(d.level, names))
                if isinstance(d, NormalDistribution):
                    out.append(f"(Normal {names.p(d.names[0])} {lev} {sym(d.mean)} {sym(d.variance)})")
                else:
                    V, mu = d.variance, d.mean
                    rows = ct.lst([ct.lst([sym(V[i, j]) for j in range(V.cols)]) for i in range(V.rows)])
                    out.append(f"(Joint {ct.lst([names.p(x) for x in d.names])} {lev} "
                               f"{ct.lst([sym(mu[i, 0]) for i in range(mu.rows)])} {rows})")
            return ct.lst(out)

        def pterm(m):
            return ct.lst([ct.pair(names.p(k), fq(v)) for k, v in m.parameters.inits.items()])
        before = model
        sq = {float(v): float(np.sqrt(v)) for v in before.parameters.inits.values() if v >= 0}
        seen = {}
        internal = False
        try:
            if op[0] in ('cjd', 'cjd_none'):
                orig = rvm.RandomVariables.join

                def spy(self, inds, fill=0, name_template=None, param_names=None):
                    seen['pn'] = list(param_names)
                    seen['inds'] = list(inds)
                    res = orig(self, inds, fill=fill, name_template=name_template, param_names=param_names)
                    seen['res'] = res
                    return res
                rvm.RandomVariables.join = spy
                try:
                    after = create_joint_distribution(before, list(op[1]) if op[0] == 'cjd' else None,
                                                      individual_estimates=ie)
                finally:
                    rvm.RandomVariables.join = orig
                pn = seen['pn']
            else:
                after = split_joint_distribution(before, list(op[1]))
                pn = None
        except (ValueError, KeyError, IndexError) as exc:
            internal = isinstance(exc, IndexError)
            after = None
            nreq = len(op[1]) if op[0] == 'cjd' else 3
            pn = (seen.get('pn') or [f'x{k}' for k in range(nreq)]) if op[0] != 'split' else None
        if pn is not None:
            for q in pn:
                names.get(q)
            names.register_template('IIV_{}_IIV_{}', pn)
        rb, pb = rterm(before.random_variables), pterm(before)       # registers every old name first
        # individual-estimates branch of _choose_cov_param_init: correlation of the two etas' columns (input),
        # and the LAPACK-dependent PSD test / repair of the covariance matrix built from it (tables)
        ie_t, psd_t, rep_t = [], [], []
        if ie is not None and 'res' in seen:
            new_rvs, cov_to_params = seen['res']
            inits = before.parameters.inits
            for cov_name, (p1, p2) in cov_to_params.items():
                etas = [n for n in new_rvs.names if new_rvs[n].get_variance(n).name in (p1, p2)]
                if not all(e in ie.columns for e in etas):
                    continue
                corr = ie[etas].corr()
                if corr.isnull().values.any():
                    continue
                sd = np.array([np.sqrt(inits[p1]), np.sqrt(inits[p2])])
                for v in (inits[p1], inits[p2]):
                    sq[float(v)] = float(np.sqrt(v))
                cov = pmath.corr2cov(corr.to_numpy(), sd)
                cov[cov == 0] = 0.0001
                ok = bool(pmath.is_positive_semidefinite(cov))
                rep = pmath.nearest_positive_semidefinite(cov.copy()) if not ok else cov
                ie_t.append(ct.tup(names.p(p1), names.p(p2), qmat(corr.to_numpy())))
                psd_t.append(ct.pair(qmat(cov), ct.boolean(ok)))
                rep_t.append(ct.pair(qmat(cov), qmat(rep)))
        if op[0] == 'cjd':
            opt = f"(JCreate {ct.lst([names.p(x) for x in op[1]])} {ct.lst([names.p(q) for q in pn])})"
        elif op[0] == 'cjd_none':
            opt = f"(JCreateDefault {ct.lst([names.p(q) for q in pn])})"
        else:
            opt = f"(JSplit {ct.lst([names.p(x) for x in op[1]])})"
        out = 'None' if after is None else f"(Some {ct.pair(rterm(after.random_variables), pterm(after))})"
        fixed = ct.lst([names.p(q.name) for q in before.parameters if q.fix])
        terms.append(f"(mkJCase {rb} {pb} {opt} {out} {ct.lst([ct.pair(fq(k), fq(v)) for k, v in sq.items()])}\n "
                     f"{fixed} {ct.lst(ie_t)} {ct.lst(psd_t)} {ct.lst(rep_t)} {fq(0.0001)} {ct.boolean(internal)} "
                     f"(Some {ct.lst([names.p(x) for x in before.random_variables.variance_parameters])}))")
        if after is not None:
            model = after
    return terms


def classify_jd(ctx, spec, tags):
    tags = set(tags)
    status = 'ok'
    for t in sorted(t for t in tags if t in JORACLE):
        need_absent, guard_tag, fid = JORACLE[t]
        explained = not any(c in tags for c in need_absent)
        if explained and guard_tag in tags and fid and ctx.open_finding(fid):
            ctx.coverage.setdefault('known_hits', {}).setdefault(fid, 0)
            ctx.coverage['known_hits'][fid] += 1
            if status == 'ok':
                status = 'known'
        else:
            ctx.violation(JTAGS[t], {'spec': spec, 'tags': sorted(tags), 'tag_meaning': JTAGS[t]})
            status = 'violation'
    corr = [t for t in tags if t in JCORR]
    if corr and status != 'violation':
        ctx.broken.append('correspondence C11 create/split_joint_distribution model vs implementation: '
                          + ', '.join(JTAGS[t] for t in corr) + ' on ' + json.dumps(spec))
        status = 'broken'
    return status


def run_jd_specs(ctx, specs, label, quiet=False):
    terms, owner = [], []
    for k, spec in enumerate(specs):
        for t in observe_jd(spec):
            terms.append(t)
            owner.append(k)
    verdicts = ctx.run_cases(label, JIMPORTS, 'jcase', terms, 'jverdict', shard=60)
    per = [[] for _ in specs]
    for k, v in zip(owner, verdicts):
        per[k] += v
    if quiet:
        return per, None
    stats = {'ok': 0, 'known': 0, 'violation': 0, 'broken': 0}
    for spec, tags in zip(specs, per):
        stats[classify_jd(ctx, spec, tags)] += 1
    return per, stats


# ------------------------------------------------------------------ precision-matrix conversions (modeling/math.py)
PTAGS = {61: 'calculate_se/corr_from_cov differs from model', 62: 'calculate_prec_from_cov / cov_from_prec differs from model',
         63: 'calculate_se/corr_from_prec differs from model', 64: 'calculate_cov/prec_from_corrse differs from model',
         65: 'cov -> (corr, se) -> cov is not the identity', 66: 'prec_from_corrse(corr_from_cov, se_from_cov) differs from prec_from_cov',
         67: 'cov -> prec -> cov is not the identity'}
PCORR = (61, 62, 63, 64)


def gen_prec_spec(rng):
    n = rng.choice([1, 2, 3, 4])
    _, A = gen_block_values(rng, n, force=rng.choice(['pd', 'pd', 'pd_nonneg']))
    return {'kind': 'prec', 'cov': A}


def observe_prec(spec):
    import numpy as np
    import pandas as pd
    import pharmpy.modeling as pm
    n = len(spec['cov'])
    idx = [f'P{i}' for i in range(n)]
    S = pd.DataFrame([[float(F(x)) for x in row] for row in spec['cov']], index=idx, columns=idx)
    se_cov = pm.calculate_se_from_cov(S)
    corr_cov = pm.calculate_corr_from_cov(S)
    P = pm.calculate_prec_from_cov(S)
    cov_prec = pm.calculate_cov_from_prec(P)
    se_prec = pm.calculate_se_from_prec(P)
    corr_prec = pm.calculate_corr_from_prec(P)
    cov_corrse = pm.calculate_cov_from_corrse(corr_cov, se_cov)
    prec_corrse = pm.calculate_prec_from_corrse(corr_cov, se_cov)
    invs = [(S.values, np.linalg.inv(S.values)), (P.values, np.linalg.inv(P.values)),
            (cov_corrse.values, np.linalg.inv(cov_corrse.values))]
    sq = {}
    for M in (S.values, np.linalg.inv(P.values)):
        for i in range(n):
            sq[float(M[i, i])] = float(np.sqrt(M[i, i]))
    vec = lambda v: ct.lst([fq(x) for x in v])
    return ("(mkPCase " + qmat(S.values) + " " + ct.lst([ct.pair(qmat(a), qmat(b)) for a, b in invs]) + " "
            + ct.lst([ct.pair(fq(k), fq(v)) for k, v in sq.items()]) + "\n " + vec(se_cov.values) + " " + qmat(corr_cov.values)
            + " " + qmat(P.values) + "\n " + qmat(cov_prec.values) + " " + vec(se_prec.values) + " " + qmat(corr_prec.values)
            + "\n " + qmat(cov_corrse.values) + " " + qmat(prec_corrse.values) + ")")


def run_prec_specs(ctx, specs, label):
    terms = [observe_prec(s) for s in specs]
    verdicts = ctx.run_cases(label, NIMPORTS, 'pcase', terms, 'pverdict', shard=100)
    for spec, tags in zip(specs, verdicts):
        tags = set(tags)
        for t in sorted(t for t in tags if t in (65, 66, 67)):
            ctx.violation(PTAGS[t], {'spec': spec, 'tags': sorted(tags), 'tag_meaning': PTAGS[t]})
        if tags & set(PCORR) and not tags & {65, 66, 67}:
            ctx.broken.append('correspondence C11 precision conversions model vs implementation: '
                              + ', '.join(PTAGS[t] for t in sorted(tags & set(PCORR))) + ' on ' + json.dumps(spec))
    return verdicts


# ------------------------------------------------------------------ classification
def classify(ctx, spec, tags):
    tags = set(tags)
    corr = sorted(t for t in tags if t in CORR)
    oracle = sorted(t for t in tags if t in ORACLE)
    status = 'ok'
    for t in oracle:
        need_absent, guard_tag, fid = ORACLE[t]
        explained = not any(c in tags for c in need_absent)
        guard_false = guard_tag is not None and guard_tag in tags
        if explained and guard_false and fid and ctx.open_finding(fid):
            ctx.coverage.setdefault('known_hits', {}).setdefault(fid, 0)
            ctx.coverage['known_hits'][fid] += 1
            if status == 'ok':
                status = 'known'
        else:
            ctx.violation(TAGS[t], {'spec': spec, 'tags': sorted(tags), 'tag_meaning': TAGS[t]})
            status = 'violation'
    if corr and status != 'violation':
        ctx.broken.append('correspondence C11 model vs implementation: ' + ', '.join(TAGS[t] for t in corr)
                          + ' on ' + json.dumps(spec)[:600])
        ctx.coverage.setdefault('corr_disagreements', []).append({'spec': spec, 'tags': sorted(tags)})
        status = 'broken'
    return status


IMPORTS = 'Base.PyData Base.Expr Base.Interp Base.Stmts C11.Model C11.Check'


def _alg_chunk(args):
    seed, n = args
    rng = random.Random(seed)
    out = []
    for _ in range(n):
        spec = gen_spec(rng)
        try:
            term, info = observe(spec)
        except (sc.Unconvertible, sympy.SympifyError):
            out.append((spec, None, None))
            continue
        out.append((spec, term, info))
    return out


def _num_chunk(args):
    seed, n = args
    rng = random.Random(seed)
    out = []
    for _ in range(n):
        spec = gen_pheno_spec(rng) if rng.random() < 0.06 else gen_num_spec(rng)
        term, info = observe_num(spec)
        out.append((spec, term, info))
    return out


def pgen(ctx, fn, n, per=25):
    """Generate + observe n cases in forked worker processes; chunk seeds come from ctx.rng only."""
    import multiprocessing as mp
    from harness.lib.core import JOBS
    chunks = [(ctx.rng.randrange(2 ** 62), min(per, n - k)) for k in range(0, n, per)]
    if not chunks:
        return []
    impl()                                   # import pharmpy before forking
    with mp.get_context('fork').Pool(min(JOBS, len(chunks))) as pool:
        res = pool.map(fn, chunks)
    return [x for chunk in res for x in chunk]


def run_specs(ctx, specs, label, quiet=False, im=None, mutate=None, observed=()):
    terms, kept, infos = [], [], []
    skipped = 0
    for spec in specs:
        try:
            term, info = observe(spec, im=im, mutate=mutate)
        except (sc.Unconvertible, sympy.SympifyError) as e:
            skipped += 1
            continue
        terms.append(term)
        kept.append(spec)
        infos.append(info)
    for spec, term, info in observed:
        if term is None:
            skipped += 1
            continue
        terms.append(term)
        kept.append(spec)
        infos.append(info)
    verdicts = ctx.run_cases(label, IMPORTS, 'case', terms, 'verdict', shard=40)
    if quiet:
        return kept, verdicts, infos, None
    ctx.coverage['skipped_unconvertible'] = ctx.coverage.get('skipped_unconvertible', 0) + skipped
    stats = {'ok': 0, 'known': 0, 'violation': 0, 'broken': 0}
    for spec, tags in zip(kept, verdicts):
        stats[classify(ctx, spec, tags)] += 1
    inconcl = sum(1 for v in verdicts for t in v if 1000 <= t < 2000)
    ctx.coverage['inconclusive_subchecks'] = ctx.coverage.get('inconclusive_subchecks', 0) + inconcl
    return kept, verdicts, infos, stats


def finding_probes(ctx):
    """Replay the stored witness of every open finding on the real code."""
    fixed_ids = {f['id'] for f in ctx.findings if f.get('status') == 'fixed'}   # staged updates win by id
    for f in ctx.findings:
        if f.get('status') != 'open' or f['id'] in fixed_ids:
            continue
        if f.get('kind', 'algebra') == 'jd':
            per, _ = run_jd_specs(ctx, [f['witness']], 'finding-' + f['id'], quiet=True)
            tags = set(per[0])
            if f['expect_tag'] in tags and not any(c in tags for c in JCORR):
                ctx.known(f['id'])
            else:
                ctx.notes.append(f"finding_not_reproduced {f['id']} (tags {sorted(tags)})")
            continue
        if f.get('kind', 'algebra') == 'num':
            verdicts, _, _ = run_num_specs(ctx, [f['witness']], 'finding-' + f['id'], quiet=True)
            tags = set(verdicts[0]) if verdicts else set()
            if f['expect_tag'] in tags and not any(c in tags for c in NCORR):
                ctx.known(f['id'])
            else:
                ctx.notes.append(f"finding_not_reproduced {f['id']} (tags {sorted(tags)})")
            continue
        kept, verdicts, _, _ = run_specs(ctx, [f['witness']], 'finding-' + f['id'], quiet=True)
        tags = set(verdicts[0]) if verdicts else set()
        if f['expect_tag'] in tags and not any(c in tags for c in CORR):
            ctx.known(f['id'])
        else:
            ctx.notes.append(f"finding_not_reproduced {f['id']} (tags {sorted(tags)})")


def run(ctx):
    ctx.build_gate(['C11'])
    ctx.trusted += [
        'harness/lib/sym2coq.py + coqterm.py (conversion of real sympy/symengine entries, names, levels to Gallina terms)',
        'harness/props/c11.py generator, export of the real RandomVariables / distributions, classification',
        'Base/Interp.v exact interpretation used only for comparing matrix entries by evaluation',
    ]
    ctx.assumptions += [
        'sympy/symengine canonicalisation and Expr.subs are engines: entries are exported after every operation and compared by exact evaluation over Q',
    ]
    ctx.coverage['source_sha'] = source_sha('src/pharmpy/model/random_variables.py',
                                            'src/pharmpy/model/distributions/symbolic.py',
                                            'src/pharmpy/internals/math.py', 'src/pharmpy/modeling/estimation.py')
    ctx.log('gates done')
    finding_probes(ctx)
    ctx.log('finding probes done')
    reg = sorted((VERIF / 'regress' / 'C11').glob('*.json'))
    specs = [json.loads(p.read_text()) for p in reg]
    specs = [s for s in specs if s.get('kind', 'algebra') == 'algebra']
    nreg = len(specs)
    specs += exhaustive_specs(ctx.tier)
    ctx.coverage['exhaustive_index_set_histories'] = len(specs) - nreg
    n = 400 if ctx.tier == 'quick' else 5000
    observed = pgen(ctx, _alg_chunk, n)
    ctx.log(f'{nreg} regression + {len(specs) - nreg} exhaustive + {len(observed)} generated histories observed')
    kept, verdicts, infos, stats = run_specs(ctx, specs, 'gen', observed=observed)
    ctx.log('histories checked')
    ctx.coverage['evaluations'] = sum(i['nsteps'] + 1 for i in infos)
    distinct = {json.dumps(s, sort_keys=True) for s, i in zip(kept, infos) if i['nsteps'] >= 1 and i['nvars'] >= 2}
    ctx.coverage['distinct_nontrivial'] = len(distinct)
    ctx.coverage['histories'] = len(kept)
    ctx.coverage['regression_cases'] = nreg
    ctx.coverage['rule'] = ('regression corpus + every index set over a 5-variable 2-block layout for unjoin/select/join + random collections of 1-6 (+ added) normal / joint-normal variables (symbolic, numeric, mixed '
                            'entries; IIV/IOV/RUV) and 1-6 operations from VERIF_SEED; non-trivial = at least two '
                            'variables and one operation; distinct by spec text')
    ctx.coverage['case_status'] = stats
    ophist = {}
    for i in infos:
        for o in i['ops']:
            ophist[o] = ophist.get(o, 0) + 1
    ctx.coverage['input_distribution'] = {
        'nvars_hist': {str(k): sum(1 for i in infos if i['nvars'] == k) for k in sorted({i['nvars'] for i in infos})},
        'ops': dict(sorted(ophist.items())),
        'error_kinds': {k: sum(i['errors'].count(k) for i in infos) for k in ERRS},
        'zero_variance_joined_with_fill': sum(1 for v in verdicts if 201 in v),
        'guard_inblock_zero_fill': sum(1 for v in verdicts if 202 in v),
        'guard_removed_not_prefix': sum(1 for v in verdicts if 203 in v),
        'states_with_duplicate_names': sum(1 for v in verdicts if 210 in v),
        'mixed_level_joins': sum(1 for v in verdicts if 204 in v),
    }
    ctx.coverage['samples'] = [{'spec': s, 'tags': v} for s, v in list(zip(kept, verdicts))[:4]]
    # ---- numeric side: sd/corr, PSD repair, UCP
    nspecs = [json.loads(p.read_text()) for p in reg]
    nspecs = [s for s in nspecs if s.get('kind') == 'num']
    nn = 60 if ctx.tier == 'quick' else 800
    nobserved = pgen(ctx, _num_chunk, nn, per=10)
    nverdicts, ninfos, nstats = run_num_specs(ctx, nspecs, 'num', observed=nobserved)
    nspecs = nspecs + [o[0] for o in nobserved]
    ctx.log('numeric cases checked')
    ctx.coverage['evaluations'] += len(nspecs)
    ctx.coverage['distinct_nontrivial'] += len({json.dumps(s, sort_keys=True) for s in nspecs
                                                if any(len(b['names']) >= 2 for lay in upgrade_num_spec(s)['layouts']
                                                       for b in lay)})
    ctx.coverage['numeric_cases'] = len(nspecs)
    ctx.coverage['numeric_case_status'] = nstats
    clshist = {}
    for i in ninfos:
        for c in i['classes']:
            clshist[c] = clshist.get(c, 0) + 1
    ctx.coverage['input_distribution']['numeric'] = {
        'block_classes': clshist,
        'stages_with_invalid_inits_repaired': sum(1 for i in ninfos for v in i['valid'] if not v),
        'modes': {m: sum(1 for i in ninfos if i['mode'] == m) for m in ('single', 'two_step', 'history', 'pheno')},
        'replace_steps': {k: sum(i['steps'].count(k) for i in ninfos) for k in ('rvs', 'params', 'both', 'none', 'cjd', 'sie', 'split', 'rvs_indep', 'rvs_joint')},
        'collections_with_shared_parameters': sum(1 for i in ninfos if i['shared']),
        'with_sdcorr': sum(1 for i in ninfos if i['sdcorr']),
        'with_ucp_roundtrip': sum(1 for i in ninfos if i['ucp']),
        'negative_cholesky_entry': sum(1 for v in nverdicts if 241 in v),
    }
    ctx.coverage['samples'] += [{'spec': s, 'tags': v} for s, v in list(zip(nspecs, nverdicts))[:2]]
    # ---- create_joint_distribution / split_joint_distribution on real models
    jspecs = [s for s in (json.loads(p.read_text()) for p in reg) if s.get('kind') == 'jd']
    jspecs += [gen_jd_spec(ctx.rng) for _ in range(14 if ctx.tier == 'quick' else 150)]
    jper, jstats = run_jd_specs(ctx, jspecs, 'jd')
    ctx.log('create/split_joint_distribution histories checked')
    ctx.coverage['evaluations'] += sum(len(s['ops']) for s in jspecs)
    ctx.coverage['joint_distribution_histories'] = len(jspecs)
    ctx.coverage['joint_distribution_case_status'] = jstats
    ctx.coverage['input_distribution']['joint_distribution'] = {
        'operations': sum(len(s['ops']) for s in jspecs),
        'argument_not_in_collection_order': sum(1 for v in jper if 251 in v),
    }
    pspecs = [s for s in (json.loads(p.read_text()) for p in reg) if s.get('kind') == 'prec']
    pspecs += [gen_prec_spec(ctx.rng) for _ in range(40 if ctx.tier == 'quick' else 400)]
    pverd = run_prec_specs(ctx, pspecs, 'prec')
    ctx.coverage['evaluations'] += len(pspecs)
    ctx.coverage['precision_conversion_cases'] = len(pspecs)
    ctx.log('precision-matrix conversions checked')
    ctx.assumptions += [
        'create_joint_distribution: the parameter names derived from the model statements and the individual-estimates branch of _choose_cov_param_init are inputs/oracles; the tie runs on pheno-based models (2-3 etas) without individual estimates',
        'numpy/LAPACK eig, svd, cholesky are engines: PSD test results, repaired matrices and Cholesky factors are taken from the implementation as tables; PSD(nearest(A)) is validated by an exact rational elimination test with tolerance 1e-8*(1+max|a_ij|), not proved',
        'float arithmetic of the implementation is compared with exact rational arithmetic of the model with relative tolerance 1e-9',
        'theta part of the UCP scaling (log/exp) is tied only through the round-trip oracle; its algebra is proved over R',
    ]


def replay(ctx, rep):
    spec = rep['spec']
    if spec.get('kind') == 'prec':
        v = ctx.run_cases('replay', NIMPORTS, 'pcase', [observe_prec(spec)], 'pverdict')[0]
        print('spec', json.dumps(spec))
        print('tags', v, [PTAGS.get(t, t) for t in v])
        return 1 if v else 0
    if spec.get('kind') == 'jd':
        per, _ = run_jd_specs(ctx, [spec], 'replay', quiet=True)
        print('spec', json.dumps(spec))
        print('tags', per[0], [JTAGS.get(t, t) for t in per[0]])
        return 1 if any(t in JORACLE or t in JCORR for t in per[0]) else 0
    if spec.get('kind') == 'num':
        verdicts, _, _ = run_num_specs(ctx, [spec], 'replay', quiet=True)
        tags = verdicts[0]
        print('spec', json.dumps(spec))
        print('tags', tags, [NTAGS.get(t, t) for t in tags])
        return 1 if any(t in NORACLE or t in NCORR for t in tags) else 0
    kept, verdicts, _, _ = run_specs(ctx, [spec], 'replay', quiet=True)
    tags = verdicts[0]
    print('spec', json.dumps(spec))
    print('tags', tags, [TAGS.get(t, t) for t in tags])
    return 1 if any(t in ORACLE or t in CORR for t in tags) else 0
