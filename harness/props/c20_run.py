"""C20 run-directory level (stub, filled in below)."""
RTAGS = {}


def generated_tables(ctx):
    pass


def run_rspecs(ctx, specs, label, quiet=False, **kw):
    return [[] for _ in specs], [{} for _ in specs], {'ok': 0, 'known': 0, 'violation': 0, 'broken': 0}


def float_engine_checks(ctx):
    pass


def distribution(rspecs, rverdicts, rinfos):
    return {}
