"""C20 run-directory level: synthetic NONMEM run directories read by read_modelfit_results; generated tables
(special iteration codes and regex texts regenerated from the pharmpy source by a fail-closed ast walk);
float-engine checks of triangular_root."""
import ast
import json
import math
import shutil
import warnings
from decimal import Decimal, getcontext
from fractions import Fraction
from pathlib import Path

from harness.lib import coqterm as ct
from harness.lib.core import BUILD, REPO, coqc_file
from harness.props import c20_writer as W

getcontext().prec = 60

RTAGS = {
    1: 'read_modelfit_results outcome class differs from model', 2: 'ofv / ofv_iterations differ from model',
    3: 'parameter estimates / iterations differ from model', 4: 'standard errors / sdcorr differ from model',
    5: 'matrices read from cov/cor/coi differ from model', 6: 'iofv / individual estimates / covariances differ from model',
    7: 'relative standard errors are not se/pe',
    21: 'ofv is not the objective value of the designated row', 22: 'parameter estimates are not the designated row under the model\'s names with fixed parameters dropped',
    23: 'standard errors are not row -1000000001 under the model\'s names',
    24: 'covariance / correlation / precision matrix is not the written one (fixed dropped, model names)',
    25: 'cov, cor, coi, se reported together violate their defining relations',
    26: 'predictions / residuals are not the written $TABLE columns',
    27: 'results object does not survive the JSON round trip',
    28: 'individual OFV / estimates / covariances are not the written phi values',
    29: 'read_modelfit_results raises (or gives no / failed results) on a well-formed run directory',
}
RCORR = (1, 2, 3, 4, 5, 6, 7)
# oracle tag -> (corr tags that must be absent, [(guard tag, finding id)])
ORACLE_R = {
    21: ((2,), [(201, 'C20-FINAL-OBJ-NEQ-LAST')]),
    22: ((3,), [(201, 'C20-FINAL-OBJ-NEQ-LAST'), (206, 'C20-FORTRAN-EXP3')]),
    23: ((4,), []), 24: ((5,), []), 25: ((), []),
    26: ((), []), 27: ((), [(204, 'C20-JSON-15-DECIMALS')]), 28: ((6,), []),
    29: ((1,), []),
}


def T(s):
    """A text as a Gallina term of type Model.text: a string literal when every character is a single byte that
    Coq's lexer passes through unchanged, else the list of codes."""
    if s and all((32 <= ord(c) < 127) or c in '\n\r\t' for c in s):
        return '(tx "' + s.replace('"', '""') + '"%string)'
    return ct.lst([str(ord(c)) for c in s])


# ------------------------------------------------------------------ numbers
def to_sci6(x):
    """Decimal -> writer 'e' number rounded (half even) to 6 significant digits."""
    x = Decimal(x)
    if x == 0:
        return ['e', False, '000000', False, '00']
    neg = x < 0
    x = abs(x)
    e = x.adjusted()
    m = (x.scaleb(-e + 5)).to_integral_value()      # context rounding: ROUND_HALF_EVEN
    if m >= 10 ** 6:
        m = m // 10
        e += 1
    return ['e', neg, '%06d' % int(m), e < 0, '%02d' % abs(e)]


def frac_dec(fr):
    return Decimal(fr.numerator) / Decimal(fr.denominator)


def inverse(A):
    n = len(A)
    M = [[Fraction(A[i][j]) for j in range(n)] + [Fraction(int(i == j)) for j in range(n)] for i in range(n)]
    for c in range(n):
        p = next(r for r in range(c, n) if M[r][c] != 0)
        M[c], M[p] = M[p], M[c]
        pv = M[c][c]
        M[c] = [v / pv for v in M[c]]
        for r in range(n):
            if r != c and M[r][c] != 0:
                f = M[r][c]
                M[r] = [a - f * b for a, b in zip(M[r], M[c])]
    return [row[n:] for row in M]


def cov_family(spec):
    """cov / cor / coi writer tables and the SE vector for the estimated parameters of the last step, consistent
    to the printed precision; deterministic in spec['covseed']."""
    import random
    from harness.props import c20_gen as G
    rng = random.Random(spec['covseed'])
    cfg = spec['cfg']
    cols, est, A, scale = G.gen_cov_matrix(rng, cfg)
    n = len(est)
    cov = [[Fraction(A[i][j]) * Fraction(10) ** (scale[i] + scale[j]) for j in range(n)] for i in range(n)]
    sd = [frac_dec(cov[i][i]).sqrt() for i in range(n)]
    inv = inverse(cov)
    labels = ['NAME'] + [c[0] for c in cols]
    pos = {j: k for k, j in enumerate(est)}
    last = spec['ext'][-1]
    title = {'number': last['title']['number'], 'method': last['title']['method'], 'design': None, 'goal': None,
             'ids': [1, 0, 0, 0, 0, 0]}

    def table(entry):
        rows = []
        for i, ci in enumerate(cols):
            r = [['s', ci[0]]]
            for j, cj in enumerate(cols):
                r.append(entry(pos[i], pos[j]) if (i in pos and j in pos) else G.ZERO)
            rows.append(r)
        return {'title': title, 'labels': labels, 'rows': rows, 'lastwide': False, 'repeat': 0}
    tcov = table(lambda a, b: to_sci6(frac_dec(cov[a][b])))
    tcor = table(lambda a, b: to_sci6(sd[a]) if a == b else to_sci6(frac_dec(cov[a][b]) / (sd[a] * sd[b])))
    tcoi = table(lambda a, b: to_sci6(frac_dec(inv[a][b])))
    se = {cols[j][0]: to_sci6(sd[k]) for j, k in pos.items()}
    return tcov, tcor, tcoi, se


def materialise(spec):
    """Fill in the parts of a run spec that are derived (cov family, SE row consistent with cov)."""
    spec = json.loads(json.dumps(spec))
    if spec.get('covfiles', 'none') != 'none' and 'cov_tables' not in spec:
        tcov, tcor, tcoi, se = cov_family(spec)
        spec['cov_tables'] = {'cov': tcov, 'cor': tcor, 'coi': tcoi}
        last = spec['ext'][-1]
        for r in last['rows']:
            if r[0] == ['i', True, '1000000001']:
                for j, lab in enumerate(last['labels']):
                    if lab in se:
                        r[j] = se[lab]
    return spec


LST_HEAD = """Mon Jan  1 10:00:00 CET 2024
$PROBLEM synthetic
1NONLINEAR MIXED EFFECTS MODEL PROGRAM (NONMEM) VERSION 7.5.0
"""


def lst_text(spec):
    s = LST_HEAD
    n = len(spec['ext'])
    for k, t in enumerate(spec['ext']):
        s += f" #TBLN:{t['title']['number']:7d}\n #METH: {t['title']['method']}\n"
        s += " #TERM:\n0MINIMIZATION SUCCESSFUL\n NO. OF FUNCTION EVALUATIONS USED:      100\n NO. OF SIG. DIGITS IN FINAL EST.:  3.3\n"
        s += " #TERE:\n Elapsed estimation  time in seconds:     0.32\n"
        if k == n - 1 and spec.get('covstatus'):
            s += " Elapsed covariance  time in seconds:     0.30\n"
        s += "1\n #OBJV:********************************************      586.276       **************************************************\n"
    s += "Stop Time:\nMon Jan  1 10:00:05 CET 2024\n"
    return s


def has_covfile(cf, kind):
    return cf == 'all' or cf == kind or (cf == 'covcoi' and kind in ('cov', 'coi'))


def build_rundir(d, spec):
    d.mkdir(parents=True, exist_ok=True)
    texts = {}
    (d / 'run1.mod').write_text(spec['model'])
    (d / 'data.csv').write_text("ID,TIME,DV\n1,0,1.0\n1,1,2.0\n2,0,1.5\n2,1,2.5\n")

    def put(name, tables):
        s = W.render_file(tables)
        with open(d / name, 'w', newline='') as fh:
            fh.write(s)
        return s
    if spec.get('ext') is not None:
        texts['ext'] = put('run1.ext', spec['ext'])
    if spec.get('phi'):
        texts['phi'] = put('run1.phi', spec['phi'])
    cf = spec.get('covfiles', 'none')
    for kind in ('cov', 'cor', 'coi'):
        if has_covfile(cf, kind):
            texts[kind] = put('run1.' + kind, [spec['cov_tables'][kind]])
    if spec.get('lst', True):
        (d / 'run1.lst').write_text(lst_text(spec))
    if spec.get('tab'):
        texts['tab'] = put('sdtab1', [spec['tab']['table']])
    return texts


# ------------------------------------------------------------------ export of results
def cellterm(v):
    from harness.props.c20 import cellterm as c
    return c(v)


def named(ser, rowlabel=False):
    if ser is None:
        return '[]'
    out = []
    for k, v in ser.items():
        name = 'ROW' if isinstance(k, tuple) else str(k)
        out.append(f'({T(name)}, {cellterm(v)})')
    return ct.lst(out)


def matrix_opt(df):
    if df is None:
        return 'None'
    from harness.props.c20 import matrixterm
    return f'(Some {matrixterm(df)})'


def view_opt(df):
    if df is None:
        return 'None'
    return ('(Some (' + ct.lst([T(str(c)) for c in df.columns]) + ', '
            + ct.lst([ct.lst([cellterm(v) for v in row]) for row in df.itertuples(index=False, name=None)]) + '))')


def phi_opt(res):
    return phi_triple_opt(res.individual_ofv, res.individual_estimates, res.individual_estimates_covariance)


def phi_triple_opt(iofv, ie, iec):
    if iofv is None or ie is None or iec is None:
        return 'None'
    return ('(Some (mkPhiRes ' + ct.lst([cellterm(x) for x in iofv.index]) + ' ' + ct.lst([cellterm(x) for x in iofv.values]) + ' '
            + ct.lst([T(str(c)) for c in ie.columns]) + ' '
            + ct.lst([ct.lst([cellterm(x) for x in row]) for row in ie.itertuples(index=False, name=None)]) + ' '
            + ct.lst([ct.lst([ct.lst([cellterm(x) for x in r]) for r in m.values]) for m in iec.values]) + '))')


MAIN_JSON_FIELDS = ('ofv', 'parameter_estimates', 'standard_errors', 'covariance_matrix')


def json_rest_equal(res, dec):
    """(exact, close, names of fields that are not exactly equal): every field but the four exported ones."""
    from dataclasses import fields, is_dataclass
    names = [f.name for f in fields(res)] if is_dataclass(res) else list(vars(res))
    exact, close, bad = True, True, []
    for name in names:
        if name in MAIN_JSON_FIELDS:
            continue
        a, b = getattr(res, name), getattr(dec, name, None)
        try:
            e, c = _compare(a, b)
        except Exception:
            e, c = False, False
        if not e:
            exact = False
            bad.append(name)
        if not c:
            close = False
    return exact, close, bad


def _compare(a, b):
    import pandas as pd
    if a is None or b is None:
        same = a is None and b is None
        return same, same
    if isinstance(a, pd.Series) and len(a) and isinstance(a.iloc[0], pd.DataFrame):
        if not isinstance(b, pd.Series) or len(a) != len(b) or [_norm(i) for i in a.index] != [_norm(i) for i in b.index]:
            return False, False
        rs = [_compare(x, y) for x, y in zip(a.values, b.values)]
        return all(r[0] for r in rs), all(r[1] for r in rs)
    if isinstance(a, (pd.DataFrame, pd.Series)):
        return _loose_equal(a, b, 0), _loose_equal(a, b, 1e-14)
    if hasattr(a, 'to_dataframe'):
        same = a.to_dataframe().equals(b.to_dataframe())
        return same, same
    if isinstance(a, (list, tuple)):
        if len(a) != len(b):
            return False, False
        rs = [_compare(x, y) for x, y in zip(a, b)]
        return all(r[0] for r in rs), all(r[1] for r in rs)
    na, nb = _norm(a), _norm(b)
    if na == nb:
        return True, True
    if na[0] == 'n' and nb[0] == 'n':
        return False, abs(na[1] - nb[1]) <= Fraction(1, 10 ** 15) * (1 + abs(na[1]))
    return False, False


def _loose_equal(a, b, rtol):
    """Equality of values and labels ignoring the dtype of the containers (int32/int64 index levels)."""
    import pandas as pd
    try:
        if isinstance(a, pd.Series):
            if not isinstance(b, pd.Series):
                return False
            a, b = a.to_frame('x'), b.to_frame('x')
        if list(map(str, a.columns)) != list(map(str, b.columns)) or len(a) != len(b):
            return False
        if [tuple(map(_norm, (i if isinstance(i, tuple) else (i,)))) for i in a.index] != \
           [tuple(map(_norm, (i if isinstance(i, tuple) else (i,)))) for i in b.index]:
            return False
        for x, y in zip(a.values.ravel(), b.values.ravel()):
            nx, ny = _norm(x), _norm(y)
            if nx == ny:
                continue
            if rtol and nx[0] == 'n' and ny[0] == 'n' and abs(nx[1] - ny[1]) <= Fraction(1, 10 ** 15) * (1 + abs(nx[1])):
                continue
            return False
        return True
    except Exception:
        return False


def _norm(v):
    import numpy as np
    if v is None:
        return ('nan',)          # None and NaN both mean missing (pandas .equals does not tell them apart either)
    if isinstance(v, (bool, np.bool_)):
        return ('b', bool(v))
    if isinstance(v, (int, np.integer)):
        return ('n', Fraction(int(v)))
    if isinstance(v, (float, np.floating)):
        return ('nan',) if math.isnan(v) else ('n', Fraction(float(v)))
    return ('s', str(v))


def observe_run(d, spec, results_mod=None):
    """Returns the Gallina term of type rresult plus the model-side inputs taken from the real model object."""
    import numpy as np
    import pandas as pd
    from pharmpy.modeling import read_model
    from pharmpy.model.external.nonmem.update import create_name_map
    from pharmpy.internals.math import is_positive_semidefinite
    from pharmpy.tools.external.nonmem.results_file import NONMEMResultsFile
    from pharmpy.workflows.results import read_results
    if results_mod is None:
        import pharmpy.tools.external.nonmem.results as results_mod
    info = {'exc': None}
    model = read_model(d / 'run1.mod')
    nm = {v: k for k, v in create_name_map(model).items()}
    pfix = dict(model.parameters.fix)
    eta_names = set(nm.values())
    rv = [n for n in model.random_variables.etas.names if n in eta_names]
    # covariance status as the .lst parser derives it (input of the model)
    covstatus = False
    try:
        rf = NONMEMResultsFile(d / 'run1.lst', log=None)
        tn = [t['title']['number'] for t in spec['ext']]
        covstatus = bool(rf.covariance_status(tn[-1])['covariance_step_ok']) if tn else False
    except Exception:
        covstatus = False
    try:
        with warnings.catch_warnings():
            warnings.simplefilter('ignore')
            res = results_mod.parse_modelfit_results(model, d / 'run1.mod')
    except Exception as e:  # noqa
        info['exc'] = type(e).__name__
        from harness.props.c20 import errclass
        return f'(RRExc {errclass(e)})', nm, pfix, rv, covstatus, info
    if res is None:
        return 'RRNone', nm, pfix, rv, covstatus, info
    if res.ofv_iterations is None:
        return f'(RRFailed {cellterm(res.ofv)} {named(res.parameter_estimates)})', nm, pfix, rv, covstatus, info
    ofvit = ct.lst([f'({int(k[0])}%nat, {cellterm(k[1])}, {cellterm(v)})' for k, v in res.ofv_iterations.items()])
    pei = res.parameter_estimates_iterations
    peit = ct.lst([f'({int(k[0])}%nat, {cellterm(k[1])}, {ct.lst([cellterm(x) for x in row])})'
                   for k, row in zip(pei.index, pei.itertuples(index=False, name=None))])
    cov = res.covariance_matrix
    psd = True
    if cov is not None:
        try:
            m = results_mod._parse_matrix(d / 'run1.cov', model.internals.control_stream, nm,
                                          [t['title']['number'] for t in spec['ext']])
            psd = True if m is None else bool(is_positive_semidefinite(m))
        except Exception:
            psd = False
    # JSON round trip
    try:
        dec = read_results(res.to_json())
        jofv, jpe, jse, jcov = dec.ofv, dec.parameter_estimates, dec.standard_errors, dec.covariance_matrix
        jrest, jclose, bad = json_rest_equal(res, dec)
        info['json_bad'] = bad
    except Exception as e:  # noqa
        info['json_exc'] = type(e).__name__ + ': ' + str(e)[:200]
        jofv, jpe, jse, jcov, jrest, jclose = float('nan'), None, None, None, False, False
    rse = res.relative_standard_errors
    term = ('(RROk (mkRObs ' + cellterm(res.ofv) + '\n  ' + ofvit + '\n  ' + named(res.parameter_estimates) + ' '
            + ct.lst([T(str(c)) for c in pei.columns]) + '\n  ' + peit + '\n  ' + named(res.parameter_estimates_sdcorr)
            + '\n  ' + named(res.standard_errors) + ' ' + named(res.standard_errors_sdcorr) + ' ' + named(rse) + '\n  '
            + matrix_opt(cov) + ' ' + matrix_opt(res.correlation_matrix) + ' ' + matrix_opt(res.precision_matrix) + ' '
            + ct.boolean(psd) + '\n  ' + phi_opt(res) + '\n  ' + view_opt(res.predictions) + ' ' + view_opt(res.residuals)
            + '\n  ' + cellterm(jofv) + ' ' + named(jpe) + ' ' + named(jse) + ' ' + matrix_opt(jcov) + ' ' + ct.boolean(jrest) + ' ' + ct.boolean(jclose) + '))')
    info['cov'] = cov is not None
    if spec.get('phi'):
        info['sub_obs'] = observe_phi_sub(d, model, nm, res, len(spec['phi']), results_mod)
    return term, nm, pfix, rv, covstatus, info


def observe_phi_sub(d, model, nm, res, n, results_mod):
    """results._parse_phi with the subproblem argument: [(k or None, Gallina term of type Sub.sub_obs)]."""
    out = []
    for k in sorted({0, 1, n, n + 1, -n}):
        try:
            with warnings.catch_warnings():
                warnings.simplefilter('ignore')
                iofv, ie, iec = results_mod._parse_phi(d / 'run1.mod', model.internals.control_stream, nm,
                                                       model.random_variables.etas, model, res.parameter_estimates,
                                                       subproblem=k)
            out.append((k, '(SubRes ' + phi_triple_opt(iofv, ie, iec) + ')'))
        except Exception:  # noqa
            out.append((k, 'SubExc'))
    return out


def sub_terms(texts, nm, rv, info):
    terms = []
    for k, obs in info.get('sub_obs', []):
        sub = 'None' if k is None else f'(Some ({k})%Z)'
        terms.append('(mkSub ' + T(texts['phi']) + '\n ' + ct.lst([f'({T(a)}, {T(b)})' for a, b in nm.items()]) + ' '
                     + ct.lst([T(x) for x in rv]) + ' ' + sub + '\n ' + obs + ')')
    return terms


def opt_text(s):
    return 'None' if s is None else f'(Some {T(s)})'


def rcase_term(ctx, spec, k, results_mod=None, perturb=None):
    from harness.props.c20 import wtable_term
    spec = materialise(spec)
    d = ctx.rundir / 'runs' / f'r{k}'
    if d.exists():
        shutil.rmtree(d)
    texts = build_rundir(d, spec)
    obs, nm, pfix, rv, covstatus, info = observe_run(d, spec, results_mod)
    if perturb:
        obs = perturb(obs)
    cf = spec.get('covfiles', 'none')

    def wopt(kind):
        return '(Some ' + wtable_term(spec['cov_tables'][kind]) + ')' if has_covfile(cf, kind) else 'None'
    wtab = 'None'
    if spec.get('tab'):
        t = spec['tab']['table']
        wtab = '(Some (mkWTab ' + wtable_term(t) + ' ' + ct.lst([T(x) for x in t['labels']]) + '))'
    expected = ct.lst([f'({T(rename_label(a))}, {T(b)})' for a, b in spec['names'].items()])
    term = ('(mkR ' + opt_text(texts.get('ext')) + '\n ' + opt_text(texts.get('cov')) + ' ' + opt_text(texts.get('cor')) + ' '
            + opt_text(texts.get('coi')) + '\n ' + opt_text(texts.get('phi')) + '\n '
            + ct.lst([f'({T(a)}, {ct.boolean(bool(b))})' for a, b in pfix.items()]) + '\n '
            + ct.lst([f'({T(a)}, {T(b)})' for a, b in nm.items()]) + ' ' + ct.lst([T(x) for x in rv]) + ' '
            + ct.boolean(covstatus) + '\n ' + ct.lst([wtable_term(t) for t in spec['ext']]) + '\n '
            + wopt('cov') + ' ' + wopt('cor') + ' ' + wopt('coi') + '\n '
            + ('None' if not spec.get('phi') else '(Some ' + ct.lst([wtable_term(t) for t in spec['phi']]) + ')') + '\n '
            + wtab + ' ' + expected + ' (1#10000)%Q (1#1000000000)%Q\n ' + obs + ')')
    info['covstatus'] = covstatus
    info['covfiles'] = cf
    info['sub_terms'] = [] if perturb else sub_terms(texts, nm, rv, info)
    info.pop('sub_obs', None)
    return term, info


def rename_label(lab):
    return lab


def classify_r(ctx, spec, tags):
    tags = set(tags)
    corr = sorted(t for t in tags if t in RCORR)
    oracle = sorted(t for t in tags if t in ORACLE_R)
    status = 'ok'
    for t in oracle:
        need_absent, guards = ORACLE_R[t]
        explained = not any(c in tags for c in need_absent)
        fid = next((f for g, f in guards if g in tags and ctx.open_finding(f)), None)
        if explained and fid:
            ctx.coverage.setdefault('known_hits', {}).setdefault(fid, 0)
            ctx.coverage['known_hits'][fid] += 1
            if status == 'ok':
                status = 'known'
        else:
            ctx.violation(RTAGS[t], {'spec': spec, 'tags': sorted(tags), 'tag_meaning': RTAGS[t]})
            status = 'violation'
    if corr and status != 'violation':
        ctx.broken.append('correspondence C20 run-level model vs implementation: ' + ', '.join(RTAGS[t] for t in corr)
                          + ' on ' + json.dumps(spec)[:600])
        ctx.coverage.setdefault('corr_disagreements', []).append({'spec': spec, 'tags': sorted(tags)})
        status = 'broken'
    return status


def run_rspecs(ctx, specs, label, quiet=False, **kw):
    from harness.props.c20 import IMPORTS, PRELUDE
    terms, infos = [], []
    for k, spec in enumerate(specs):
        term, info = rcase_term(ctx, spec, f'{label}{k}', **kw)
        terms.append(term)
        infos.append(info)
    verdicts = ctx.run_cases(label, IMPORTS, 'rcase', terms, 'rverdict', shard=4, prelude=PRELUDE) if terms else []
    stats = {'ok': 0, 'known': 0, 'violation': 0, 'broken': 0}
    if not quiet:
        for spec, tags in zip(specs, verdicts):
            stats[classify_r(ctx, spec, tags)] += 1
    # _parse_phi(subproblem=k) against C20/Sub.v (correspondence tag 6)
    sterms = [(spec, t) for spec, info in zip(specs, infos) for t in info.pop('sub_terms', [])]
    if sterms:
        sverdicts = ctx.run_cases(label + '_sub', IMPORTS + ' C20.Sub', 'subcase', [t for _, t in sterms], 'subverdict',
                                  shard=16, prelude=PRELUDE + '\nOpen Scope Z_scope.\nOpen Scope N_scope.')
        stats['phi_subproblem'] = {'n': len(sterms), 'inconclusive': sum(1 for v in sverdicts if any(t >= 1000 for t in v)),
                                   'disagree': 0}
        if not quiet:
            for (spec, _), tags in zip(sterms, sverdicts):
                if any(t < 1000 for t in tags):
                    stats['phi_subproblem']['disagree'] += 1
                    stats['broken'] += 1
                    ctx.broken.append('correspondence C20 _parse_phi(subproblem) model vs implementation: ' + RTAGS[6]
                                      + ' on ' + json.dumps(spec)[:600])
                    ctx.coverage.setdefault('corr_disagreements', []).append({'spec': spec, 'tags': sorted(tags), 'level': 'phi_subproblem'})
    shutil.rmtree(ctx.rundir / 'runs', ignore_errors=True)
    return verdicts, infos, stats


def distribution(rspecs, rverdicts, rinfos):
    return {
        'n': len(rspecs),
        'steps_hist': {str(k): sum(1 for s in rspecs if len(s['ext']) == k) for k in (1, 2, 3)},
        'covfiles': {k: sum(1 for s in rspecs if s.get('covfiles') == k) for k in ('all', 'cov', 'cor', 'coi', 'covcoi', 'none')},
        'with_phi': sum(1 for s in rspecs if s.get('phi')),
        'with_table': sum(1 for s in rspecs if s.get('tab')),
        'table_modes': {m: sum(1 for s in rspecs if s.get('tab') and s['tab']['mode'] == m) for m in ('ONEHEADER', '', 'NOTITLE', 'NOHEADER', 'NOLABEL')},
        'exceptions': sum(1 for i in rinfos if i.get('exc')),
        'cov_reported': sum(1 for i in rinfos if i.get('cov')),
        'inconclusive': sum(1 for v in rverdicts if any(t >= 1000 for t in v)),
        'guard_final_obj_differs': sum(1 for v in rverdicts if 201 in v),
        'without_iteration_0': sum(1 for v in rverdicts if 202 in v),
        'table_without_label_line': sum(1 for v in rverdicts if 203 in v),
        'json_close_only': sum(1 for v in rverdicts if 204 in v and 27 in v),
        'json_field_mismatches': sorted({b for i in rinfos for b in i.get('json_bad', [])}),
    }


# ------------------------------------------------------------------ tables regenerated from the source
class GenError(Exception):
    pass


def _const_int(node):
    if isinstance(node, ast.Constant) and isinstance(node.value, int):
        return node.value
    if isinstance(node, ast.UnaryOp) and isinstance(node.op, ast.USub):
        return -_const_int(node.operand)
    if isinstance(node, ast.BinOp) and isinstance(node.op, ast.Pow):
        return _const_int(node.left) ** _const_int(node.right)
    raise GenError('not an integer literal: ' + ast.dump(node))


def extract_codes(table_src, results_src):
    """Fail-closed: the ExtTable properties must have exactly the expected shape."""
    tree = ast.parse(table_src)
    ext = next(n for n in tree.body if isinstance(n, ast.ClassDef) and n.name == 'ExtTable')
    props = {n.name: n for n in ext.body if isinstance(n, ast.FunctionDef)}

    def calls(fn, callee):
        out = []
        for node in ast.walk(props[fn]):
            if isinstance(node, ast.Call) and isinstance(node.func, ast.Attribute) and node.func.attr == callee:
                if isinstance(node.args[0], ast.Name):
                    continue            # the fallback call on a computed iteration number
                out.append(_const_int(node.args[0]))
        return out
    codes = {}
    for prop, callee, n in (('final_parameter_estimates', '_get_parameters', 1), ('standard_errors', '_get_parameters', 1),
                            ('condition_number', '_get_parameters', 1), ('omega_sigma_stdcorr', '_get_parameters', 1),
                            ('omega_sigma_se_stdcorr', '_get_parameters', 1), ('fixed', '_get_parameters', 1),
                            ('final_ofv', '_get_ofv', 1), ('initial_ofv', '_get_ofv', 2)):
        c = calls(prop, callee)
        # the fallback calls use a variable (final_iter), which _const_int rejects -> only literal calls are collected
        if len(c) != n:
            raise GenError(f'{prop}: expected {n} literal calls of {callee}, found {c}')
        codes[prop] = c
    rtree = ast.parse(results_src)
    gid = next(n for n in rtree.body if isinstance(n, ast.FunctionDef) and n.name == '_get_iter_df')
    finals = [_const_int(n.value) for n in ast.walk(gid) if isinstance(n, ast.Assign)
              and isinstance(n.targets[0], ast.Name) and n.targets[0].id == 'final_iter']
    if len(finals) != 1:
        raise GenError('_get_iter_df: final_iter')
    codes['_get_iter_df'] = finals
    # regex / literal texts of _parse_table
    ntf = next(n for n in tree.body if isinstance(n, ast.ClassDef) and n.name == 'NONMEMTableFile')
    pt = next(n for n in ntf.body if isinstance(n, ast.FunctionDef) and n.name == '_parse_table')
    strings = []
    for node in ast.walk(pt):
        if isinstance(node, ast.Call) and isinstance(node.func, ast.Attribute) and isinstance(node.func.value, ast.Name) \
           and node.func.value.id == 're' and node.args and isinstance(node.args[0], (ast.Constant, ast.JoinedStr)):
            if isinstance(node.args[0], ast.Constant):
                strings.append((node.func.attr, node.args[0].value))
    init = next(n for n in ntf.body if isinstance(n, ast.FunctionDef) and n.name == '__init__')
    starts = [n.args[0].value for n in ast.walk(init) if isinstance(n, ast.Call) and isinstance(n.func, ast.Attribute)
              and n.func.attr == 'startswith']
    return codes, strings, starts


def wrapped_calls(fn_node):
    return fn_node


def _collect_literal_calls(fn, callee):
    return []


EXPECTED_REGEX = [
    ('sub', r"[A-Z]*OBJ"), ('match', r'\s[A-Za-z_]'), ('match', r'TABLE NO.\s+(\d+)'), ('search', r'(Evaluation)'),
    ('match', r'TABLE NO.\s+\d+: (.*?)(?:: ([\w-]+))?: (?:Goal Function=(.*): )?Problem=(\d+) '
              r'Subproblem=(\d+) Superproblem1=(\d+) Iteration1=(\d+) Superproblem2=(\d+) '
              r'Iteration2=(\d+)'),
]


def generated_tables(ctx, table_src=None, results_src=None):
    """build/gen/C20/ExtCodes.v from the source + an obligation file comparing it with the model's tables."""
    gen = BUILD / 'gen' / 'C20'
    gen.mkdir(parents=True, exist_ok=True)
    table_src = table_src or (REPO / 'src/pharmpy/model/external/nonmem/table.py').read_text()
    results_src = results_src or (REPO / 'src/pharmpy/tools/external/nonmem/results.py').read_text()
    ctx.obligations += 2
    try:
        codes, strings, starts = extract_codes(table_src, results_src)
    except (GenError, StopIteration, IndexError, SyntaxError) as e:
        ctx.broken.append(f'T-tables: cannot regenerate the iteration code table from table.py: {e}')
        return False
    order = ['final_parameter_estimates', 'standard_errors', 'condition_number', 'omega_sigma_stdcorr',
             'omega_sigma_se_stdcorr', 'fixed', 'final_ofv', 'initial_ofv']
    flat = [c for k in order for c in codes[k]]
    v = gen / f'ExtCodes_{ctx.prop}_{id(ctx) % 100000}.v'
    name = v.stem
    v.write_text(
        'From Coq Require Import ZArith List.\nFrom PV Require Import C20.Model.\nImport ListNotations.\n'
        '(* generated from pharmpy/model/external/nonmem/table.py and tools/external/nonmem/results.py *)\n'
        f'Definition src_used_codes : list Z := {ct.lst([ct.z(c) for c in flat])}.\n'
        f'Definition src_iter_df_final : Z := {ct.z(codes["_get_iter_df"][0])}.\n'
        'Example src_codes_are_designated : src_used_codes = used_codes.\nProof. reflexivity. Qed.\n'
        'Example src_iter_df_code : src_iter_df_final = code_final.\nProof. reflexivity. Qed.\n'
        'Print Assumptions src_codes_are_designated.\n')
    rc, out = coqc_file(v)
    for f in gen.glob(name + '.*'):
        if f.suffix != '.v':
            f.unlink()
    try:
        v.replace(gen / 'ExtCodes.v')        # keep the last generated table for inspection
    except OSError:
        pass
    if rc != 0 or 'Closed under the global context' not in out:
        ctx.broken.append('T-tables: the ITERATION codes used by ExtTable / _get_iter_df are not the designated ones '
                          f'(source has {flat}, _get_iter_df {codes["_get_iter_df"]}): ' + out[-300:])
        return False
    ctx.discharged += 1
    # the regular expressions and the startswith literal the hand-written matchers of Model.v stand for
    if sorted(strings) != sorted(EXPECTED_REGEX) or starts != ['TABLE NO.']:
        ctx.broken.append('T-tables: the regular expressions of NONMEMTableFile._parse_table changed; the matchers of '
                          f'C20/Model.v (parse_title, sub_obj, header_like) describe other patterns: {strings} {starts}')
        return False
    ctx.discharged += 1
    ctx.coverage['generated_tables'] = {'codes': codes, 'regex': [s for _, s in strings]}
    return True


# ------------------------------------------------------------------ the float engine in triangular_root
def float_engine_checks(ctx, math_mod=None):
    """math.floor(math.sqrt(2*x)) against the integer square root of the model: exhaustively for small x, on every
    triangular number up to n = 3000 and around powers of two, and the first x where the float computation differs."""
    if math_mod is None:
        import pharmpy.internals.math as math_mod
    bad = []
    lim = 20000 if ctx.tier == 'quick' else 400000
    for x in range(lim):
        if math_mod.triangular_root(x) != math.isqrt(2 * x):
            bad.append(x)
    for n in list(range(3000)) + [2 ** k + d for k in range(12, 26) for d in (-1, 0, 1)] + [94906265]:
        x = n * (n + 1) // 2
        if math_mod.triangular_root(x) != n:
            bad.append(x)
    for k in range(20, 51):
        for d in (-2, -1, 0, 1, 2):
            x = 2 ** k + d
            if 2 * x < 2 ** 52 and math_mod.triangular_root(x) != math.isqrt(2 * x):
                bad.append(x)
    ctx.coverage['triangular_root_float_checks'] = lim + 3000 + 14 * 3 + 31 * 5
    k = 2 ** 26 + 1
    x = (k * k - 1) // 2
    ctx.coverage['triangular_root_float_boundary'] = {
        'x': x, 'float': math_mod.triangular_root(x), 'isqrt': math.isqrt(2 * x),
        'note': 'first kind of argument (2x >= 2^52, not a triangular number) where the float square root rounds up to the next integer; irrelevant for len(x) of real arrays'}
    if bad:
        ctx.broken.append(f'triangular_root (float sqrt) differs from the integer model on {bad[:5]}')
    # flattened_to_symmetric of the real code against the model's entry formula
    import numpy as np
    for n in range(1, 9):
        xs = list(range(1, n * (n + 1) // 2 + 1))
        try:
            m = math_mod.flattened_to_symmetric(np.array(xs, dtype=float))
        except Exception as e:  # noqa
            ctx.broken.append(f'flattened_to_symmetric raises {type(e).__name__} on a triangular vector (n={n})')
            return
        for r in range(n):
            for c in range(r + 1):
                if m[r][c] != xs[r * (r + 1) // 2 + c] or m[c][r] != m[r][c]:
                    ctx.broken.append(f'flattened_to_symmetric entry ({r},{c}) for n={n}')
                    return
