"""C03 — control streams round-trip losslessly; edits touch only what changed.
Model: coq/theories/C03 (Model.v, Check.v); theorems in Properties.v / Refuted.v.
Tie: (a) literal tables and regex constants regenerated from source (c03_tables.py, fail closed);
(b) correspondence of the hand-written model with the real NMTranParser / record factory / lark trees /
with_ignored_tokens / NMTranControlStream edit methods on generated control streams (comparison in Coq);
(c) the property statements evaluated on the implementation's own outputs (str(parse(T)) == T, update_source
identity, frame preservation after single-component edits)."""
import json
import os
import random
import time

from harness.lib import coqterm as ct
from harness.lib.core import BUILD, VERIF, coqc_file, source_sha
from harness.props import c03_gen as gen
from harness.props import c03_oracle as oracle
from harness.props import c03_tables as tables

LEVEL = 'proof'
IMPORTS = 'Base.PyData C03.Model C03.Check'

TAGS = {
    1: 'record splitting differs from model', 2: 'record name / canonical name / record kind differs from model',
    3: 'lark position contract violated by a real parse tree', 4: 'tree with ignored tokens differs from model',
    5: 'error behaviour of NMTranParser.parse differs from model', 6: 'post_process of a parser class differs from the tables',
    7: 'control-stream edit result differs from model', 10: 'CodeRecord.update_statements keeps other nodes than the model',
    8: 'AttrTree.__str__ differs from model str',
    9: 'unexpected exception class from the implementation', 29: 'OptionRecord edit result differs from model',
    31: 'set_option did not set the value of the existing option',
    32: 'an OptionRecord edit method raised an internal error (IndexError / NoSuchRuleException)',
    11: 'str(parse(T)) != T', 12: 'str(record.root) != content given to the record parser',
    13: 'control-stream edit changed or reordered records it should not touch',
    14: 'update_source() of an unmodified model changes the code',
    15: 'a single-component edit changed records of an unrelated kind',
    16: 'an edit lost or reordered a comment / verbatim line that stands between the statements of a code record',
}
CORR = (1, 2, 3, 4, 5, 6, 7, 8, 9, 29)
ORACLE = (11, 12, 13, 31, 32)

OKCHARS = set(range(32, 127)) - {ord('"')} | {10, 9}


def enc(s):
    """Python str -> Gallina term of type text (code points)."""
    if all(ord(c) in OKCHARS for c in s):
        return '(T "' + s + '")'
    return '[' + '; '.join(str(ord(c)) for c in s) + ']'


# ------------------------------------------------------------------ instrumentation of the real classes
class Instr:
    """Harness-side instrumentation: wraps the `lark` attribute of every record parser class (to see the
    raw parse tree with positions) and nmtran_parser.create_record (to see the chunks).  Nothing in /repo is edited."""

    def __init__(self):
        from pharmpy.internals.parse.ignored import with_ignored_tokens
        from pharmpy.internals.parse.missing import InsertMissing
        from pharmpy.model.external.nonmem import nmtran_parser
        from pharmpy.model.external.nonmem.records import factory, parsers
        self.nmtran_parser = nmtran_parser
        self.factory = factory
        self.real_create = factory.create_record
        self.names = ct.Names(start=5)
        self.names.ids.update({'WS': 1, 'COMMENT': 2, 'NEWLINE': 3, 'CONT': 4})
        for n in ('theta', 'init', 'up', 'low', 'init_or_low'):
            self.names.get(n)
        self.sink = None
        self.parser_classes = []
        for _, (_, P) in factory.known_records.items():
            if P not in self.parser_classes:
                self.parser_classes.append(P)
        self.steps = {}
        for P in self.parser_classes:
            ss = []
            for proc in P.post_process:
                if isinstance(proc, InsertMissing):
                    dicts = []
                    for d in proc._missing:
                        items = []
                        for rule, children in d.items():
                            self.names.get(rule)
                            for _, nm in children:
                                self.names.get(nm)
                            items.append(f'({enc(rule)}, ' + ct.lst([f'({ct.nat(pos)}, {enc(nm)})' for pos, nm in children]) + ')')
                        dicts.append(ct.lst(items))
                    ss.append('StepInsertMissing ' + ct.lst(dicts))
                elif isinstance(proc, parsers.InitOrLow):
                    ss.append('StepInitOrLow')
                elif proc is with_ignored_tokens:
                    ss.append('StepInterleave')
                else:
                    raise RuntimeError(f'unknown post processor {proc!r} in {P.__name__}')
            self.steps[P.__name__] = ss
            P.lark = _LarkProxy(P.lark, self, P.__name__)

    # -- serialisation
    def ser_lark(self, t):
        from lark import Tree
        if isinstance(t, Tree):
            m = t.meta
            if getattr(m, 'empty', True) or getattr(m, 'start_pos', None) is None:
                meta = 'None'
            else:
                meta = f'(Some ({m.start_pos}, {m.end_pos}))'
            return f'(Tree {self.names.get(str(t.data))} {meta} [' + '; '.join(self.ser_lark(c) for c in t.children) + '])'
        pos = 'None' if t.start_pos is None else f'(Some ({t.start_pos}, {t.end_pos}))'
        return f'(Tok {self.names.get(str(t.type))} {pos} {enc(str(t))})'

    def ser_attr(self, t):
        from pharmpy.internals.parse import AttrTree
        if isinstance(t, AttrTree):
            return f'(Tree {self.names.get(str(t.rule))} None [' + '; '.join(self.ser_attr(c) for c in t.children) + '])'
        return f'(Tok {self.names.get(str(t.rule))} None {enc(str(t.value))})'

    def prelude(self):
        names = ct.lst([f'({enc(n)}, {i}%positive)' for n, i in sorted(self.names.ids.items(), key=lambda kv: kv[1])])
        steps = ct.lst([f'({enc(p)}, {ct.lst(ss)})' for p, ss in self.steps.items()])
        return ('From Coq Require Import String.\nLocal Open Scope N_scope.\n'
                f'Definition names : list (text * positive) := {names}.\n'
                f'Definition steps : list (text * list step) := {steps}.\n')

    # -- the two runs of the real parser
    def all_chunks(self, text):
        """The real NMTranParser.parse with create_record replaced by a stub: the complete chunk list."""
        chunks = []

        class Stub:
            name = 'X'

        def stub(chunk):
            chunks.append(chunk)
            return Stub()
        self.nmtran_parser.create_record = stub
        try:
            cs = self.nmtran_parser.NMTranParser().parse(text)
        finally:
            self.nmtran_parser.create_record = self.real_create
        first = ''
        if cs.records and not isinstance(cs.records[0], Stub):
            first = cs.records[0].content
        return first, chunks

    def real_parse(self, text):
        """The real parse; returns (stream or None, error class, per-chunk observations)."""
        import lark
        from pharmpy.model import ModelSyntaxError
        obs = []

        def wrapper(chunk):
            self.sink = []
            try:
                rec = self.real_create(chunk)
            except BaseException as e:
                obs.append((chunk, None, list(self.sink), e))
                raise
            finally:
                sink, self.sink = self.sink, None
            obs.append((chunk, rec, sink, None))
            return rec
        self.nmtran_parser.create_record = wrapper
        cs, err = None, 0
        try:
            cs = self.nmtran_parser.NMTranParser().parse(text)
        except ModelSyntaxError as e:
            err = 1 if str(e).startswith('Bad record name') else (4 if 'SIZES record must come before' in str(e) else 9)
        except lark.exceptions.LarkError:
            err = 2
        except (AssertionError, AttributeError):
            err = 3
        except Exception:
            err = 9
        finally:
            self.nmtran_parser.create_record = self.real_create
        return cs, err, obs


class _LarkProxy:
    def __init__(self, real, instr, pname):
        self._real = real
        self._instr = instr
        self._pname = pname

    def parse(self, buf, *a, **kw):
        t = self._real.parse(buf, *a, **kw)
        if self._instr.sink is not None:
            self._instr.sink.append((self._pname, buf, self._instr.ser_lark(t)))
        return t

    def __getattr__(self, name):
        return getattr(self._real, name)


_INSTR = None


def instr():
    global _INSTR
    if _INSTR is None:
        _INSTR = Instr()
    return _INSTR


# ------------------------------------------------------------------ control-stream edits (tie of section 7 of the model)
def gen_edits(rng, cs, ins):
    """Random calls of the four edit methods on the parsed stream; returns list of Gallina edit_obs terms + stats."""
    from pharmpy.model.external.nonmem.records.raw_record import RawRecord
    idmap = {}
    keep_alive = []

    def rid(r):
        if id(r) not in idmap:
            idmap[id(r)] = len(idmap) + 1
            keep_alive.append(r)
        return idmap[id(r)]

    def recs(rs):
        return ct.lst([f'({rid(r)}%positive, {enc(r.name)})' for r in rs])

    def fresh(kind=None):
        kind = kind or rng.choice(gen.KINDS + ['UNKNOWN'])
        for _ in range(4):
            if kind == 'UNKNOWN':
                return RawRecord(' NSPOP=2\n', rng.choice(gen.UNKNOWN), '$' + rng.choice(gen.UNKNOWN))
            chunk = '$' + kind + gen.rec_content(rng, kind, False)
            try:
                return ins.real_create(chunk)
            except Exception:
                continue
        return RawRecord(' x\n', kind, '$' + kind)

    out, kinds = [], []
    records = list(cs.records)
    present = [r.name for r in records]
    for _ in range(rng.choice([2, 3, 4])):
        k = rng.choice([1, 1, 2, 3, 4, 4])
        at = None
        name = ''
        old, new = [], []
        try:
            if k == 1:
                new = [fresh(rng.choice(present) if present and rng.random() < 0.4 else None)]
                if rng.random() < 0.3:
                    at = rng.randint(0, len(records) + 1)
                after = cs.insert_record(new[0], at_index=at).records
            elif k == 2:
                old = rng.sample(records, min(len(records), rng.choice([0, 1, 1, 2, 3])))
                if rng.random() < 0.2:
                    old.append(fresh())
                after = cs.remove_records(old).records
            elif k == 3:
                old = rng.sample(records, min(len(records), rng.choice([0, 1, 1, 2])))
                if rng.random() < 0.15:
                    old = [fresh()]
                new = [fresh() for _ in range(rng.choice([0, 1, 1, 2]))]
                after = cs.replace_records(old, new).records
            else:
                name = rng.choice(present) if present and rng.random() < 0.6 else rng.choice(gen.KINDS + ['MSFI', 'PRIOR'])
                new = [fresh(name if rng.random() < 0.8 else None) for _ in range(rng.choice([0, 1, 1, 2]))]
                if rng.random() < 0.3:
                    new += [r for r in records if r.name == name][:1]      # keep one existing record (as update_abbr_record does)
                after = cs.replace_all(name, new).records
        except ValueError:
            after = None
        out.append(f'(mkEdit {k} {recs(records)} {recs(new)} {recs(old)} {enc(name)} '
                   f'{ct.opt(None if at is None else ct.nat(at))} {"None" if after is None else "(Some " + recs(after) + ")"})')
        kinds.append(k if after is not None else -k)
    return out, kinds


# ------------------------------------------------------------------ option-record edits (tie of section 11 of the model)
def gen_opt_edits(rng, cs, ins, explicit=()):
    """Direct calls of the OptionRecord edit methods on the real option records of the parsed stream."""
    from pharmpy.internals.parse import NoSuchRuleException
    from pharmpy.model.external.nonmem.records.option_record import OptionRecord
    recs = [r for r in cs.records if isinstance(r, OptionRecord)]
    out, kinds = [], []
    for name in ('option', 'KEY', 'VALUE', 'EQUAL'):
        ins.names.get(name)
    def run_op(rec, kind, key, oval, new):
        after, exc = None, 0
        try:
            if kind == 1:
                res = rec.set_option(key, oval)
            elif kind == 2:
                res = rec.remove_option(key)
            elif kind == 3:
                res = rec.append_option(key, oval)
            elif kind == 4:
                res = rec.prepend_option(key, oval)
            elif kind == 5:
                res = rec.replace_option(key, new)
            else:
                res = rec.remove_nth_option(key, kind - 6)
            after = res.root.children
        except IndexError:
            exc = 1
        except (NoSuchRuleException, AttributeError):
            exc = 2
        except Exception:
            exc = 9
        kids = lambda ch: ct.lst([ins.ser_attr(c) for c in ch])
        out.append(f'(mkOpt {kind} {kids(rec.root.children)} {enc(key)} {ct.opt(None if oval is None else enc(oval))} {enc(new)} '
                   f'{"None" if after is None else "(Some " + kids(after) + ")"} {exc})')
        kinds.append(kind if exc == 0 else -kind)

    for ri, kind, key, oval, new in explicit:
        if ri < len(recs):
            run_op(recs[ri], kind, key, oval, new)
    for rec in rng.sample(recs, min(len(recs), 3)):
        keys, after_nl = [], []
        prev = None
        for c in rec.root.children:
            if getattr(c, 'rule', None) == 'option' and hasattr(c, 'children'):
                k = [t for t in c.children if t.rule == 'KEY']
                if k:
                    keys.append(str(k[0].value))
                    if prev is not None and prev.rule in ('NEWLINE', 'COMMENT'):
                        after_nl.append(str(k[0].value))
            prev = c
        if after_nl:
            run_op(rec, 2, rng.choice(after_nl), None, '')          # an option that follows a NEWLINE / COMMENT child
        if rec.root.children and rec.root.children[-1].rule == 'WS':
            run_op(rec, 3, 'APPENDED', rng.choice([None, '1']), '')  # trailing blank space is dropped by append_option
        for _ in range(rng.choice([1, 2, 3])):
            kind = rng.choice([1, 1, 2, 2, 3, 4, 5, 6, 6, 7, 8])          # 6 + n: remove_nth_option(key, n)
            key = rng.choice(keys) if keys and rng.random() < 0.75 else rng.choice(['NEWOPT', 'MAXEVAL', 'FILE', 'X'])
            if kind >= 6 and keys and rng.random() < 0.5:
                key = key + rng.choice(['S', 'ATION', '1'])          # the option's key only has to be a prefix of `key`
            val = rng.choice(['1', '99', 'abc.tab', '(1,2)'])
            new = rng.choice(['METH', 'NEWKEY', 'Z9'])
            oval = val if kind in (1,) or (kind in (3, 4) and rng.random() < 0.6) else None
            run_op(rec, kind, key, oval, new)
    return out, kinds


# ------------------------------------------------------------------ one case
def observe(text, rng_edits=None, opt_ops=()):
    """Run the implementation on a text; returns (Gallina case term, info)."""
    ins = instr()
    info = {'len': len(text)}
    first, chunks = ins.all_chunks(text)
    cs, err, obs = ins.real_parse(text)
    recs = []
    for chunk, rec, sink, exc in obs:
        lark_t = 'None'
        pname = ''
        if sink:
            pname, buf, lark_t = sink[-1]
            lark_t = f'(Some {lark_t})'
        if rec is None:
            if not pname:
                # which parser would have been used (only needed when lark itself refused)
                try:
                    rn, _ = ins.factory.split_raw_record_name(chunk)
                    cn = ins.factory.get_canonical_record_name(rn)
                    pname = ins.factory.known_records[cn][1].__name__ if cn else ''
                except Exception:
                    pname = ''
            recs.append(f'(mkRec 0 [] [] [] {enc(pname)} {lark_t} None)')
        elif hasattr(rec, 'root'):
            recs.append(f'(mkRec 2 {enc(rec.name)} {enc(rec.raw_name)} [] {enc(pname)} {lark_t} (Some {ins.ser_attr(rec.root)}))')
        else:
            recs.append(f'(mkRec 1 {enc(rec.name)} {enc(rec.raw_name)} {enc(rec.content)} [] None None)')
    str_eq = (str(cs) == text) if cs is not None else False
    edits, ekinds, opts, okinds = [], [], [], []
    if cs is not None and rng_edits is not None:
        edits, ekinds = gen_edits(rng_edits, cs, ins)
        opts, okinds = gen_opt_edits(rng_edits, cs, ins, opt_ops)
    info.update(err=err, nrecs=len(chunks), nparsed=sum(1 for o in obs if o[1] is not None and hasattr(o[1], 'root')),
                kinds=sorted({o[1].name for o in obs if o[1] is not None}), edits=ekinds, str_eq=str_eq, opts=okinds)
    term = ('(mkCase ' + enc(text) + '\n ' + enc(first) + '\n ' + ct.lst([enc(c) for c in chunks]) + '\n '
            + ct.lst(recs) + f'\n {err} {ct.boolean(str_eq)} names steps\n ' + ct.lst(edits) + '\n ' + ct.lst(opts) + ')')
    return term, info


# ------------------------------------------------------------------ classification
# text-level findings: oracle tag -> (guard tag that must accompany every occurrence, finding id)
T_FINDINGS = {}      # no text-level finding is open (C03-SETOPTION-VALUELESS, C03-REMOVE-OPTION-FIRST are fixed)


def classify(ctx, spec, tags, info):
    count = {}
    for t in tags:
        count[t] = count.get(t, 0) + 1
    tags = set(tags)
    corr = sorted(t for t in tags if t in CORR)
    oracle = sorted(t for t in tags if t in ORACLE)
    status = 'ok'
    for t in oracle:
        guard, fid = T_FINDINGS.get(t, (None, None))
        # known only when the faithful model explains it (no tag 29), every failing call has its guard false, and the finding is open
        if fid and 29 not in tags and count[t] <= count.get(guard, 0) and open_finding(ctx, fid):
            ctx.coverage.setdefault('known_hits', {}).setdefault(fid, 0)
            ctx.coverage['known_hits'][fid] += 1
            if status == 'ok':
                status = 'known'
            continue
        ctx.violation(TAGS[t], {'spec': spec, 'tags': sorted(tags), 'tag_meaning': TAGS[t]})
        status = 'violation'
    if corr and status != 'violation':
        ctx.broken.append('correspondence C03 model vs implementation: ' + ', '.join(TAGS[t] for t in corr)
                          + ' on ' + json.dumps(spec)[:400])
        ctx.coverage.setdefault('corr_disagreements', []).append({'spec': spec, 'tags': sorted(tags)})
        status = 'broken'
    return status


def run_texts(ctx, specs, label, with_edits=True):
    terms, infos = [], []
    t0 = time.time()
    for k, spec in enumerate(specs):
        # the random edit calls of a case are reproducible from the spec alone
        spec.setdefault('edit_seed', f'{ctx.seed}-{label}-edits-{k}')
        term, info = observe(spec['text'], random.Random(spec['edit_seed']) if with_edits else None, spec.get('opt_ops', ()))
        terms.append(term)
        infos.append(info)
    ctx.log(f'{label}: observed {len(specs)} texts in {time.time() - t0:.1f}s; '
            f'{sum(len(t) for t in terms) // 1024} KiB of terms')
    verdicts = ctx.run_cases(label, IMPORTS, 'case', terms, 'verdict', shard=15, prelude=instr().prelude())
    stats = {'ok': 0, 'known': 0, 'violation': 0, 'broken': 0}
    for spec, tags, info in zip(specs, verdicts, infos):
        stats[classify(ctx, spec, tags, info)] += 1
    return verdicts, infos, stats


# ------------------------------------------------------------------ model-level oracle (update_source, single edits)
def call_term(c):
    def recs(rs):
        return ct.lst([f'({i}%positive, {enc(n)})' for i, n in rs])
    at = c['at']
    return (f"(mkEdit {c['k']} {recs(c['before'])} {recs(c['new'])} {recs(c['old'])} {enc(c['name'])} "
            f"{ct.opt(None if at is None else ct.nat(at))} {'None' if c['after'] is None else '(Some ' + recs(c['after']) + ')'})")


def srecs(rs):
    return ct.lst([f'({enc(n)}, {enc(s)})' for n, s, _ in rs])


def nonstmts(rs):
    """(record name, occurrence number, non-statement root children) for every code record that has some."""
    out, seen = [], {}
    for n, _, ns in rs:
        k = seen.get(n, 0)
        seen[n] = k + 1
        if ns:
            out.append(f'({enc(n)}, {ct.nat(k)}, {ct.lst([enc(x) for x in ns])})')
    return ct.lst(out)


def idx_list(ix):
    return ct.lst([f'({a}%nat, {b}%nat, {c}%nat, {d}%nat)' for a, b, c, d in ix])


def us_term(u):
    op = {-1: 'DDel', 0: 'DKeep', 1: 'DIns'}
    if any(k < 0 for k, _ in u['gen']):
        raise RuntimeError('update_statements generated nodes for a statement that is not in the diff script')
    return ('(mkUs ' + enc(u['name']) + ' ' + ct.lst([ct.boolean(b) for b in u['verb']]) + ' ' + idx_list(u['index']) + ' '
            + ct.lst([f'({op[o]}, {k}%nat)' for o, k in u['script']]) + ' '
            + ct.lst([f'({k}%nat, {n}%nat)' for k, n in u['gen']]) + ' '
            + ct.lst([f'{x}%nat' for x in u['result']]) + ' ' + idx_list(u['new_index']) + ')')


def sizes_opts_term(pairs):
    out = []
    for k, v in pairs:
        if k not in ('LTH', 'PC'):
            raise RuntimeError(f'unexpected option {k} in an inserted $SIZES record')
        out.append(f'(Opt{k} {v}%nat)')
    # the model lists PC before LTH (set_PC is called first)
    return ct.lst(sorted(out, key=lambda t: 0 if t.startswith('(OptPC') else 1))


def abbr_term(a):
    pairs = lambda ps: ct.lst([f'({enc(x)}, {enc(y)})' for x, y in ps])
    return ('(mkAbbr ' + ct.lst([f'({i + 1}%positive, {pairs(ps)})' for i, ps in enumerate(a['recs'])]) + ' ' + pairs(a['rv']) + ' '
            + ct.lst([f'{k}%positive' for k in a['kept']]) + ' ' + pairs(a['new']) + ')')


def step_term(st, allowed):
    after, calls = st['after'], st['calls']
    si = st.get('sizes_in')
    sizes_in = 'None' if si is None else f'(Some ({si[0]}%nat, {si[1]}%nat, {ct.boolean(si[2])}))'
    ins = ct.lst([sizes_opts_term(c['sizes']) for c in calls if c.get('sizes') is not None])
    return (f"(mkMStep {ct.lst([enc(a) for a in allowed])} {'None' if after is None else '(Some ' + srecs(after) + ')'} "
            + ct.lst([call_term(c) for c in calls]) + ' ' + ('[]' if after is None else nonstmts(after)) + ' '
            + ct.lst([us_term(u) for u in st['updates']]) + ' ' + sizes_in + ' ' + ins + ' ' + ct.boolean(st.get('reread', True))
            + ' ' + ct.lst([abbr_term(a) for a in st.get('abbr', [])]) + ' '
            + ct.lst([f'{i}%positive' for i in st.get('ids0', [])]) + ' ' + ct.lst([f'{i}%positive' for i in st.get('ids1', [])]) + ' '
            + ct.lst([enc(c) for c in st.get('comps', [])]) + ')')


def mcase_term(spec, out):
    return ('(mkMCase ' + enc(spec['text']) + ' ' + ct.boolean(out['code_eq']) + '\n ' + srecs(out['before']) + '\n '
            + nonstmts(out['before']) + '\n '
            + step_term(out['us'], []) + '\n '
            + ct.lst([step_term(e, e['allowed']) for e in out['edits']]) + '\n '
            + ct.lst([step_term(e, e['allowed']) for e in out.get('history', [])]) + '\n '
            + ct.lst([f'({i}%positive, {enc(n)}, {enc(t)})' for i, n, t in out.get('objs', [])]) + ')')


M_ORACLE = {14: TAGS[14], 15: TAGS[15], 16: TAGS[16], 18: 'model.code differs from the text right after reading',
            22: 're-reading the code after successive edits of a code record does not give the in-memory statements',
            28: 'records of a kind outside touched_kinds(changed components) changed'}


def open_finding(ctx, fid):
    """The staged entry (known_findings.d, read last) replaces the committed one with the same id."""
    last = None
    for f in ctx.findings:
        if f['id'] == fid:
            last = f
    return last if last is not None and last.get('status') == 'open' else None


def classify_model(ctx, spec, out, tags, report=True):
    """tags of one mcase (offset by 1000*step).  Returns a list of statuses, one per step."""
    steps = [{'name': 'update_source'}] + out['edits'] + out.get('history', [])
    nsteps = len(steps)
    statuses = []
    chain = {t - 1000 * nsteps for t in tags if t >= 1000 * nsteps}
    if 23 in chain and report:
        ctx.broken.append('correspondence C03: the index used by a later update_statements call of a history is not the one '
                          'the previous call stored, on ' + json.dumps(spec)[:300])
    for k in range(nsteps):
        ts = {t - 1000 * k for t in tags if 1000 * k <= t < 1000 * (k + 1)}
        label = steps[k]['name']
        corr = sorted(ts & {7, 10, 13, 21, 25, 26, 27})
        status = 'ok'
        fail = None
        if 18 in ts:
            fail = 18
        elif 14 in ts:
            fail = 14
        elif 15 in ts:
            fail = 15
        elif 16 in ts:
            fail = 16
        elif 22 in ts:
            fail = 22
        elif 28 in ts:
            fail = 28
        if fail is not None:
            # which open findings explain it: the exported real calls show the mechanism (tags 212..215), and the
            # difference must vanish when exactly that mechanism is discounted (tags 17, 19, 20)
            expl = []
            regroup, abbr = 212 in ts, (213 in ts or 214 in ts)
            abbr_id = 'C03-ABBR-THETA-DROP' if (215 in ts and fail == 14) else 'C03-ABBR-REWRITE'
            sizes = 216 in ts
            if fail in (14, 15) and sizes:
                # a $SIZES record was inserted: excused only when the model of update_sizes agrees that the model needs one
                # (217, and no disagreement 21) and nothing else differs (24)
                if 217 in ts and 21 not in ts and 24 not in ts and not regroup and not abbr:
                    expl = ['C03-SIZES-APPEND']
                if not all(open_finding(ctx, f) for f in expl):
                    expl = []
            elif fail in (14, 15):
                if regroup and not abbr and 19 not in ts:
                    expl = ['C03-REPLACE-ALL-REGROUP']
                elif abbr and not regroup and 17 not in ts:
                    expl = [abbr_id]
                elif abbr and regroup and 20 not in ts:
                    expl = ['C03-REPLACE-ALL-REGROUP', abbr_id]
                if not all(open_finding(ctx, f) for f in expl):
                    expl = []
            if expl:
                for fid in expl:
                    ctx.coverage.setdefault('known_hits', {}).setdefault(fid, 0)
                    ctx.coverage['known_hits'][fid] += 1
                status = 'known:' + '+'.join(expl)
            else:
                if report:
                    ctx.violation(f'{M_ORACLE[fail]} ({label})',
                                  {'spec': spec, 'step': label, 'tags': sorted(ts), 'tag_meaning': M_ORACLE[fail]})
                status = 'violation'
        elif 220 in ts:
            status = 'raised'
        if corr and status != 'violation':
            # model and real call disagree and no concrete failing input of the property was found
            if report:
                ctx.broken.append(f'correspondence C03 edit-method / update_statements model vs real call inside {label}: '
                                  f'tags {sorted(ts)} on ' + json.dumps(spec)[:300])
            status = 'broken'
        statuses.append(status)
    return statuses


def run_model_specs(ctx, specs, label, report=True):
    import multiprocessing as mp
    workdir = ctx.rundir / 'models'
    workdir.mkdir(parents=True, exist_ok=True)
    t0 = time.time()
    nproc = min(8, max(1, len(specs)))
    with mp.get_context('fork').Pool(nproc, initializer=oracle.init_worker) as pool:
        outs = pool.map(oracle.run_spec, [(i, s, str(workdir / label)) for i, s in enumerate(specs)], chunksize=2)
    ctx.log(f'{label}: ran {len(specs)} model specs in {time.time() - t0:.1f}s')
    for o in outs:
        if 'harness_error' in o:
            raise RuntimeError('oracle worker failed: ' + o['harness_error'])
    kept = [(s, o) for s, o in zip(specs, outs) if o.get('read_ok')]
    terms = [mcase_term(s, o) for s, o in kept]
    verdicts = ctx.run_cases(label, IMPORTS, 'mcase', terms, 'mverdict', shard=5,
                             prelude='From Coq Require Import String.\nLocal Open Scope N_scope.\n') if terms else []
    statuses = [classify_model(ctx, s, o, v, report) for (s, o), v in zip(kept, verdicts)]
    return outs, kept, verdicts, statuses


def gen_tables_gate(ctx):
    """Regenerate the tables from source and compile the obligations over them."""
    out = ctx.rundir / 'gen' / 'GenTables.v'        # per run (several checks may run at once); copied to build/gen/C03 below
    try:
        meta = tables.generate(out)
    except tables.Refused as e:
        print(f'TRANSLATOR-REFUSED C03 tables: {e}', flush=True)
        ctx.broken.append(f'TRANSLATOR-REFUSED: {e}')
        return
    ctx.obligations += meta['obligations']
    rc, log = coqc_file(out, timeout=300)
    try:
        (BUILD / 'gen' / 'C03').mkdir(parents=True, exist_ok=True)
        (BUILD / 'gen' / 'C03' / 'GenTables.v').write_text(out.read_text())
    except OSError:
        pass
    if rc == 0:
        ctx.discharged += meta['obligations']
    else:
        ctx.broken.append('regenerated tables (factory.known_records / synonyms / default_record_order / post_process / WS, LF) '
                          'no longer satisfy their obligations: ' + log[-400:])
    ctx.coverage['translator_sha'] = meta['sha']
    ctx.coverage['tables'] = {k: meta[k] for k in ('known', 'synonyms', 'order', 'parsers')}


def finding_probes(ctx):
    """Replay the stored witness of every open finding on the real code (all C03 findings are model-level)."""
    open_f = [f for f in {f['id']: f for f in ctx.findings}.values() if open_finding(ctx, f['id'])]
    text_f = [f for f in open_f if 'seed' not in f['witness']]
    open_f = [f for f in open_f if 'seed' in f['witness']]
    if text_f:
        terms = []
        for f in text_f:
            w = f['witness']
            term, _ = observe(w['text'], random.Random(w.get('edit_seed', 'w')), w.get('opt_ops', ()))
            terms.append(term)
        verdicts = ctx.run_cases('findings-text', IMPORTS, 'case', terms, 'verdict', prelude=instr().prelude())
        for f, v in zip(text_f, verdicts):
            guard = T_FINDINGS.get(f['expect_tag'], (None, None))[0]
            if f['expect_tag'] in v and guard in v and 29 not in v:
                ctx.known(f['id'])
            else:
                ctx.notes.append(f"finding_not_reproduced {f['id']} (tags {sorted(set(v))})")
    if not open_f:
        return
    specs = [f['witness'] for f in open_f]
    outs, kept, verdicts, statuses = run_model_specs(ctx, specs, 'findings', report=False)
    by_text = {s['text']: (o, v, st) for (s, o), v, st in zip(kept, verdicts, statuses)}
    for f in open_f:
        got = by_text.get(f['witness']['text'])
        tags0 = {t for t in got[1] if t < 1000} if got else set()
        if got and f['expect_tag'] in tags0 and f['id'] in got[2][0]:
            ctx.known(f['id'])
        else:
            ctx.notes.append(f"finding_not_reproduced {f['id']} (step-0 tags {sorted(tags0)}, status {got[2][0] if got else None})")


def run(ctx):
    ctx.build_gate(['C03'])
    gen_tables_gate(ctx)
    ctx.trusted += [
        'harness/props/c03.py: exporter of real lark trees / AttrTrees / record lists to Gallina terms, text encoding '
        '(Check.T decodes ASCII string literals to code points), harness-side wrappers of create_record and of the '
        'parser classes\' lark attribute',
        'harness/props/c03_tables.py (fail-closed ast translator of known_records, synonyms, default_record_order, post_process, WS/LF, the two regexes)',
        'harness/props/c03_gen.py generator of control-stream texts; harness/props/c03_oracle.py (model-level oracle: '
        'valid-layout mutations of the example models, wrappers logging every real call of the four NMTranControlStream edit methods)',
    ]
    ctx.assumptions += [
        'lark (LALR parse, lexer, %ignore, propagate_positions) is an engine: its output is only assumed to satisfy '
        'lark_contract / cover_contract, which is checked on every real tree of the run and is a hypothesis of the theorems',
        'not covered: acceptance by the record grammars (which texts are refused is engine behaviour)',
        'Python re semantics of the two regular expressions are modelled by hand-written scanners (validated by the correspondence)',
        'not covered by theorems: which records a modeling function decides to regenerate (update.py); the frame property after '
        'single-component edits and update_source identity are checked by the oracle on generated models only; record identity is '
        'Python object identity',
        'CodeRecord.update_statements is proved over abstract nodes/statements with the LCS diff and the code generator as parameters; '
        'it is tied to the code only through the oracle (edits of $PK/$ERROR keep comments and unrelated records)',
    ]
    ctx.coverage['source_sha'] = source_sha(tables.FACTORY, tables.NMTRAN, tables.PARSERS, tables.IGNORED, tables.SIZES,
                                            'src/pharmpy/model/external/nonmem/records/code_record.py',
                                            'src/pharmpy/internals/parse/generic.py',
                                            'src/pharmpy/internals/parse/missing.py')
    finding_probes(ctx)
    seeds = gen.seed_texts()
    reg = [json.loads(p.read_text()) for p in sorted((VERIF / 'regress' / 'C03').glob('*.json'))]
    specs = [s for s in reg if s.get('kind') != 'model']
    nreg = len(specs)
    specs += [{'text': t, 'origin': name} for name, t in seeds]
    n = int(os.environ.get('C03_N', 0)) or (180 if ctx.tier == 'quick' else 2500)
    specs += [{'text': gen.gen_text(ctx.rng, seeds)} for _ in range(n)]
    if ctx.tier == 'thorough':
        # every single insertion of a layout character into two small streams (exhaustive over positions x characters)
        small = [t for name, t in seeds if name.endswith('minimal.mod')]
        small.append('$PROB x\n $INPUT ID DV ; c\n$PK\n"  V\nCL = THETA(1) &\n + 1\nIF (A.GT.1) THEN\n B = 2\nENDIF\n$THETA (0,1) FIX ; t\n$OMEGA BLOCK(1) 0.1\n$FOO bar\n')
        for t in small:
            for i in range(len(t) + 1):
                for ch in (' ', '\t', '\n', ';', '&', '$', '\r', '\x00', '"'):
                    specs.append({'text': t[:i] + ch + t[i:]})
        ctx.coverage['systematic_insertions'] = sum((len(t) + 1) * 9 for t in small)
    verdicts, infos, stats = run_texts(ctx, specs, 'texts')
    accepted = [(s, i) for s, i in zip(specs, infos) if i['err'] == 0]
    kinds = {}
    for i in infos:
        for k in i['kinds']:
            if k in KNOWN_NAMES:
                kinds[k] = kinds.get(k, 0) + 1
            else:
                kinds['(unknown records)'] = kinds.get('(unknown records)', 0) + 1
    # ---- model-level oracle
    mspecs = [s for s in reg if s.get('kind') == 'model'] + oracle.boundary_specs()
    nm = int(os.environ.get('C03_NM', 0)) or (30 if ctx.tier == 'quick' else 450)
    mspecs += [oracle.gen_spec(ctx.rng) for _ in range(nm)]
    outs, kept, mverdicts, statuses = run_model_specs(ctx, mspecs, 'models')
    mstat = {}
    for (s, o), st in zip(kept, statuses):
        names = ['update_source'] + [e['name'] for e in o['edits']] + [e['name'] for e in o.get('history', [])]
        for k, x in enumerate(st):
            label = names[k]
            mstat.setdefault(label, {}).setdefault(x, 0)
            mstat[label][x] += 1
    allsteps = lambda o: [o['us']] + o['edits'] + o.get('history', [])
    ncalls = sum(len(st['calls']) for _, o in kept for st in allsteps(o))
    ctx.coverage['evaluations'] = (len(specs) + sum(len(i['edits']) for i in infos)
                                   + sum(1 + len(o['edits']) + len(o.get('history', [])) for _, o in kept))
    ctx.coverage['distinct_nontrivial'] = len({s['text'] for s, i in accepted if i['nrecs'] >= 2})
    ctx.coverage['rule'] = ('control-stream texts: regression corpus, example/test models of /repo, grammar-directed random '
                            'streams and layout mutations (VERIF_SEED); non-trivial = accepted by the parser and at least two '
                            'records; distinct by text.  Model-level oracle cases (valid layout mutations of example models x '
                            'modeling calls) are counted in evaluations only')
    ctx.coverage['case_status'] = stats
    ctx.coverage['oracle_cases'] = {
        'model_specs': len(mspecs), 'models_read': len(kept),
        'read_failures': sum(1 for o in outs if not o.get('read_ok')),
        'steps_by_status': mstat, 'real_edit_method_calls_compared': ncalls,
        'real_update_statements_calls_compared': sum(len(st['updates']) for _, o in kept for st in allsteps(o)),
        'history_steps': sum(len(o.get('history', [])) for _, o in kept),
        'real_update_abbr_record_calls_compared': sum(len(st.get('abbr', [])) for _, o in kept for st in allsteps(o)),
        'boundary_models': [s['boundary'] for s, _ in kept if 'boundary' in s],
        'edit_exceptions': sum(1 for _, o in kept for e in o['edits'] + o.get('history', []) if e['exc']),
    }
    ctx.coverage['input_distribution'] = {
        'texts': len(specs), 'accepted': len(accepted),
        'error_classes': {{0: 'accepted', 1: 'bad record name', 2: 'refused by a record grammar', 3: 'Assertion/AttributeError',
                           4: 'SIZES after PROBLEM', 9: 'other'}[e]: sum(1 for i in infos if i['err'] == e)
                          for e in sorted({i['err'] for i in infos})},
        'records_parsed': sum(i['nparsed'] for i in infos),
        'record_names_seen': kinds,
        'with_CR': sum(1 for v in verdicts if 202 in v), 'text_before_first_record': sum(1 for v in verdicts if 203 in v),
        'with_unknown_record': sum(1 for v in verdicts if 204 in v), 'with_ampersand': sum(1 for v in verdicts if 205 in v),
        'with_NUL': sum(1 for v in verdicts if 206 in v),
        'edit_calls': {{1: 'insert_record', 2: 'remove_records', 3: 'replace_records', 4: 'replace_all', -4: 'replace_all ValueError'}[k]:
                       sum(1 for i in infos for e in i['edits'] if e == k) for k in (1, 2, 3, 4, -4)},
        'option_edit_calls': {{1: 'set_option', 2: 'remove_option', 3: 'append_option', 4: 'prepend_option', 5: 'replace_option',
                               6: 'remove_nth_option(.,0)', 7: 'remove_nth_option(.,1)', 8: 'remove_nth_option(.,2)'}.get(k, str(k)):
                              sum(1 for i in infos for e in i.get('opts', []) if e == k) for k in (1, 2, 3, 4, 5, 6, 7, 8)},
        'length_hist': {str(b): sum(1 for i in infos if b <= i['len'] < 2 * b) for b in (1, 64, 128, 256, 512, 1024, 2048, 4096)},
    }
    zipped = list(zip(specs, verdicts))
    ctx.coverage['samples'] = ([{'text': s['text'][:300], 'tags': v} for s, v in zipped[nreg:nreg + 1]]
                               + [{'text': s['text'][:300], 'tags': v} for s, v in zipped[-3:]]
                               + [{'model_seed': s['seed'], 'edits': s['edits'], 'history': s.get('history'), 'tags': v, 'status': st}
                                  for (s, o), v, st in list(zip(kept, mverdicts, statuses))[-2:]])


KNOWN_NAMES = {'ABBREVIATED', 'COVARIANCE', 'DATA', 'DES', 'ERROR', 'ESTIMATION', 'ETAS', 'INPUT', 'MODEL', 'OMEGA', 'PK', 'PRED',
               'PROBLEM', 'SIGMA', 'SIMULATION', 'SIZES', 'SUBROUTINES', 'TABLE', 'THETA'}


def replay(ctx, rep):
    spec = rep['spec']
    if 'seed' in spec:          # model-level oracle case
        outs, kept, verdicts, statuses = run_model_specs(ctx, [spec], 'replay', report=False)
        print('spec', json.dumps(spec)[:2000])
        if not kept:
            print('model could not be read:', outs[0].get('read_error'))
            return 0
        print('tags', verdicts[0])
        print('statuses', statuses[0])
        return 1 if any(x in ('violation', 'broken') for x in statuses[0]) else 0
    erng = random.Random(spec.get('edit_seed', 'replay'))
    term, info = observe(spec['text'], erng, spec.get('opt_ops', ()))
    verdicts = ctx.run_cases('replay', IMPORTS, 'case', [term], 'verdict', prelude=instr().prelude())
    tags = verdicts[0]
    print('text', json.dumps(spec['text']))
    print('info', info)
    print('tags', tags, [TAGS.get(t, t) for t in tags])
    return 1 if any(t in ORACLE or t in CORR for t in tags) else 0
